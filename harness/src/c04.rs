//! C04 — one setsum covers all data: manifest, files and contents always balance.
//!
//! Store histories as in C01 with verifier passes mixed in.  After every operation:
//!  * oracle (books_balance): `O` of the newest manifest edit == sum of the setsums of the SSTs of
//!    the current version == sum of the setsums recomputed from the entries actually stored;
//!    every edit balances (I = O + D), continues from its predecessor's O, every fragment starts
//!    with the state at its creation; ManifestVerifier accepts every fragment; LsmVerifier never
//!    reports corruption on a history the store produced.
//!  * correspondence (digests): `Blue.Books.verify` over the canonical-setsum group on the same
//!    records == the real ManifestVerifier's verdict; the model's sum of the listed digests ==
//!    recorded `O`; tamper stream: one hex digit of one recorded digest changed in a copy of a
//!    fragment — both must reject; or its text changed to another spelling of the same value (`+x`,
//!    upper case) — both must accept.
//!  * correspondence (contents, `vone pass`): every pass of the real LsmVerifier against
//!    `Blue.Verifier.pass` run with the real checks (`Blue.VerifyOne.contentChecker`) on the dumped
//!    directory (digests in full), the contents of every file the pass can read (through the
//!    implementation's cursors, each entry with the setsum the real `sst::Setsum` gives it alone)
//!    and the policy: status with the failing check, unlinked names, verify/ state.  Passes inside
//!    histories; on untampered copies; on copies with ONE entry of ONE file changed under the
//!    file's name (`tamper_matrix`: file kind x tamper kind x metadata kept/recomputed), which must
//!    end in a corruption error; on hand-written directories with one garbage collection whose
//!    record is consistent but whose outputs are not the policy's (`gc_directed`).
//!  * compensating pairs (`pair_matrix`, `pair_directed`): TWO recorded digests of one record
//!    altered so that they cancel (`D+x / O−x`, a collection's `D := 0 / O := I`; also `O` with the
//!    next record's `I`) — every record kind x position in its fragment x alteration, on copies of
//!    the store's directories and on hand-written ones; the real LsmVerifier must end with a
//!    corruption error (`tampered-digest-pair-accepted`), the model gets the same directory.
//!  * recovery of SEVERAL write-ahead logs in one open (`two_logs`): directories with two or three
//!    non-empty logs the manifest does not know — written by hand (`LogBuilder`) or left by the
//!    store itself (real `memtable_thread` on a helper thread, its flush parked in the level-0
//!    ingest stall while the client goes on writing, the directory copied) — reopened with the
//!    real store: `ledger recover` (`Blue.Books.recoverRecs`) against the records the open wrote,
//!    the oracle on those records (chain, balance, file = the log's entries), then the whole
//!    books oracle, every acknowledged write, a verifier pass, and again after another reopen.
use crate::common::*;

fn tainted(v: Verdict, taint: &Option<String>) -> Verdict {
    match (v, taint) {
        (Verdict::Ok, Some(c)) => Verdict::Taint { class: c.clone() },
        (v, _) => v,
    }
}

use crate::store::*;
use std::path::{Path, PathBuf};

#[derive(Clone, Debug, Default)]
struct EditRec {
    i: Option<String>,
    o: Option<String>,
    d: Option<String>,
    l: Option<String>,
    added: Vec<String>,
    rmed: Vec<String>,
}

fn list_fragments(root: &str) -> Vec<PathBuf> {
    let mani_root = lsmtk::MANI_ROOT(root);
    let mut nums: Vec<u64> = vec![];
    if let Ok(rd) = std::fs::read_dir(&mani_root) {
        for e in rd.flatten() {
            if let Some(n) = mani::extract_backup(e.path()) {
                nums.push(n);
            }
        }
    }
    nums.sort();
    let mut v: Vec<PathBuf> = nums.into_iter().map(|n| mani::BACKUP(&mani_root, n)).collect();
    v.push(mani::MANIFEST(&mani_root));
    v
}

fn read_fragment(path: &Path) -> Result<Vec<EditRec>, String> {
    let it = mani::ManifestIterator::open(path).map_err(|e| format!("{:?}", e))?;
    let mut out = vec![];
    for e in it {
        let e = e.map_err(|e| format!("{:?}", e))?;
        out.push(EditRec {
            i: e.get_info('I').cloned(),
            o: e.get_info('O').cloned(),
            d: e.get_info('D').cloned(),
            l: e.get_info('L').cloned(),
            added: e.added().cloned().collect(),
            rmed: e.rmed().cloned().collect(),
        });
    }
    Ok(out)
}

fn write_fragment(path: &Path, edits: &[EditRec]) {
    let mut s = String::new();
    let line = |body: String| format!("{:08x}{}\n", crc32c::crc32c(body.as_bytes()), body);
    for e in edits {
        for r in &e.rmed {
            s += &line(format!("-{}", r));
        }
        for a in &e.added {
            s += &line(format!("+{}", a));
        }
        // BTreeMap<char, String> order: 'D' < 'I' < 'L' < 'O'
        if let Some(x) = &e.d {
            s += &line(format!("D{}", x));
        }
        if let Some(x) = &e.i {
            s += &line(format!("I{}", x));
        }
        if let Some(x) = &e.l {
            s += &line(format!("L{}", x));
        }
        if let Some(x) = &e.o {
            s += &line(format!("O{}", x));
        }
        s += "--------\n";
    }
    std::fs::write(path, s).unwrap();
}

fn verdict_class(r: &Result<Vec<(setsum::Setsum, setsum::Setsum, setsum::Setsum)>, lsmtk::SError>) -> String {
    match r {
        Ok(_) => "accept".into(),
        Err(e) => {
            let s = format!("{:?}", e);
            if s.contains("does not continue") {
                "reject chain".into()
            } else if s.contains("does not balance") {
                "reject balance".into()
            } else if s.contains("bad discard") {
                "reject discard".into()
            } else {
                format!("reject other:{}", s.chars().filter(|c| !c.is_whitespace()).take(80).collect::<String>())
            }
        }
    }
}

fn join_or_dash(v: &[String]) -> String {
    if v.is_empty() {
        "-".into()
    } else {
        v.join("+")
    }
}

/// the `ledger verify` request for a fragment: prev = O of the leading roll-up edit
fn ledger_request(edits: &[EditRec]) -> Option<String> {
    let first = edits.first()?;
    let prev = first.o.clone()?;
    let mut toks = vec![];
    for e in &edits[1..] {
        toks.push(format!("{},{},{},{},{}", e.i.clone()?, e.o.clone()?, e.d.clone()?, join_or_dash(&e.rmed), join_or_dash(&e.added)));
    }
    Some(format!("ledger verify {} {}", prev, toks.join(" ")))
}

fn strip_pos(s: &str) -> String {
    // model says "reject chain@3"; the implementation's class has no position
    match s.find('@') {
        Some(i) => s[..i].to_string(),
        None => s.to_string(),
    }
}

fn entry_setsum(entries: &[Ent]) -> setsum::Setsum {
    let mut acc = sst::Setsum::default();
    for (k, t, v) in entries {
        match v {
            Some(v) => acc.put(k, *t, v),
            None => acc.del(k, *t),
        }
    }
    acc.into_inner()
}

fn flip_hex_digit(rng: &mut Rng, s: &str) -> String {
    let mut b: Vec<u8> = s.as_bytes().to_vec();
    if b.is_empty() {
        return s.to_string();
    }
    let i = rng.below(b.len() as u64) as usize;
    let digits = b"0123456789abcdef";
    loop {
        let c = digits[rng.below(16) as usize];
        if c != b[i] {
            b[i] = c;
            break;
        }
    }
    String::from_utf8(b).unwrap()
}

/// a copy of a store directory for a verifier pass: SSTs and trash entries are never written in
/// place (the verifier unlinks, the tamper stream replaces a file by rename), so they are hard
/// links; everything else (manifests, logs, verify/) is copied
fn copy_dir(from: &Path, to: &Path) -> std::io::Result<()> {
    copy_dir_at(from, to, false)
}

fn copy_dir_at(from: &Path, to: &Path, link: bool) -> std::io::Result<()> {
    std::fs::create_dir_all(to)?;
    for e in std::fs::read_dir(from)? {
        let e = e?;
        let p = e.path();
        let t = to.join(e.file_name());
        if p.is_dir() {
            let name = e.file_name().to_string_lossy().to_string();
            copy_dir_at(&p, &t, link || name == "sst" || name == "trash")?;
        } else if link && p.extension().map(|x| x == "sst").unwrap_or(false) {
            if std::fs::hard_link(&p, &t).is_err() {
                std::fs::copy(&p, &t)?;
            }
        } else {
            std::fs::copy(&p, &t)?;
        }
    }
    Ok(())
}

// ---------------------------------------------------------------------------------------------
// `vone`: one whole pass of the real LsmVerifier against `Blue.Verifier.pass` run with the real
// checks (`Blue.VerifyOne.contentChecker`): the directory as the pass finds it (digests in full),
// the contents of every file the pass can read (through the implementation's cursors, each entry
// with the setsum the real `sst::Setsum` gives it alone), the policy.

#[derive(Clone, Debug, Default)]
pub struct FullDir {
    /// digests with a file in sst/
    sst: Vec<String>,
    /// basenames in trash/
    trash: Vec<String>,
    frags: Vec<(u64, Vec<EditRec>)>,
    live: Vec<EditRec>,
    vstrs: Vec<String>,
    vm: Option<u64>,
    vo: String,
    unreadable: bool,
}

thread_local! {
    /// contents of untampered files by digest (one history at a time; cleared per history)
    static CONTENTS: std::cell::RefCell<std::collections::HashMap<String, Vec<Ent>>> = Default::default();
}

fn ls(root: &str, sub: &str) -> Vec<String> {
    let mut v: Vec<String> = std::fs::read_dir(format!("{}/{}", root, sub)).map(|rd| rd.flatten().map(|e| e.file_name().to_string_lossy().to_string()).collect()).unwrap_or_default();
    v.sort();
    v
}

fn zero_digest() -> String {
    setsum::Setsum::default().hexdigest()
}

pub fn full_dir(root: &str) -> FullDir {
    let mut d = FullDir::default();
    d.sst = ls(root, "sst").iter().filter_map(|n| n.strip_suffix(".sst").map(|x| x.to_string())).collect();
    d.trash = ls(root, "trash");
    let mut nums: Vec<u64> = ls(root, "mani").iter().filter_map(|n| mani::extract_backup(Path::new(n))).collect();
    nums.sort();
    for n in nums {
        match read_fragment(Path::new(&format!("{}/mani/MANIFEST.{}", root, n))) {
            Ok(es) => d.frags.push((n, es)),
            Err(_) => {
                d.unreadable = true;
                d.frags.push((n, vec![]));
            }
        }
    }
    match read_fragment(Path::new(&format!("{}/mani/MANIFEST", root))) {
        Ok(es) => d.live = es,
        Err(_) => d.unreadable = true,
    }
    d.vo = zero_digest();
    match mani::ManifestIterator::open(Path::new(&format!("{}/verify/MANIFEST", root))) {
        Ok(it) => {
            let mut strs: std::collections::BTreeSet<String> = Default::default();
            for e in it {
                let Ok(e) = e else {
                    d.unreadable = true;
                    break;
                };
                for r in e.rmed() {
                    strs.remove(r);
                }
                for a in e.added() {
                    strs.insert(a.clone());
                }
                if let Some(m) = e.get_info('M') {
                    d.vm = mani::extract_backup(Path::new(m));
                }
                if let Some(o) = e.get_info('O') {
                    d.vo = o.clone();
                }
            }
            d.vstrs = strs.into_iter().collect();
        }
        Err(_) => d.unreadable = true,
    }
    d
}

fn render_edit_full(e: &EditRec) -> String {
    let mut items: Vec<String> = vec![];
    items.extend(e.rmed.iter().map(|x| format!("-{}", x)));
    items.extend(e.added.iter().map(|x| format!("+{}", x)));
    for (k, v) in [('I', &e.i), ('O', &e.o), ('D', &e.d), ('L', &e.l)] {
        if let Some(v) = v {
            items.push(format!("{}{}", k, v));
        }
    }
    if items.is_empty() {
        ".".into()
    } else {
        items.join(",")
    }
}

fn render_edits_full(es: &[EditRec]) -> String {
    if es.is_empty() {
        "-".into()
    } else {
        es.iter().map(render_edit_full).collect::<Vec<_>>().join(";")
    }
}

fn plus_sorted(v: &[String]) -> String {
    let s: std::collections::BTreeSet<&String> = v.iter().collect();
    if s.is_empty() {
        "-".into()
    } else {
        s.into_iter().cloned().collect::<Vec<_>>().join("+")
    }
}

fn item_digest(e: &Ent) -> String {
    let mut acc = sst::Setsum::default();
    match &e.2 {
        Some(v) => acc.put(&e.0, e.1, v),
        None => acc.del(&e.0, e.1),
    }
    acc.into_inner().hexdigest()
}

fn render_entry_full(e: &Ent) -> String {
    match &e.2 {
        Some(v) => format!("{}@{}={}#{}", hex(&e.0), e.1, hex(v), item_digest(e)),
        None => format!("{}@{}!#{}", hex(&e.0), e.1, item_digest(e)),
    }
}

impl FullDir {
    /// the fragments a pass from this directory will run `verify_one` on
    fn to_process(&self) -> Vec<&(u64, Vec<EditRec>)> {
        let n = self.frags.len();
        self.frags.iter().take(n.saturating_sub(1)).filter(|f| self.vm.map(|m| f.0 > m).unwrap_or(true)).collect()
    }
    /// what `get_cursor` shows for every file an edit other than the first of those fragments names.
    /// Files are named after their contents and never rewritten, so what was read once under a
    /// name in the store's own directory is reused (`CONTENTS`); `fresh` names the one file of a
    /// tampered copy that must be read from the copy.
    fn files(&self, root: &str, fresh: Option<&str>) -> Vec<(String, Vec<Ent>)> {
        let mut seen: std::collections::BTreeSet<String> = Default::default();
        let mut out = vec![];
        for (_, es) in self.to_process() {
            for e in es.iter().skip(1) {
                for x in e.added.iter().chain(e.rmed.iter()) {
                    if !seen.insert(x.clone()) {
                        continue;
                    }
                    let Some(s) = setsum::Setsum::from_hexdigest(x) else { continue };
                    let digest = s.hexdigest();
                    let name = format!("{}.sst", digest);
                    let path = [format!("{}/trash/{}", root, name), format!("{}/sst/{}", root, name)].into_iter().find(|p| Path::new(p).exists());
                    let Some(p) = path else { continue };
                    if fresh != Some(digest.as_str()) {
                        if let Some(ents) = CONTENTS.with(|c| c.borrow().get(&digest).cloned()) {
                            out.push((digest, ents));
                            continue;
                        }
                    }
                    if let Ok(ents) = read_sst(&p) {
                        if fresh != Some(digest.as_str()) {
                            CONTENTS.with(|c| c.borrow_mut().insert(digest.clone(), ents.clone()));
                        }
                        out.push((digest, ents));
                    }
                }
            }
        }
        out
    }
    fn render_v(&self) -> String {
        format!("vM={} vO={} vstrs={}", self.vm.map(|n| n.to_string()).unwrap_or_else(|| "-".into()), self.vo, plus_sorted(&self.vstrs))
    }
    fn request(&self, root: &str, gc_versions: u64) -> String {
        self.request_with(root, gc_versions, None)
    }
    fn request_with(&self, root: &str, gc_versions: u64, fresh: Option<&str>) -> String {
        let frags = if self.frags.is_empty() { "-".to_string() } else { self.frags.iter().map(|(n, es)| format!("{}:{}", n, render_edits_full(es))).collect::<Vec<_>>().join("|") };
        let files = self.files(root, fresh);
        let files = if files.is_empty() { "-".to_string() } else { files.iter().map(|(d, es)| format!("{}:{}", d, es.iter().map(render_entry_full).collect::<Vec<_>>().join(","))).collect::<Vec<_>>().join("|") };
        format!(
            "vone pass gc={} tail={} sst={} trash={} vM={} vO={} vstrs={} frags={} live={} files={}",
            gc_versions,
            if tail_checked() { 1 } else { 0 },
            plus_sorted(&self.sst),
            plus_sorted(&self.trash),
            self.vm.map(|n| n.to_string()).unwrap_or_else(|| "-".into()),
            self.vo,
            plus_sorted(&self.vstrs),
            frags,
            render_edits_full(&self.live),
            files
        )
    }
}

/// the check of `verify_one` an error of the real verifier comes from, read off its text
fn fail_class(full: &str) -> String {
    let table: &[(&str, &str)] = &[
        ("does not continue", "chain"),
        ("does not balance", "balance"),
        ("sst contents do not match", "contents"),
        ("garbage collection has bad discard", "gc-discard"),
        ("manifest has bad discard", "discard"),
        ("data loss", "gc-data-loss"),
        ("data construction", "gc-construction"),
        ("gc key less than input", "gc-logic"),
        ("bad output setsum", "output"),
        ("bad L field", "bad-L"),
        ("bad digest", "bad-digest"),
        ("manifest edit missing", "missing"),
        ("out of order", "out-of-order"),
        ("NotFound", "notfound"),
        ("No such file", "notfound"),
    ];
    for (needle, cls) in table {
        if full.contains(needle) {
            if *cls == "missing" {
                if let Some(i) = full.find("manifest edit missing '") {
                    if let Some(c) = full[i + 23..].chars().next() {
                        return format!("missing-{}", c);
                    }
                }
            }
            return cls.to_string();
        }
    }
    format!("other:{}", full.chars().filter(|c| !c.is_whitespace()).take(60).collect::<String>())
}

/// one pass of the real verifier on `dir`: `ok`, `backoff:<name>`, `corrupt:<check>` or `panic`
fn real_pass(cfg: &Cfg, dir: &str) -> String {
    let opts = cfg.options(dir);
    let r = guarded(std::panic::AssertUnwindSafe(|| match lsmtk::LsmVerifier::open(opts) {
        Ok(mut v) => v.verify(),
        Err(e) => Err(e),
    }));
    match r {
        Err(_) => "panic".to_string(),
        Ok(Ok(())) => "ok".to_string(),
        Ok(Err(e)) => match lsmtk::backoff_path(&e) {
            Some(p) => format!("backoff:{}", p),
            None => format!("corrupt:{}", fail_class(&format!("{:?}", e))),
        },
    }
}

fn status_of_sim(sim: &Sim) -> String {
    if sim.last_verify == "ok" {
        "ok".into()
    } else if let Some(p) = sim.last_verify.strip_prefix("backoff:") {
        format!("backoff:{}", p)
    } else {
        format!("corrupt:{}", fail_class(&sim.last_verify_full))
    }
}

fn observed_pass_full(before: &FullDir, after: &FullDir, status: &str) -> String {
    let a_trash: std::collections::BTreeSet<&String> = after.trash.iter().collect();
    let gone_t: Vec<String> = before.trash.iter().filter(|x| !a_trash.contains(x)).cloned().collect();
    let a_frags: std::collections::BTreeSet<u64> = after.frags.iter().map(|f| f.0).collect();
    let gone_f: Vec<String> = before.frags.iter().map(|f| f.0).filter(|n| !a_frags.contains(n)).map(|n| n.to_string()).collect();
    format!("st={} trash-={} frags-={} {}", status, plus_sorted(&gone_t), if gone_f.is_empty() { "-".to_string() } else { gone_f.join("+") }, after.render_v())
}

fn edit_kind(e: &EditRec) -> &'static str {
    let gc = !e.rmed.is_empty() && e.d.as_deref() != Some(zero_digest().as_str());
    if e.rmed.is_empty() && e.added.is_empty() {
        "empty"
    } else if e.rmed.is_empty() {
        "ingest"
    } else if gc {
        "gc"
    } else {
        "compaction"
    }
}

/// counts what a pass from `d` has to look at
fn count_pass(rec: &mut Recorder, d: &FullDir, prefix: &str) -> (usize, usize) {
    let mut edits = 0;
    let mut gcs = 0;
    for (_, es) in d.to_process() {
        for e in es.iter().skip(1) {
            edits += 1;
            let k = edit_kind(e);
            if k == "gc" {
                gcs += 1;
            }
            rec.count(&format!("{}.edits.{}", prefix, k));
        }
    }
    (edits, gcs)
}

/// run the real verifier once on `dir` (a directory nothing else is using) and emit the case
fn pass_case(rec: &mut Recorder, tag: &str, cfg: &Cfg, dir: &str, taint: &Option<String>, expect_corrupt: Option<&str>, prefix: &str, fresh: Option<&str>) -> String {
    pass_case_class(rec, tag, cfg, dir, taint, expect_corrupt, prefix, fresh, "tampered-sst-entry-accepted")
}

/// … `accept_class`: the oracle class when a pass that owed a corruption error ends otherwise
fn pass_case_class(rec: &mut Recorder, tag: &str, cfg: &Cfg, dir: &str, taint: &Option<String>, expect_corrupt: Option<&str>, prefix: &str, fresh: Option<&str>, accept_class: &str) -> String {
    let before = full_dir(dir);
    if before.unreadable {
        rec.count(&format!("{}.skipped_unreadable", prefix));
        return "unreadable".into();
    }
    // a copy's files are the store's own (hard links) except the one named `fresh`
    let req = before.request_with(dir, cfg.gc_versions, fresh);
    let (edits, gcs) = count_pass(rec, &before, prefix);
    let status = real_pass(cfg, dir);
    let after = full_dir(dir);
    let obs = observed_pass_full(&before, &after, &status);
    rec.count(&format!("{}.{}", prefix, status.split(':').next().unwrap_or("?")));
    let v = match expect_corrupt {
        Some(what) if !status.starts_with("corrupt") => Verdict::Fail { class: taint.clone().unwrap_or_else(|| accept_class.to_string()), detail: format!("{} {}: the pass ends {} (a corruption error was due)", tag, what, status) },
        None if status != "ok" => Verdict::Fail { class: taint.clone().unwrap_or_else(|| "verifier-rejects-store-history".to_string()), detail: format!("{} pass on an untampered copy ends {}", tag, status) },
        _ => Verdict::Ok,
    };
    rec.case(&req, &obs, tainted(v, taint), if edits >= 1 { Some(fnv(format!("{}{}", req.len(), &req[..req.len().min(4000)]).as_bytes()) ^ fnv(obs.as_bytes()) ^ gcs as u64) } else { None });
    status
}

/// does the code under test compare the inputs left after the last output of a garbage collection
/// with the collector (a variant of verify_gc tried in a scratch copy, not in /repo)?  Decided on one directed directory: inputs
/// {a@5, a@2, b@3}, policy versions = 1, output {a@5} and D = setsum{a@2, b@3}.
fn tail_checked() -> bool {
    static T: std::sync::OnceLock<bool> = std::sync::OnceLock::new();
    *T.get_or_init(|| {
        let root = scratch_dir("c04.taildetect");
        let ins: Vec<Vec<Ent>> = vec![vec![(b"a".to_vec(), 5, Some(b"v5".to_vec())), (b"a".to_vec(), 2, Some(b"v2".to_vec())), (b"b".to_vec(), 3, Some(b"w3".to_vec()))]];
        let outs: Vec<Vec<Ent>> = vec![vec![(b"a".to_vec(), 5, Some(b"v5".to_vec()))]];
        let ok = build_gc_dir(&root, &ins, &outs, None).is_ok();
        let cfg = gcdir_cfg(1);
        let st = if ok { real_pass(&cfg, &root) } else { "build-failed".to_string() };
        let _ = std::fs::remove_dir_all(&root);
        st == "corrupt:gc-data-loss"
    })
}

fn gcdir_cfg(versions: u64) -> Cfg {
    Cfg { memtable_bytes: 1 << 20, target_file: 1 << 22, min_file: 1 << 12, target_block: 4096, l0_mandatory_files: 4, l0_stall_files: 12, max_compaction_files: 64, gc_versions: versions, mani_ratio: 10 }
}

fn build_sst(path: &str, entries: &[Ent]) -> Result<(), String> {
    use sst::Builder;
    let mut b = sst::SstBuilder::new(sst::SstOptions::default(), path).map_err(|e| format!("{:?}", e))?;
    for (k, t, v) in entries {
        match v {
            Some(v) => b.put(k, *t, v).map_err(|e| format!("{:?}", e))?,
            None => b.del(k, *t).map_err(|e| format!("{:?}", e))?,
        }
    }
    b.seal().map_err(|e| format!("{:?}", e))?;
    Ok(())
}

/// A store directory written by hand: the files `ins` (in trash/) were ingested, one transaction
/// removed them and added the files `outs` (in sst/), and the manifest has rolled over twice since,
/// so that the verifier processes the fragment that holds the transaction.  Every digest is what
/// the files say (I = Σ ins, D = Σ ins − Σ outs, O = I − D) unless `d_override` gives another D
/// (O follows, so that the transaction still balances).
fn build_gc_dir(root: &str, ins: &[Vec<Ent>], outs: &[Vec<Ent>], d_override: Option<setsum::Setsum>) -> Result<(), String> {
    let _ = std::fs::remove_dir_all(root);
    for sub in ["mani", "sst", "trash"] {
        std::fs::create_dir_all(format!("{}/{}", root, sub)).map_err(|e| e.to_string())?;
    }
    let mut i_sum = setsum::Setsum::default();
    let mut o_sum = setsum::Setsum::default();
    let mut in_names = vec![];
    let mut out_names = vec![];
    for f in ins {
        let s = entry_setsum(f);
        i_sum += s;
        in_names.push(s.hexdigest());
        build_sst(&format!("{}/trash/{}.sst", root, s.hexdigest()), f)?;
    }
    for f in outs {
        let s = entry_setsum(f);
        o_sum += s;
        out_names.push(s.hexdigest());
        if !in_names.contains(&s.hexdigest()) {
            build_sst(&format!("{}/sst/{}.sst", root, s.hexdigest()), f)?;
        }
    }
    let d = d_override.unwrap_or(i_sum - o_sum);
    let o = i_sum - d;
    let z = zero_digest();
    let rollup = |names: &[String], total: &setsum::Setsum| {
        let mut names = names.to_vec();
        names.sort();
        names.dedup();
        EditRec { i: Some(total.hexdigest()), o: Some(total.hexdigest()), d: Some(z.clone()), l: None, added: names, rmed: vec![] }
    };
    // the first fragment of a store: the empty state, one ingest per input file, the transaction
    let mut edits = vec![rollup(&[], &setsum::Setsum::default())];
    let mut acc = setsum::Setsum::default();
    let mut seen: Vec<String> = vec![];
    for f in ins {
        let s = entry_setsum(f);
        if seen.contains(&s.hexdigest()) {
            continue;
        }
        seen.push(s.hexdigest());
        let minus = setsum::Setsum::default() - s;
        edits.push(EditRec { i: Some(acc.hexdigest()), o: Some((acc + s).hexdigest()), d: Some(minus.hexdigest()), l: None, added: vec![s.hexdigest()], rmed: vec![] });
        acc += s;
    }
    in_names.sort();
    in_names.dedup();
    out_names.sort();
    out_names.dedup();
    edits.push(EditRec { i: Some(i_sum.hexdigest()), o: Some(o.hexdigest()), d: Some(d.hexdigest()), l: None, added: out_names.clone(), rmed: in_names.clone() });
    write_fragment(Path::new(&format!("{}/mani/MANIFEST.1", root)), &edits);
    write_fragment(Path::new(&format!("{}/mani/MANIFEST.2", root)), &[rollup(&out_names, &o)]);
    write_fragment(Path::new(&format!("{}/mani/MANIFEST", root)), &[rollup(&out_names, &o)]);
    Ok(())
}

/// what the real collector retains of the merged run (the run is sorted, (key, timestamp)s distinct)
fn real_retained(run: &[Ent], versions: u64) -> Result<Vec<(Vec<u8>, u64)>, String> {
    use sst::reference::ReferenceBuilder;
    use sst::Cursor;
    let mut b = ReferenceBuilder::default();
    for (k, t, v) in run {
        match v {
            Some(v) => b.put(k, *t, v),
            None => b.del(k, *t),
        }
        .map_err(|e| format!("{:?}", e))?;
    }
    let mut c = b.seal().map_err(|e| format!("{:?}", e))?.cursor();
    c.seek_to_first().map_err(|e| format!("{:?}", e))?;
    c.next().map_err(|e| format!("{:?}", e))?;
    let policy = sst::gc::GarbageCollectionPolicy::Versions { number: std::num::NonZeroU64::new(versions).unwrap() };
    let mut gc = policy.collector(c, 0).map_err(|e| format!("{:?}", e))?;
    let mut out = vec![];
    while let Some(kr) = gc.next().map_err(|e| format!("{:?}", e))? {
        out.push((kr.key.to_vec(), kr.timestamp));
        if out.len() > 100_000 {
            return Err("collector-does-not-terminate".into());
        }
    }
    Ok(out)
}

const GC_MUTATIONS: &[&str] = &["honest", "over-retain", "drop-retained-inner", "drop-retained-last", "drop-retained-tail2", "alter-retained-value", "add-foreign-entry", "wrong-discard", "retain-nothing"];

/// Directed stream on `verify_gc` itself: a garbage collection whose RECORD is consistent (every
/// digest is what the files say) but whose outputs are not what the policy asks for.  Tampers that
/// keep a file's name never get this far (the contents check comes first).
fn gc_directed(rec: &mut Recorder, seed: u64, idx: u64) {
    let mut rng = Rng::for_case(seed, 1041, idx);
    let versions = *rng.pick(&[1u64, 1, 2, 3]);
    let nkeys = rng.range(1, 4) as usize;
    let mut ts_pool: Vec<u64> = (1..=24).collect();
    rng.shuffle(&mut ts_pool);
    let mut run: Vec<Ent> = vec![];
    let mut vc = 0u64;
    for k in 0..nkeys {
        let key = ALPHABET[k + 1].to_vec();
        let nv = rng.range(1, 4) as usize;
        let mut tss: Vec<u64> = (0..nv).map(|_| ts_pool.pop().unwrap()).collect();
        tss.sort_by(|a, b| b.cmp(a));
        for t in tss {
            vc += 1;
            let val = if rng.chance(1, 4) { None } else { Some(format!("v{}", vc).into_bytes()) };
            run.push((key.clone(), t, val));
        }
    }
    let k = rng.range(1, 3) as usize;
    let mut ins: Vec<Vec<Ent>> = vec![vec![]; k];
    for e in &run {
        ins[rng.below(k as u64) as usize].push(e.clone());
    }
    ins.retain(|f| !f.is_empty());
    let kept_keys = match real_retained(&run, versions) {
        Ok(k) => k,
        Err(e) => {
            rec.case(&format!("# gcdir {} collector", idx), "#", Verdict::Fail { class: "collector-error".into(), detail: e }, None);
            return;
        }
    };
    let is_kept = |e: &Ent| kept_keys.iter().any(|(k, t)| *k == e.0 && *t == e.1);
    let kept: Vec<Ent> = run.iter().filter(|e| is_kept(e)).cloned().collect();
    let dropped: Vec<Ent> = run.iter().filter(|e| !is_kept(e)).cloned().collect();
    let mut mutation = GC_MUTATIONS[(idx % GC_MUTATIONS.len() as u64) as usize];
    let mut out = kept.clone();
    let mut d_override = None;
    // what the verifier owes: "ok", "corrupt", or "tail" (a retained entry after the last output is gone)
    let mut due = "ok";
    match mutation {
        "over-retain" if !dropped.is_empty() => {
            // a dropped VALUE is kept too (a kept tombstone could shadow data: not this stream)
            let e = dropped[rng.below(dropped.len() as u64) as usize].clone();
            out.push(e);
            out.sort_by(|a, b| a.0.cmp(&b.0).then(b.1.cmp(&a.1)));
        }
        "drop-retained-inner" if kept.len() >= 2 => {
            out.remove(rng.below(kept.len() as u64 - 1) as usize);
            due = "corrupt";
        }
        "drop-retained-last" if !kept.is_empty() => {
            out.pop();
            due = "tail";
        }
        "drop-retained-tail2" if kept.len() >= 2 => {
            out.pop();
            out.pop();
            due = "tail";
        }
        "alter-retained-value" if !kept.is_empty() => {
            let i = rng.below(kept.len() as u64) as usize;
            out[i].2 = Some(b"altered".to_vec());
            due = "corrupt";
        }
        "add-foreign-entry" => {
            let i = rng.below(run.len() as u64) as usize;
            out.push((run[i].0.clone(), 1000 + idx, Some(b"foreign".to_vec())));
            out.sort_by(|a, b| a.0.cmp(&b.0).then(b.1.cmp(&a.1)));
            due = "corrupt";
        }
        "wrong-discard" => {
            let mut x = sst::Setsum::default();
            x.put(b"zz", 77, b"never stored");
            let real_d = entry_setsum(&run) - entry_setsum(&out);
            d_override = Some(real_d + x.into_inner());
            due = "corrupt";
        }
        "retain-nothing" if !kept.is_empty() => {
            out.clear();
            due = "tail";
        }
        _ => mutation = "honest",
    }
    if mutation == "honest" {
        out = kept.clone();
        d_override = None;
        due = "ok";
    }
    // cut the outputs into one or two files
    let mut outs: Vec<Vec<Ent>> = vec![];
    if !out.is_empty() {
        let cut = if out.len() >= 2 && rng.chance(1, 2) { rng.range(1, out.len() as u64 - 1) as usize } else { out.len() };
        outs.push(out[..cut].to_vec());
        if cut < out.len() {
            outs.push(out[cut..].to_vec());
        }
    }
    let root = scratch_dir(&format!("c04.gcdir.{}", idx));
    if let Err(e) = build_gc_dir(&root, &ins, &outs, d_override) {
        rec.case(&format!("# gcdir {} build", idx), "#", Verdict::Fail { class: "harness-build-error".into(), detail: e }, None);
        return;
    }
    let cfg = gcdir_cfg(versions);
    let before = full_dir(&root);
    let req = before.request(&root, versions);
    let status = real_pass(&cfg, &root);
    let after = full_dir(&root);
    let obs = observed_pass_full(&before, &after, &status);
    let _ = std::fs::remove_dir_all(&root);
    rec.count(&format!("gcdir.{}.{}", mutation, status.replace(':', ".")));
    let v = match due {
        "ok" if status != "ok" => Verdict::Fail { class: "verifier-rejects-policy-conform-gc".into(), detail: format!("gcdir {} {}: {}", idx, mutation, status) },
        "corrupt" if !status.starts_with("corrupt") => Verdict::Fail { class: "inconsistent-gc-accepted".into(), detail: format!("gcdir {} {}: the pass ends {}", idx, mutation, status) },
        "tail" => {
            // observation O-C04-1: as the code is, a retained entry that sorts after the last output
            // is not looked for; the model follows the code under test (`tail=`)
            if status == "ok" {
                rec.count("gcdir.retained_entry_after_last_output_gone_and_accepted");
            }
            if tail_checked() && status == "ok" {
                Verdict::Fail { class: "inconsistent-gc-accepted".into(), detail: format!("gcdir {} {}: the pass ends ok although the tail is checked", idx, mutation) }
            } else {
                Verdict::Ok
            }
        }
        _ => Verdict::Ok,
    };
    rec.case(&req, &obs, v, Some(fnv(req.as_bytes())));
}

const TAMPER_KINDS: &[&str] = &["drop", "duplicate", "alter-value", "alter-timestamp", "add-entry"];
const ROLES: &[&str] = &["ingest-add", "compaction-output", "compaction-input", "gc-output", "gc-input"];

/// one entry of `entries` changed; None = this kind does not apply to this file
fn tamper_entries(rng: &mut Rng, entries: &mut Vec<Ent>, kind: &str, fresh_ts: u64) -> Option<()> {
    let i = rng.below(entries.len() as u64) as usize;
    let first_of_key = |es: &Vec<Ent>, i: usize| {
        let mut j = i;
        while j > 0 && es[j - 1].0 == es[i].0 {
            j -= 1;
        }
        j
    };
    match kind {
        "drop" => {
            if entries.len() < 2 {
                return None; // an SST cannot be empty
            }
            entries.remove(i);
        }
        "duplicate" => {
            // the same key and payload once more, under a timestamp nothing in the store carries
            let mut e = entries[i].clone();
            e.1 = fresh_ts;
            let j = first_of_key(entries, i);
            entries.insert(j, e);
        }
        "alter-value" => {
            entries[i].2 = Some(match &entries[i].2 {
                Some(v) => {
                    let mut v = v.clone();
                    v.push(b'~');
                    v
                }
                None => b"was-a-tombstone".to_vec(),
            });
        }
        "alter-timestamp" => {
            let (k, t) = (entries[i].0.clone(), entries[i].1);
            let up_ok = i == 0 || entries[i - 1].0 != k || entries[i - 1].1 > t + 1;
            let down_ok = t > 0 && (i + 1 >= entries.len() || entries[i + 1].0 != k || entries[i + 1].1 + 1 < t);
            if up_ok {
                entries[i].1 = t + 1;
            } else if down_ok {
                entries[i].1 = t - 1;
            } else {
                return None;
            }
        }
        "add-entry" => {
            let j = first_of_key(entries, i);
            let e = (entries[i].0.clone(), fresh_ts, Some(b"added".to_vec()));
            entries.insert(j, e);
        }
        _ => return None,
    }
    Some(())
}

/// the final block of an SST carries the setsum of its entries (unchecksummed: D-10); put `want`
/// where the rebuilt file says `have`
fn patch_metadata_setsum(path: &str, have: &[u8; 32], want: &[u8; 32]) -> bool {
    let Ok(mut bytes) = std::fs::read(path) else { return false };
    let hits: Vec<usize> = (0..bytes.len().saturating_sub(31)).filter(|&i| &bytes[i..i + 32] == have).collect();
    if hits.len() != 1 {
        return false;
    }
    bytes[hits[0]..hits[0] + 32].copy_from_slice(want);
    std::fs::write(path, bytes).is_ok()
}

/// The systematic stream on file contents: for every kind of file the fragments still to be
/// verified name (added by an ingest, written by a compaction, read by one, written by a garbage
/// collection, read by one) one file is picked in a copy of the store directory, ONE entry of it is
/// dropped / duplicated under another timestamp / given another value / another timestamp / an
/// entry is added, the file keeps its name (so every recorded digest still matches), its metadata
/// setsum is the recomputed one or the one the name promises, and the real LsmVerifier runs on the
/// copy: it must end with a corruption error; the model gets the same directory and contents.
/// The untampered copy goes first (control: must end ok; also one honest whole-pass case).
fn tamper_matrix(rec: &mut Recorder, rng: &mut Rng, sim: &Sim, root: &str, tag: &str, taint: &Option<String>, rot: &mut std::collections::BTreeMap<&'static str, u64>) -> bool {
    let dir = full_dir(root);
    if dir.unreadable || dir.to_process().is_empty() {
        return false;
    }
    let mut cands: std::collections::BTreeMap<&'static str, Vec<String>> = Default::default();
    for (_, es) in dir.to_process() {
        for e in es.iter().skip(1) {
            let k = edit_kind(e);
            for a in &e.added {
                let role = match k {
                    "ingest" => "ingest-add",
                    "gc" => "gc-output",
                    _ => "compaction-output",
                };
                cands.entry(role).or_default().push(a.clone());
            }
            for r in &e.rmed {
                cands.entry(if k == "gc" { "gc-input" } else { "compaction-input" }).or_default().push(r.clone());
            }
        }
    }
    if cands.is_empty() {
        rec.count("sst_tamper.no_unverified_transaction");
        return false;
    }
    // control
    let control_dir = format!("{}.control", root);
    let _ = std::fs::remove_dir_all(&control_dir);
    if copy_dir(Path::new(root), Path::new(&control_dir)).is_err() {
        return false;
    }
    let control = pass_case(rec, &format!("{} control", tag), &sim.cfg, &control_dir, taint, None, "pass.control", None);
    let _ = std::fs::remove_dir_all(&control_dir);
    if control != "ok" {
        rec.count("sst_tamper.inconclusive_control_not_ok");
        return false;
    }
    for role in ROLES {
        let Some(list) = cands.get(role) else { continue };
        // files added by an ingest are everywhere: every third time is plenty
        if *role == "ingest-add" {
            let r = rot.entry("ingest-add-turn").or_insert(0);
            *r += 1;
            if *r % 3 != 1 {
                continue;
            }
        }
        let victim = list[rng.below(list.len() as u64) as usize].clone();
        let r = rot.entry(role).or_insert(0);
        let combo = *r % 10;
        *r += 1;
        let kind = TAMPER_KINDS[(combo % 5) as usize];
        let keep_meta = combo >= 5;
        let copy = format!("{}.tamper", root);
        let _ = std::fs::remove_dir_all(&copy);
        if copy_dir(Path::new(root), Path::new(&copy)).is_err() {
            continue;
        }
        let name = format!("{}.sst", victim);
        let vpath = [format!("{}/trash/{}", copy, name), format!("{}/sst/{}", copy, name)].into_iter().find(|p| Path::new(p).exists());
        let Some(vpath) = vpath else {
            rec.count("sst_tamper.victim_not_present");
            let _ = std::fs::remove_dir_all(&copy);
            continue;
        };
        let Ok(mut entries) = read_sst(&vpath) else {
            let _ = std::fs::remove_dir_all(&copy);
            continue;
        };
        if entries.is_empty() {
            let _ = std::fs::remove_dir_all(&copy);
            continue;
        }
        let fresh_ts = (1u64 << 40) + rec.n;
        if tamper_entries(rng, &mut entries, kind, fresh_ts).is_none() {
            rec.count(&format!("sst_tamper.not_applicable.{}", kind));
            let _ = std::fs::remove_dir_all(&copy);
            continue;
        }
        let tmp = format!("{}.rebuild", vpath);
        if build_sst(&tmp, &entries).is_err() {
            rec.count("sst_tamper.rebuild_failed");
            let _ = std::fs::remove_dir_all(&copy);
            continue;
        }
        let mut meta = "recomputed";
        if keep_meta {
            let have = entry_setsum(&entries).digest();
            if let Some(want) = setsum::Setsum::from_hexdigest(&victim) {
                if patch_metadata_setsum(&tmp, &have, &want.digest()) {
                    meta = "kept";
                } else {
                    rec.count("sst_tamper.metadata_patch_failed");
                }
            }
        }
        let _ = std::fs::remove_file(&vpath);
        let _ = std::fs::rename(&tmp, &vpath);
        rec.count(&format!("sst_tamper.{}.{}.meta-{}", role, kind, meta));
        pass_case(rec, &format!("{} sst-tamper {} {} meta-{} {}", tag, role, kind, meta, &victim[..12]), &sim.cfg, &copy, taint, Some(&format!("{} one entry of {} ({})", kind, &victim[..12], role)), "pass.tampered", Some(&victim));
        let _ = std::fs::remove_dir_all(&copy);
    }
    true
}

/// a digest text changed so that `Setsum::from_hexdigest` still reads the same value: the first
/// digit of a byte `0x` written `+x` (`u8::from_str_radix` takes a sign), or a digit `a`–`f` in upper
/// case.  The record says what it said: both verifiers must accept it as they accept the original.
fn same_value_text(rng: &mut Rng, s: &str) -> Option<String> {
    let b = s.as_bytes();
    let mut spots: Vec<(usize, u8)> = vec![];
    for i in 0..b.len() {
        if i % 2 == 0 && b[i] == b'0' {
            spots.push((i, b'+'));
        }
        if (b'a'..=b'f').contains(&b[i]) {
            spots.push((i, b[i].to_ascii_uppercase()));
        }
    }
    if spots.is_empty() {
        return None;
    }
    let (i, c) = spots[rng.below(spots.len() as u64) as usize];
    let mut v = b.to_vec();
    v[i] = c;
    String::from_utf8(v).ok()
}

/// The C04 oracle on the state the store is in (after a manifest transaction, after a recovery):
/// manifest O == sum of the setsums of the listed files == sum recomputed from the stored entries,
/// the in-memory manifest agrees, every fragment chains from its predecessor, balances, and is
/// accepted by the real ManifestVerifier and by `Blue.Books.verify` (`ledger verify`); then the
/// single-digest tamper stream on each fragment.  false = the state could not be dumped.
fn books_check(rec: &mut Recorder, rng: &mut Rng, sim: &Sim, root: &str, tag: &str, taint: &Option<String>, mverifier: &lsmtk::ManifestVerifier, seen_fragments: &mut std::collections::BTreeSet<String>, tampers: usize) -> bool {
    let d = match sim.dump() {
        Ok(d) => d,
        Err(e) => {
            rec.case(&format!("# {}", tag), "#", Verdict::Fail { class: "dump-error".into(), detail: e }, None);
            return false;
        }
    };
    let frags = list_fragments(&root);
    let mut bad: Vec<String> = vec![];
    // --- current state: manifest O == sum of listed files == sum recomputed from contents
    let newest = read_fragment(frags.last().unwrap());
    let mut listed: Vec<String> = vec![];
    let mut recorded_o = String::new();
    match &newest {
        Ok(edits) => {
            let mut strs: std::collections::BTreeSet<String> = Default::default();
            for e in edits {
                for r in &e.rmed {
                    strs.remove(r);
                }
                for a in &e.added {
                    strs.insert(a.clone());
                }
                if let Some(o) = &e.o {
                    recorded_o = o.clone();
                }
            }
            listed = strs.into_iter().collect();
        }
        Err(e) => bad.push(format!("MANIFEST unreadable: {}", e)),
    }
    let mut file_digests: Vec<String> = vec![];
    let mut sum_meta = setsum::Setsum::default();
    let mut sum_content = setsum::Setsum::default();
    for l in &d.levels {
        for f in l {
            let s = setsum::Setsum::from_digest(f.setsum);
            sum_meta += s;
            let c = entry_setsum(&f.entries);
            sum_content += c;
            if c != s {
                bad.push(format!("file {} setsum differs from setsum of its entries", &hex(&f.setsum)[..12]));
            }
            file_digests.push(s.hexdigest());
        }
    }
    file_digests.sort();
    // the manifest object the running store holds must list exactly the version's files
    {
        let (mut live_strs, live_o) = sim.kvs().verif_tree().verif_manifest();
        live_strs.sort();
        if live_strs != file_digests {
            bad.push(format!("the store's in-memory manifest lists {} files, its version holds {}", live_strs.len(), file_digests.len()));
        }
        if live_o.as_deref() != Some(sum_meta.hexdigest().as_str()) {
            bad.push("the store's in-memory manifest O != sum of the version's files".to_string());
        }
    }
    if newest.is_ok() {
        if file_digests != listed {
            bad.push(format!("manifest lists {} files, version holds {}", listed.len(), file_digests.len()));
        }
        if sum_meta.hexdigest() != recorded_o {
            bad.push(format!("manifest O {} != sum of listed files {}", &recorded_o[..recorded_o.len().min(12)], &sum_meta.hexdigest()[..12]));
        }
        if sum_content.hexdigest() != recorded_o {
            bad.push("manifest O != setsum recomputed from all stored entries".to_string());
        }
    }
    let req = format!("ledger total {}", file_digests.join(" "));
    let v = if bad.is_empty() { Verdict::Ok } else { Verdict::Fail { class: taint.clone().unwrap_or_else(|| "books-do-not-balance".to_string()), detail: format!("{} {}", tag, bad.join("; ")) } };
    rec.count("state_checks");
    rec.case(&req, &recorded_o, tainted(v, &taint), if file_digests.len() >= 2 { Some(fnv(req.as_bytes())) } else { None });
    // --- every fragment: chain, balance, verifier verdict; model verdict
    let mut prev_last_o: Option<String> = None;
    for (fi, f) in frags.iter().enumerate() {
        let edits = match read_fragment(f) {
            Ok(e) => e,
            Err(e) => {
                rec.case(&format!("# {} fragment {}", tag, fi), "#", Verdict::Fail { class: taint.clone().unwrap_or_else(|| "fragment-unreadable".to_string()), detail: e }, None);
                continue;
            }
        };
        if edits.is_empty() {
            continue;
        }
        let mut fbad = vec![];
        if let (Some(p), Some(o)) = (&prev_last_o, &edits[0].o) {
            if p != o {
                fbad.push(format!("fragment {} does not start from the previous fragment's output", fi));
            }
        }
        prev_last_o = edits.last().and_then(|e| e.o.clone());
        let is_newest = fi + 1 == frags.len();
        // completed fragments never change again: check each once; the newest every time
        let key = format!("{}:{}", f.display(), edits.len());
        if !is_newest && seen_fragments.contains(&key) {
            continue;
        }
        seen_fragments.insert(key);
        let real = mverifier.verify(f);
        let cls = verdict_class(&real);
        if cls != "accept" {
            fbad.push(format!("ManifestVerifier rejects store-written fragment {}: {}", fi, cls));
        }
        if let Some(req) = ledger_request(&edits) {
            let v = if fbad.is_empty() { Verdict::Ok } else { Verdict::Fail { class: taint.clone().unwrap_or_else(|| "books-do-not-balance".to_string()), detail: format!("{} {}", tag, fbad.join("; ")) } };
            rec.count("fragments_verified");
            rec.add("edits_verified", edits.len() as u64 - 1);
            let kinds = edits[1..].iter().filter(|e| !e.rmed.is_empty() && e.d.as_deref() != Some(&setsum::Setsum::default().hexdigest())).count();
            rec.add("gc_edits", kinds as u64);
            rec.case(&req, &cls, tainted(v, &taint), if edits.len() >= 3 { Some(fnv(req.as_bytes())) } else { None });
            // --- tamper stream on this fragment
            if edits.len() >= 2 {
                for _ in 0..tampers {
                    let mut t = edits.clone();
                    let ei = rng.range(1, t.len() as u64 - 1) as usize;
                    let what = rng.below(5);
                    let e = &mut t[ei];
                    let kind = match what {
                        0 => {
                            e.i = e.i.as_ref().map(|s| flip_hex_digit(&mut *rng, s));
                            "I"
                        }
                        1 => {
                            e.o = e.o.as_ref().map(|s| flip_hex_digit(&mut *rng, s));
                            "O"
                        }
                        2 => {
                            e.d = e.d.as_ref().map(|s| flip_hex_digit(&mut *rng, s));
                            "D"
                        }
                        3 if !e.added.is_empty() => {
                            let k = rng.below(e.added.len() as u64) as usize;
                            e.added[k] = flip_hex_digit(&mut *rng, &e.added[k]);
                            "added"
                        }
                        _ if !e.rmed.is_empty() => {
                            let k = rng.below(e.rmed.len() as u64) as usize;
                            e.rmed[k] = flip_hex_digit(&mut *rng, &e.rmed[k]);
                            "rmed"
                        }
                        _ => {
                            e.d = e.d.as_ref().map(|s| flip_hex_digit(&mut *rng, s));
                            "D"
                        }
                    };
                    // every third tamper: the text changes, the value it parses to does not
                    let same_value = rng.chance(1, 4);
                    if same_value {
                        t = edits.clone();
                        let e = &mut t[ei];
                        let field = match what % 3 {
                            0 => &mut e.i,
                            1 => &mut e.o,
                            _ => &mut e.d,
                        };
                        match field.as_ref().and_then(|s| same_value_text(&mut *rng, s)) {
                            Some(x) => *field = Some(x),
                            None => continue,
                        }
                    }
                    let kind = if same_value { "same-value-text" } else { kind };
                    let tpath = PathBuf::from(format!("{}/tampered.manifest", root));
                    write_fragment(&tpath, &t);
                    let real = mverifier.verify(&tpath);
                    let cls = verdict_class(&real);
                    let _ = std::fs::remove_file(&tpath);
                    let req = ledger_request(&t).unwrap();
                    rec.count(&format!("tamper.{}", kind));
                    let v = if same_value {
                        if cls == "accept" { Verdict::Ok } else { Verdict::Fail { class: "same-value-digest-text-rejected".into(), detail: format!("{} edit {}: {}", tag, ei, cls) } }
                    } else if cls == "accept" {
                        Verdict::Fail { class: "tampered-digest-accepted".into(), detail: format!("{} edit {} field {}", tag, ei, kind) }
                    } else {
                        Verdict::Ok
                    };
                    rec.case(&req, &cls, v, Some(fnv(req.as_bytes())));
                }
            }
        }
    }
    true
}

pub fn run_history(rec: &mut Recorder, seed: u64, hidx: u64, len: usize, nkeys: usize, tampers: usize, gc_focus: bool, rot: &mut std::collections::BTreeMap<&'static str, u64>) {
    let mut rng = Rng::for_case(seed, if gc_focus { 1040 } else { 104 }, hidx);
    let mut cfg = Cfg::gen(&mut rng);
    let mode = if gc_focus { 1 } else { hidx % 4 % 3 };
    let mut ops = gen_history(&mut rng, if mode == 1 { len * if gc_focus { 4 } else { 2 } } else { len }, nkeys, mode);
    if gc_focus {
        // garbage collections at the last level, manifest fragments rolling over after nearly every
        // transaction, and no verifier pass consuming them: GC edits pile up unverified
        // (every third history lets a fragment grow to a few transactions: records that are
        // followed by another one in their fragment, for the pair tampers)
        cfg.mani_ratio = if hidx % 3 == 2 { 3 } else { 1 };
        ops.retain(|o| !matches!(o, Op::Verify));
    }
    let root = scratch_dir(&format!("c04.{}", hidx));
    rec.aux(&format!("history {} cfg {} ops {}", hidx, cfg.render(), ops.iter().map(|o| o.render()).collect::<Vec<_>>().join(" ")));
    let mut sim = match Sim::open(&root, &cfg) {
        Ok(s) => s,
        Err(e) => {
            rec.case(&format!("# history {} open", hidx), "#", Verdict::Fail { class: "open-error".into(), detail: e }, None);
            return;
        }
    };
    let mverifier = lsmtk::ManifestVerifier::open().unwrap();
    let mut taint: Option<String> = None;
    let mut seen_fragments: std::collections::BTreeSet<String> = Default::default();
    let mut tamper_points = 0;
    CONTENTS.with(|c| c.borrow_mut().clear());
    for (step, op) in ops.iter().enumerate() {
        let tag = format!("h{}s{}:{}", hidx, step, op.render());
        if let Op::Reopen = op {
            if taint.is_none() {
                if let Ok(d) = sim.dump() {
                    if crate::c01::d9_trigger(&d) {
                        taint = Some("reopen-with-key-and-timestamp-overlapping-files".to_string());
                        rec.count("histories_tainted_by_D9_trigger");
                    }
                }
            }
        }
        // a pass of the real verifier inside the history: the directory as the pass finds it
        let pre_pass = if let Op::Verify = op { Some(full_dir(&root)) } else { None };
        let pre_req = pre_pass.as_ref().filter(|d| !d.unreadable).map(|d| d.request(&root, cfg.gc_versions));
        let res = match guarded(std::panic::AssertUnwindSafe(|| sim.apply(op))) {
            Ok(r) => r,
            Err(p) => Err(format!("panic:{}", p)),
        };
        if let (Some(before), Some(req)) = (&pre_pass, &pre_req) {
            if res.is_ok() {
                let after = full_dir(&root);
                let (edits, _) = count_pass(rec, before, "pass.history");
                let obs = observed_pass_full(before, &after, &status_of_sim(&sim));
                rec.count("pass.history");
                rec.case(req, &obs, tainted(Verdict::Ok, &taint), if edits >= 1 { Some(fnv(req.as_bytes())) } else { None });
            }
        }
        if let Err(e) = res {
            rec.case(&format!("# {}", tag), "#", Verdict::Fail { class: taint.clone().unwrap_or_else(|| "fault-free-op-error".to_string()), detail: format!("{} -> {}", tag, e) }, None);
            break;
        }
        sim.chosen.clear();
        if let Op::Verify = op {
            // the pass itself already ran inside apply(); nothing more here
        }
        if gc_focus && matches!(op, Op::Flush | Op::Compact(_)) && taint.is_none() && rng.chance(1, 3) && tamper_points < 60 {
            tamper_points += 1;
            if tamper_matrix(rec, &mut rng, &sim, &root, &tag, &taint, rot) {
                pair_matrix(rec, &mut rng, &sim, &root, &tag, &taint, rot);
            }
            // keep the pile of unverified fragments (and with it every dumped directory) bounded:
            // a real pass on the store's own directory consumes them (and is one more honest case)
            let d = full_dir(&root);
            let pending: usize = d.to_process().iter().map(|f| f.1.len().saturating_sub(1)).sum();
            if pending > 40 && !d.unreadable {
                let req = d.request(&root, cfg.gc_versions);
                let _ = count_pass(rec, &d, "pass.history");
                sim.verify_pass();
                let after = full_dir(&root);
                let st = status_of_sim(&sim);
                let obs = observed_pass_full(&d, &after, &st);
                rec.count("pass.history");
                let v = if st == "ok" { Verdict::Ok } else { Verdict::Fail { class: taint.clone().unwrap_or_else(|| sim.verifier_reject_class()), detail: format!("{} consuming pass ends {}", tag, st) } };
                rec.case(&req, &obs, tainted(v, &taint), Some(fnv(req.as_bytes())));
            }
        }
        if let Op::Verify = op {
            rec.count(if sim.last_verify == "ok" { "verifier.ok" } else if sim.last_verify.starts_with("backoff") { "verifier.backoff" } else { "verifier.error" });
            if sim.last_verify.starts_with("error") {
                rec.case(&format!("# {}", tag), "#", Verdict::Fail { class: taint.clone().unwrap_or_else(|| sim.verifier_reject_class()), detail: format!("{} {}", tag, sim.last_verify) }, None);
            }
            // the store is quiescent when the pass runs (no reader snapshot, no compaction in
            // flight), so nothing the verifier waits for can still arrive
            if sim.last_verify.starts_with("backoff") {
                rec.case(&format!("# {}", tag), "#", Verdict::Fail { class: taint.clone().unwrap_or_else(|| "verifier-backoff-on-quiescent-store".to_string()), detail: format!("{} {}", tag, sim.last_verify) }, None);
            }
        }
        // only steps that may have written a manifest transaction
        match op {
            Op::Flush | Op::Compact(_) | Op::Reopen | Op::Verify => {}
            _ => {
                if rng.chance(2, 3) {
                    continue;
                }
            }
        }
        if !books_check(rec, &mut rng, &sim, &root, &tag, &taint, &mverifier, &mut seen_fragments, tampers) {
            break;
        }
        let _ = strip_pos;
    }
    rec.add("flushes", sim.flushes);
    rec.add("compactions", sim.compactions);
    rec.add("reopens", sim.reopens);
    sim.close();
}

// ---------------------------------------------------------------------------------------------
// compensating pairs: TWO recorded digests of one transaction altered so that they cancel

const PAIR_ALTERATIONS: &[&str] = &["D+x,O-x", "D-x,O+x", "D=0,O=I", "O+x,nextI+x", "D-x,O+x,nextI+x,nextO+x"];

/// the amount a pair is shifted by: 1 in one column, or the setsum of an entry no store holds
fn pair_shift(rng: &mut Rng, salt: u64) -> setsum::Setsum {
    if rng.chance(1, 2) {
        let mut d = [0u8; 32];
        d[4 * rng.below(8) as usize] = 1;
        setsum::Setsum::from_digest(d)
    } else {
        let mut x = sst::Setsum::default();
        x.put(b"\xfepair", (1u64 << 41) + salt, b"never stored");
        x.into_inner()
    }
}

fn dg(s: &Option<String>) -> Option<setsum::Setsum> {
    s.as_ref().and_then(|s| setsum::Setsum::from_hexdigest(s))
}

/// alter record `k` (not the first) of a fragment; None = the alteration does not apply there
/// (a digest does not parse, there is no next record, nothing would change)
fn alter_pair(es: &mut [EditRec], k: usize, what: &str, x: setsum::Setsum) -> Option<()> {
    let (i, o, d) = (dg(&es[k].i)?, dg(&es[k].o)?, dg(&es[k].d)?);
    let zero = setsum::Setsum::default();
    match what {
        "D+x,O-x" => {
            es[k].d = Some((d + x).hexdigest());
            es[k].o = Some((o - x).hexdigest());
        }
        "D-x,O+x" => {
            es[k].d = Some((d - x).hexdigest());
            es[k].o = Some((o + x).hexdigest());
        }
        "D=0,O=I" => {
            if d == zero {
                return None;
            }
            es[k].d = Some(zero.hexdigest());
            es[k].o = Some(i.hexdigest());
        }
        "O+x,nextI+x" => {
            let ni = dg(&es.get(k + 1)?.i)?;
            es[k].o = Some((o + x).hexdigest());
            es[k + 1].i = Some((ni + x).hexdigest());
        }
        "D-x,O+x,nextI+x,nextO+x" => {
            let (ni, no) = (dg(&es.get(k + 1)?.i)?, dg(&es.get(k + 1)?.o)?);
            es[k].d = Some((d - x).hexdigest());
            es[k].o = Some((o + x).hexdigest());
            es[k + 1].i = Some((ni + x).hexdigest());
            es[k + 1].o = Some((no + x).hexdigest());
        }
        _ => return None,
    }
    Some(())
}

fn record_position(k: usize, len: usize) -> &'static str {
    if len == 2 {
        "only"
    } else if k == 1 {
        "first"
    } else if k + 1 == len {
        "last"
    } else {
        "middle"
    }
}

/// The systematic stream on pairs of recorded digests, on the store's own directories: for every
/// kind of record (ingest, compaction, garbage collection) that a fragment still to be verified
/// holds, one record (never a fragment's first: `partial`) is rewritten in a copy of the directory
/// with two (or, with the next record, three / four) of its digests altered by amounts that
/// cancel — the record still balances, the names (and so the accumulator) are untouched — and the
/// real LsmVerifier runs on the copy: it must end with a corruption error (D = Σ removed − Σ added
/// is a check of its own); the model gets the same directory.
fn pair_matrix(rec: &mut Recorder, rng: &mut Rng, sim: &Sim, root: &str, tag: &str, taint: &Option<String>, rot: &mut std::collections::BTreeMap<&'static str, u64>) {
    let dir = full_dir(root);
    if dir.unreadable {
        return;
    }
    let mut cands: std::collections::BTreeMap<&'static str, Vec<(u64, usize)>> = Default::default();
    for (n, es) in dir.to_process() {
        for (k, e) in es.iter().enumerate().skip(1) {
            cands.entry(edit_kind(e)).or_default().push((*n, k));
        }
    }
    for kind in ["ingest", "compaction", "gc"] {
        let Some(list) = cands.get(kind) else { continue };
        if kind == "ingest" {
            let r = rot.entry("pair-ingest-turn").or_insert(0);
            *r += 1;
            if *r % 2 != 1 {
                continue;
            }
        }
        let key: &'static str = match kind {
            "ingest" => "pair-ingest",
            "compaction" => "pair-compaction",
            _ => "pair-gc",
        };
        let r = rot.entry(key).or_insert(0);
        let what = PAIR_ALTERATIONS[(*r % PAIR_ALTERATIONS.len() as u64) as usize];
        *r += 1;
        // a record that is followed by another one in its fragment when there is one (there the
        // recorded O is compared with nothing), every fourth time any record
        let inner: Vec<(u64, usize)> = list.iter().filter(|(n, k)| dir.frags.iter().any(|f| f.0 == *n && k + 1 < f.1.len())).cloned().collect();
        let pool = if !inner.is_empty() && *r % 4 != 0 { &inner } else { list };
        let (n, k) = pool[rng.below(pool.len() as u64) as usize];
        let mut es = dir.frags.iter().find(|f| f.0 == n).unwrap().1.clone();
        let x = pair_shift(rng, rec.n);
        let pos = record_position(k, es.len());
        if alter_pair(&mut es, k, what, x).is_none() {
            rec.count(&format!("pair_tamper.not_applicable.{}", what));
            continue;
        }
        let copy = format!("{}.pair", root);
        let _ = std::fs::remove_dir_all(&copy);
        if copy_dir(Path::new(root), Path::new(&copy)).is_err() {
            continue;
        }
        write_fragment(Path::new(&format!("{}/mani/MANIFEST.{}", copy, n)), &es);
        rec.count(&format!("pair_tamper.{}.{}.{}", kind, pos, what));
        pass_case_class(rec, &format!("{} digest-pair {} of record {} ({}, {}) of MANIFEST.{}", tag, what, k, kind, pos, n), &sim.cfg, &copy, taint, Some(&format!("{} of record {} of MANIFEST.{}", what, k, n)), "pass.pair", None, "tampered-digest-pair-accepted");
        let _ = std::fs::remove_dir_all(&copy);
    }
}

/// one transaction of a hand-written directory: files are given by their entries
enum Tx {
    Ingest(Vec<Ent>),
    Replace { rm: Vec<Vec<Ent>>, add: Vec<Vec<Ent>> },
}

/// A store directory written by hand: fragment `i` of `frags` is MANIFEST.<i+1> (the state at its
/// creation, then one record per transaction, every digest what the files say), followed by two
/// fragments that hold the final state only, so that the verifier processes every fragment given.
/// Files the final state lists are in sst/, the others in trash/.
fn build_dir(root: &str, frags: &[Vec<Tx>]) -> Result<(), String> {
    let _ = std::fs::remove_dir_all(root);
    for sub in ["mani", "sst", "trash"] {
        std::fs::create_dir_all(format!("{}/{}", root, sub)).map_err(|e| e.to_string())?;
    }
    let z = zero_digest();
    let rollup = |names: &[String], total: &setsum::Setsum| {
        let mut names = names.to_vec();
        names.sort();
        EditRec { i: Some(total.hexdigest()), o: Some(total.hexdigest()), d: Some(z.clone()), l: None, added: names, rmed: vec![] }
    };
    let mut live: Vec<String> = vec![];
    let mut acc = setsum::Setsum::default();
    let mut contents: std::collections::BTreeMap<String, Vec<Ent>> = Default::default();
    for (fi, txs) in frags.iter().enumerate() {
        let mut edits = vec![rollup(&live, &acc)];
        for tx in txs {
            match tx {
                Tx::Ingest(f) => {
                    let s = entry_setsum(f);
                    if live.contains(&s.hexdigest()) {
                        return Err("ingest of a listed file".into());
                    }
                    contents.insert(s.hexdigest(), f.clone());
                    edits.push(EditRec { i: Some(acc.hexdigest()), o: Some((acc + s).hexdigest()), d: Some((setsum::Setsum::default() - s).hexdigest()), l: None, added: vec![s.hexdigest()], rmed: vec![] });
                    acc += s;
                    live.push(s.hexdigest());
                }
                Tx::Replace { rm, add } => {
                    let mut d = setsum::Setsum::default();
                    let mut rms = vec![];
                    let mut adds = vec![];
                    for f in rm {
                        let s = entry_setsum(f);
                        if !live.contains(&s.hexdigest()) {
                            return Err("removal of a file that is not listed".into());
                        }
                        d += s;
                        rms.push(s.hexdigest());
                    }
                    for f in add {
                        let s = entry_setsum(f);
                        if live.contains(&s.hexdigest()) || contents.contains_key(&s.hexdigest()) {
                            return Err("output under the name of an existing file".into());
                        }
                        contents.insert(s.hexdigest(), f.clone());
                        d -= s;
                        adds.push(s.hexdigest());
                    }
                    rms.sort();
                    adds.sort();
                    edits.push(EditRec { i: Some(acc.hexdigest()), o: Some((acc - d).hexdigest()), d: Some(d.hexdigest()), l: None, added: adds.clone(), rmed: rms.clone() });
                    acc = acc - d;
                    live.retain(|x| !rms.contains(x));
                    live.extend(adds);
                }
            }
        }
        write_fragment(Path::new(&format!("{}/mani/MANIFEST.{}", root, fi + 1)), &edits);
    }
    write_fragment(Path::new(&format!("{}/mani/MANIFEST.{}", root, frags.len() + 1)), &[rollup(&live, &acc)]);
    write_fragment(Path::new(&format!("{}/mani/MANIFEST", root)), &[rollup(&live, &acc)]);
    for (name, f) in &contents {
        let sub = if live.contains(name) { "sst" } else { "trash" };
        build_sst(&format!("{}/{}/{}.sst", root, sub, name), f)?;
    }
    Ok(())
}

const PAIR_TARGETS: &[&str] = &["ingest", "compaction", "gc"];
const PAIR_POSITIONS: &[&str] = &["first", "middle", "last"];

/// Directed stream on the pairs: a hand-written directory in which the record aimed at — an
/// ingest, a compaction (D = 0) or a garbage collection under the policy (D ≠ 0), as the first,
/// a middle or the last record of its fragment — is altered by one of `PAIR_ALTERATIONS` (or not
/// at all: the control, which must verify), every kind x position x alteration in turn.
fn pair_directed(rec: &mut Recorder, seed: u64, idx: u64) {
    let mut rng = Rng::for_case(seed, 1042, idx);
    let target = PAIR_TARGETS[(idx % 3) as usize];
    let position = PAIR_POSITIONS[((idx / 3) % 3) as usize];
    let alteration = ((idx / 9) % (PAIR_ALTERATIONS.len() as u64 + 1)) as usize;
    let what = if alteration < PAIR_ALTERATIONS.len() { PAIR_ALTERATIONS[alteration] } else { "control" };
    // the transaction in the middle of it all: two input files, merged
    let collect = if target == "ingest" { rng.chance(1, 2) } else { target == "gc" };
    let versions = if collect { *rng.pick(&[1u64, 1, 2]) } else { 3 };
    let nkeys = rng.range(2, 4) as usize;
    let mut ts_pool: Vec<u64> = (1..=30).collect();
    rng.shuffle(&mut ts_pool);
    let mut run: Vec<Ent> = vec![];
    let mut vc = 0u64;
    for k in 0..nkeys {
        let key = ALPHABET[k + 1].to_vec();
        // a collection has something to drop: more versions of the first key than the policy keeps
        let nv = if k == 0 { versions as usize + 1 } else { rng.range(1, 3) as usize };
        let mut tss: Vec<u64> = (0..nv).map(|_| ts_pool.pop().unwrap()).collect();
        tss.sort_by(|a, b| b.cmp(a));
        for t in tss {
            vc += 1;
            run.push((key.clone(), t, Some(format!("v{}", vc).into_bytes())));
        }
    }
    // the newest and the oldest version of the first key (kept / dropped by a collection) in one
    // file, the newest version of the second key in the other: the output is neither input
    let mut ins: Vec<Vec<Ent>> = vec![vec![], vec![]];
    let first_of_second_key = versions as usize + 1;
    for (n, e) in run.iter().enumerate() {
        let to = if n == 0 || n + 1 == first_of_second_key {
            0
        } else if n == first_of_second_key {
            1
        } else {
            rng.below(2) as usize
        };
        ins[to].push(e.clone());
    }
    let outs: Vec<Ent> = if collect {
        match real_retained(&run, versions) {
            Ok(kept) => run.iter().filter(|e| kept.iter().any(|(k, t)| *k == e.0 && *t == e.1)).cloned().collect(),
            Err(e) => {
                rec.case(&format!("# pairdir {} collector", idx), "#", Verdict::Fail { class: "collector-error".into(), detail: e }, None);
                return;
            }
        }
    } else {
        run.clone()
    };
    let filler = |n: u64| -> Vec<Ent> { vec![(ALPHABET[9 + (n % 3) as usize].to_vec(), 100 + n, Some(format!("filler{}", n).into_bytes()))] };
    let t = || Tx::Replace { rm: ins.clone(), add: if outs.is_empty() { vec![] } else { vec![outs.clone()] } };
    let a = || Tx::Ingest(ins[0].clone());
    let b = || Tx::Ingest(ins[1].clone());
    // (fragments, fragment number and record aimed at)
    let (frags, n, k): (Vec<Vec<Tx>>, u64, usize) = match (target, position) {
        ("ingest", "first") => (vec![vec![a(), b(), t(), Tx::Ingest(filler(1))]], 1, 1),
        ("ingest", "middle") => (vec![vec![a(), b(), t(), Tx::Ingest(filler(1))]], 1, 2),
        ("ingest", _) => (vec![vec![a(), b(), t(), Tx::Ingest(filler(1))]], 1, 4),
        (_, "first") => (vec![vec![a(), b()], vec![t(), Tx::Ingest(filler(1)), Tx::Ingest(filler(2))]], 2, 1),
        (_, "middle") => (vec![vec![a(), b(), t(), Tx::Ingest(filler(1))]], 1, 3),
        (_, _) => (vec![vec![a(), b(), t()]], 1, 3),
    };
    let root = scratch_dir(&format!("c04.pairdir.{}", idx));
    if let Err(e) = build_dir(&root, &frags) {
        let _ = std::fs::remove_dir_all(&root);
        rec.case(&format!("# pairdir {} build", idx), "#", Verdict::Fail { class: "harness-build-error".into(), detail: e }, None);
        return;
    }
    let path = format!("{}/mani/MANIFEST.{}", root, n);
    let mut es = read_fragment(Path::new(&path)).unwrap_or_default();
    if es.len() <= k {
        rec.case(&format!("# pairdir {} build", idx), "#", Verdict::Fail { class: "harness-build-error".into(), detail: format!("fragment {} holds {} records", n, es.len()) }, None);
        let _ = std::fs::remove_dir_all(&root);
        return;
    }
    let kind = edit_kind(&es[k]);
    let pos = record_position(k, es.len());
    let mut applied = what;
    if what != "control" {
        let x = pair_shift(&mut rng, idx);
        if alter_pair(&mut es, k, what, x).is_none() {
            // no next record / nothing discarded: the plain pair instead
            applied = "D+x,O-x";
            if alter_pair(&mut es, k, applied, x).is_none() {
                applied = "control";
            }
        }
        if applied != "control" {
            write_fragment(Path::new(&path), &es);
        }
    }
    let cfg = gcdir_cfg(versions);
    let before = full_dir(&root);
    let req = before.request(&root, versions);
    let status = real_pass(&cfg, &root);
    let after = full_dir(&root);
    let obs = observed_pass_full(&before, &after, &status);
    let _ = std::fs::remove_dir_all(&root);
    rec.count(&format!("pairdir.{}.{}.{}.{}", kind, pos, applied, status.replace(':', ".")));
    let v = if applied == "control" {
        if status == "ok" { Verdict::Ok } else { Verdict::Fail { class: "verifier-rejects-consistent-directory".into(), detail: format!("pairdir {} ({} {}): {}", idx, kind, pos, status) } }
    } else if !status.starts_with("corrupt") {
        Verdict::Fail { class: "tampered-digest-pair-accepted".into(), detail: format!("pairdir {}: {} of record {} ({}, {} of its fragment) of MANIFEST.{}: the pass ends {}", idx, applied, k, kind, pos, n, status) }
    } else {
        Verdict::Ok
    };
    rec.case(&req, &obs, v, Some(fnv(req.as_bytes())));
}

// ---------------------------------------------------------------------------------------------
// recovery of several write-ahead logs in one open

fn read_log(path: &Path) -> Result<Vec<Ent>, String> {
    let mut it = sst::log::LogIterator::new(sst::LogOptions::default(), path).map_err(|e| format!("{:?}", e))?;
    let mut out = vec![];
    while let Some(kvr) = it.next().map_err(|e| format!("{:?}", e))? {
        out.push((kvr.key.to_vec(), kvr.timestamp, kvr.value.map(|v| v.to_vec())));
    }
    Ok(out)
}

fn write_log(path: &Path, entries: &[Ent]) -> Result<(), String> {
    use sst::Builder;
    let mut log = sst::LogBuilder::new(sst::LogOptions::default(), path).map_err(|e| format!("{:?}", e))?;
    for (k, t, v) in entries {
        match v {
            Some(v) => log.put(k, *t, v),
            None => log.del(k, *t),
        }
        .map_err(|e| format!("{:?}", e))?;
    }
    log.seal().map_err(|e| format!("{:?}", e))?;
    Ok(())
}

/// the numbered logs in a store's root, ascending, with their entries
fn logs_of(root: &str) -> Vec<(u64, Vec<Ent>)> {
    let mut v: Vec<(u64, Vec<Ent>)> = vec![];
    if let Ok(rd) = std::fs::read_dir(root) {
        for e in rd.flatten() {
            let name = e.file_name().to_string_lossy().to_string();
            if let Some(n) = name.strip_prefix("log.").and_then(|x| x.parse::<u64>().ok()) {
                v.push((n, read_log(&e.path()).unwrap_or_default()));
            }
        }
    }
    v.sort_by_key(|x| x.0);
    v
}

/// what the newest manifest fragment lists and records as output (nothing and zero: no manifest)
fn manifest_state(root: &str) -> (Vec<String>, String, u64, bool) {
    let frags = list_fragments(root);
    let numbered = frags.len() as u64 - 1;
    let newest = frags.last().unwrap();
    let mut strs: std::collections::BTreeSet<String> = Default::default();
    let mut o = zero_digest();
    let exists = newest.exists();
    if let Ok(edits) = read_fragment(newest) {
        for e in &edits {
            for r in &e.rmed {
                strs.remove(r);
            }
            for a in &e.added {
                strs.insert(a.clone());
            }
            if let Some(x) = &e.o {
                o = x.clone();
            }
        }
    }
    (strs.into_iter().collect(), o, numbered, exists)
}

fn render_rec(e: &EditRec) -> String {
    format!("{},{},{},{},{}", e.i.clone().unwrap_or_else(|| "?".into()), e.o.clone().unwrap_or_else(|| "?".into()), e.d.clone().unwrap_or_else(|| "?".into()), join_or_dash(&e.rmed), join_or_dash(&e.added))
}

fn options_with(cfg: &Cfg, path: &str, stall_files: u64, stall_bytes: Option<u64>) -> lsmtk::LsmtkOptions {
    use arrrg::CommandLine;
    let mut args: Vec<String> = vec![
        "--path".into(),
        path.into(),
        "--memtable-size-bytes".into(),
        cfg.memtable_bytes.to_string(),
        "--sst-target-file-size".into(),
        cfg.target_file.to_string(),
        "--sst-minimum-file-size".into(),
        cfg.min_file.to_string(),
        "--sst-target-block-size".into(),
        cfg.target_block.to_string(),
        "--l0-write-stall-threshold-files".into(),
        stall_files.to_string(),
        "--gc-policy".into(),
        format!("versions = {}", cfg.gc_versions),
        "--mani-log-rollover-ratio".into(),
        cfg.mani_ratio.to_string(),
    ];
    if let Some(b) = stall_bytes {
        args.push("--l0-write-stall-threshold-bytes".into());
        args.push(b.to_string());
    }
    let refs: Vec<&str> = args.iter().map(|s| s.as_str()).collect();
    let (opts, free) = lsmtk::LsmtkOptions::from_arguments_relaxed("blueharness", &refs);
    assert!(free.is_empty(), "free args: {:?}", free);
    opts
}

fn apply_to(oracle: &mut std::collections::BTreeMap<Vec<u8>, Option<Vec<u8>>>, k: &[u8], v: Option<&[u8]>) {
    oracle.insert(k.to_vec(), v.map(|v| v.to_vec()));
}

/// The crash image of a store whose flush is parked in the level-0 ingest stall while a client
/// keeps writing, made with the store itself: the real `memtable_thread` on a helper thread
/// rotates the log, seals it, builds and links the SST and then waits in `apply_manifest_ingest`
/// (`complete` flushes go through first, level 0 is "full" after that many files — or always,
/// `complete == None`: a byte threshold of zero); the writes that follow land in the fresh log; the
/// directory is copied as it is (a process death there; every completed call persists); the
/// threads are then sent home.  Every write was acknowledged before the copy.
fn stalled_flush_image(rng: &mut Rng, root: &str, image: &str, cfg: &Cfg, complete: Option<u64>, oracle: &mut std::collections::BTreeMap<Vec<u8>, Option<Vec<u8>>>, nkeys: usize) -> Result<(), String> {
    let opts = match complete {
        Some(n) => options_with(cfg, root, n, None),
        None => options_with(cfg, root, 1 << 20, Some(0)),
    };
    let kvs = std::sync::Arc::new(lsmtk::KeyValueStore::open(opts).map_err(|e| format!("open:{:?}", e).replace(char::is_whitespace, "_"))?);
    let store_id = kvs.verif_tree().verif_id();
    lsmtk::verif::forget(store_id);
    let flusher = std::sync::Arc::clone(&kvs);
    let handle = std::thread::spawn(move || {
        let _ = guarded(std::panic::AssertUnwindSafe(|| flusher.memtable_thread()));
    });
    let wait_for = |cond: &dyn Fn() -> bool| -> bool {
        let t0 = std::time::Instant::now();
        while t0.elapsed() < std::time::Duration::from_secs(20) {
            if cond() {
                return true;
            }
            std::thread::sleep(std::time::Duration::from_micros(300));
        }
        false
    };
    let mut counter = 0u64;
    let mut write = |rng: &mut Rng, oracle: &mut std::collections::BTreeMap<Vec<u8>, Option<Vec<u8>>>| -> Result<(), String> {
        let k = gen_key(rng, nkeys);
        counter += 1;
        if rng.chance(1, 4) {
            kvs.del(&k).map_err(|e| format!("del:{:?}", e).replace(char::is_whitespace, "_"))?;
            apply_to(oracle, &k, None);
        } else {
            let v = format!("w{}", counter).into_bytes();
            kvs.put(&k, &v).map_err(|e| format!("put:{:?}", e).replace(char::is_whitespace, "_"))?;
            apply_to(oracle, &k, Some(&v));
        }
        Ok(())
    };
    let result = (|| -> Result<(), String> {
        for _ in 0..complete.unwrap_or(0) {
            for _ in 0..rng.range(1, 3) {
                write(rng, oracle)?;
            }
            let mem_seq = kvs.verif_state().1;
            kvs.verif_request_flush();
            // done when the flush has cleared the immutable memtable it made of that memtable
            if !wait_for(&|| {
                let (_, _, trig, imm) = kvs.verif_state();
                trig >= mem_seq && !imm && kvs.verif_state().1 > mem_seq
            }) {
                return Err("a flush that should go through did not".into());
            }
        }
        for _ in 0..rng.range(1, 3) {
            write(rng, oracle)?;
        }
        kvs.verif_request_flush();
        if !wait_for(&|| kvs.verif_parked().0.iter().any(|p| p.condvar == "stall")) {
            return Err("the flush did not reach the ingest stall".into());
        }
        for _ in 0..rng.range(1, 3) {
            write(rng, oracle)?;
        }
        let _ = std::fs::remove_dir_all(image);
        copy_dir(Path::new(root), Path::new(image)).map_err(|e| format!("copy: {}", e))
    })();
    kvs.verif_shutdown();
    let _ = handle.join();
    lsmtk::verif::forget(store_id);
    drop(kvs);
    result
}

/// Directed family: a store directory with SEVERAL non-empty write-ahead logs that the manifest
/// does not know yet, recovered in one open.  Hand-written (`LogBuilder` files numbered and
/// stamped above everything the store wrote; on an empty directory or after a short history whose
/// own log is still there) or left by the store itself (`stalled_flush_image`).  The request is
/// `ledger recover`: the records `KeyValueStore::recover` owes (one ingest per log in ascending
/// order, each starting from the output of the one before); the oracle reads the records the open
/// wrote (chain, balance, the file each adds is the log's entries), then the whole C04 oracle on
/// the recovered store (`books_check`), every acknowledged write, a verifier pass on a copy, and
/// once more after another reopen.
pub const SEVERAL_LOGS_VARIANTS: &[&str] = &["hand-fresh", "hand-after-history", "stalled-flush", "stalled-second-flush", "stalled-flush-after-history", "hand-three-logs"];

/// the directory of `two_logs` (also reopened by C02 as a crash image): where it is, and every
/// write acknowledged before the "crash"; Err = (oracle class, detail)
pub fn several_logs_image(rng: &mut Rng, variant: &str, cfg: &Cfg, nkeys: usize, root: &str) -> Result<(String, std::collections::BTreeMap<Vec<u8>, Option<Vec<u8>>>), (String, String)> {
    let image = format!("{}.image", root);
    let mut oracle: std::collections::BTreeMap<Vec<u8>, Option<Vec<u8>>> = Default::default();
    // --- a short history of the store itself first
    let with_history = variant == "hand-after-history" || variant == "stalled-flush-after-history";
    let mut seq = 0u64;
    if with_history {
        let mut ops = gen_history(rng, 12, nkeys, 0);
        ops.retain(|o| !matches!(o, Op::Verify));
        ops.push(Op::Put(gen_key(rng, nkeys), b"last-before-close".to_vec()));
        let r = guarded(std::panic::AssertUnwindSafe(|| -> Result<(std::collections::BTreeMap<Vec<u8>, Option<Vec<u8>>>, u64), String> {
            let mut sim = Sim::open(root, cfg)?;
            for op in &ops {
                sim.apply(op)?;
            }
            let seq = sim.kvs().verif_state().0;
            sim.kvs = None;
            Ok((sim.oracle.clone(), seq))
        }));
        match r {
            Ok(Ok((o, s))) => {
                oracle = o;
                seq = s;
            }
            Ok(Err(e)) => return Err(("fault-free-op-error".into(), e)),
            Err(p) => return Err(("fault-free-op-error".into(), format!("panic:{}", p))),
        }
    }
    // --- the logs
    if variant.starts_with("hand") {
        let _ = std::fs::create_dir_all(root);
        let nlogs = match variant {
            "hand-three-logs" => 3,
            "hand-after-history" => rng.range(1, 2),
            _ => 2,
        };
        let mut ts = seq + 1;
        let mut vc = 0;
        for _ in 0..nlogs {
            let number = ts;
            let mut entries: Vec<Ent> = vec![];
            for _ in 0..rng.range(1, 4) {
                ts += 1;
                vc += 1;
                let k = gen_key(rng, nkeys);
                let v = if rng.chance(1, 4) { None } else { Some(format!("h{}", vc).into_bytes()) };
                apply_to(&mut oracle, &k, v.as_deref());
                entries.push((k, ts, v));
            }
            ts += 1;
            if let Err(e) = write_log(Path::new(&format!("{}/log.{}", root, number)), &entries) {
                return Err(("harness-build-error".into(), e));
            }
        }
        Ok((root.to_string(), oracle))
    } else {
        let complete = match variant {
            "stalled-second-flush" => Some(1),
            _ => None,
        };
        if let Err(e) = stalled_flush_image(rng, root, &image, cfg, complete, &mut oracle, nkeys) {
            let _ = std::fs::remove_dir_all(root);
            let _ = std::fs::remove_dir_all(&image);
            return Err(("scenario-not-reached".into(), e));
        }
        let _ = std::fs::remove_dir_all(root);
        Ok((image, oracle))
    }
}

/// configuration of the `several_logs_image` family
pub fn several_logs_cfg(rng: &mut Rng) -> (Cfg, usize) {
    let mut cfg = Cfg::gen(rng);
    cfg.memtable_bytes = 1 << 20;
    cfg.mani_ratio = *rng.pick(&[2, 10, 10]);
    let nkeys = *rng.pick(&[3usize, 5, 8]);
    (cfg, nkeys)
}

fn two_logs(rec: &mut Recorder, seed: u64, idx: u64) {
    let mut rng = Rng::for_case(seed, 1043, idx);
    let variant = SEVERAL_LOGS_VARIANTS[(idx % 6) as usize];
    let (cfg, nkeys) = several_logs_cfg(&mut rng);
    let root = scratch_dir(&format!("c04.twologs.{}", idx));
    let tag = format!("twologs{}:{}", idx, variant);
    let (dir, oracle) = match several_logs_image(&mut rng, variant, &cfg, nkeys, &root) {
        Ok(x) => x,
        Err((class, detail)) => {
            let _ = std::fs::remove_dir_all(&root);
            let _ = std::fs::remove_dir_all(format!("{}.image", root));
            rec.case(&format!("# {}", tag), "#", Verdict::Fail { class, detail: format!("{} {}", tag, detail) }, None);
            return;
        }
    };
    // --- what the open owes
    let logs: Vec<(u64, Vec<Ent>)> = logs_of(&dir).into_iter().filter(|l| !l.1.is_empty()).collect();
    rec.count(&format!("twologs.{}.logs{}", variant, logs.len()));
    let (listed, o_before, numbered_before, had_manifest) = manifest_state(&dir);
    let mut sorted_logs: Vec<(u64, String)> = vec![];
    for (n, es) in &logs {
        let mut es = es.clone();
        es.sort_by(|a, b| a.0.cmp(&b.0).then(b.1.cmp(&a.1)));
        sorted_logs.push((*n, entry_setsum(&es).hexdigest()));
    }
    let req = format!("ledger recover {} {} {}", o_before, join_or_dash(&listed), if sorted_logs.is_empty() { "-".to_string() } else { sorted_logs.iter().map(|l| l.1.clone()).collect::<Vec<_>>().join(" ") });
    let mut open_cfg = cfg.clone();
    open_cfg.mani_ratio = 10;
    let opened = guarded(std::panic::AssertUnwindSafe(|| Sim::open(&dir, &open_cfg)));
    // --- the records the open wrote: every record but the first of every fragment that is new
    let first_new = numbered_before + if had_manifest { 1 } else { 0 };
    let mut written: Vec<EditRec> = vec![];
    let frags = list_fragments(&dir);
    for (fi, f) in frags.iter().enumerate() {
        let is_live = fi + 1 == frags.len();
        let number = mani::extract_backup(f).unwrap_or(u64::MAX);
        if is_live || number > first_new {
            if let Ok(es) = read_fragment(f) {
                written.extend(es.into_iter().skip(1));
            }
        }
    }
    let mut bad: Vec<String> = vec![];
    let mut prev = setsum::Setsum::from_hexdigest(&o_before).unwrap_or_default();
    let owed: Vec<&(u64, String)> = sorted_logs.iter().filter(|l| !listed.contains(&l.1)).collect();
    if written.len() != owed.len() {
        bad.push(format!("{} logs to recover, {} transactions written", owed.len(), written.len()));
    }
    for (n, (e, l)) in written.iter().zip(owed.iter()).enumerate() {
        match (dg(&e.i), dg(&e.o), dg(&e.d)) {
            (Some(i), Some(o), Some(d)) => {
                if i != prev {
                    bad.push(format!("recovery transaction {} (log.{}) has I={}… although the output recorded before it is {}…", n, l.0, &i.hexdigest()[..12], &prev.hexdigest()[..12]));
                }
                if i != o + d {
                    bad.push(format!("recovery transaction {} (log.{}) does not balance", n, l.0));
                }
                if e.added != vec![l.1.clone()] || !e.rmed.is_empty() {
                    bad.push(format!("recovery transaction {} does not add exactly the entries of log.{}", n, l.0));
                }
                let s = setsum::Setsum::from_hexdigest(&l.1).unwrap_or_default();
                if o != prev + s {
                    bad.push(format!("output of recovery transaction {} (log.{}) is not the previous output plus the file", n, l.0));
                }
                prev = o;
            }
            _ => bad.push(format!("recovery transaction {} lacks a digest", n)),
        }
    }
    let obs = if written.is_empty() { "-".to_string() } else { written.iter().map(render_rec).collect::<Vec<_>>().join(" ") };
    let mut sim = match opened {
        Ok(Ok(s)) => s,
        Ok(Err(e)) | Err(e) => {
            let what = ["setsumoftreedoesnotmatchsetsumofmanifest", "corruption", "logic_error"].iter().find(|w| e.replace('_', "").contains(&w.replace('_', ""))).map(|w| w.to_string());
            let short: String = what.unwrap_or_else(|| e.chars().filter(|c| !c.is_whitespace()).take(100).collect());
            rec.count("twologs.open_refused");
            rec.case(&req, &format!("open-error:{} {}", short, obs), Verdict::Fail { class: "recovery-of-several-logs-refused".into(), detail: format!("{}: the store does not open on {} non-empty logs ({}); the manifest it leaves: {}", tag, logs.len(), short, if bad.is_empty() { "chains".to_string() } else { bad.join("; ") }) }, Some(fnv(req.as_bytes())));
            let _ = std::fs::remove_dir_all(&dir);
            return;
        }
    };
    sim.oracle = oracle.clone();
    let v = if bad.is_empty() { Verdict::Ok } else { Verdict::Fail { class: "recovery-transactions-do-not-chain".into(), detail: format!("{} {}", tag, bad.join("; ")) } };
    rec.case(&req, &obs, v, if owed.len() >= 2 { Some(fnv(req.as_bytes())) } else { None });
    // --- the recovered store
    let mverifier = lsmtk::ManifestVerifier::open().unwrap();
    let mut seen: std::collections::BTreeSet<String> = Default::default();
    let mut taint: Option<String> = None;
    CONTENTS.with(|c| c.borrow_mut().clear());
    for round in 0..2 {
        let rtag = format!("{} open{}", tag, round);
        if taint.is_none() && sim.dump().map(|d| crate::c01::d9_trigger(&d)).unwrap_or(false) {
            taint = Some("reopen-with-key-and-timestamp-overlapping-files".to_string());
            rec.count("twologs.tainted_by_D9_trigger");
        }
        if !books_check(rec, &mut rng, &sim, &dir, &rtag, &taint, &mverifier, &mut seen, 1) {
            break;
        }
        let mut lost: Vec<String> = vec![];
        for (k, want) in &oracle {
            match guarded(std::panic::AssertUnwindSafe(|| sim.get(k))) {
                Ok(Ok(got)) if &got == want => {}
                Ok(Ok(got)) => lost.push(format!("key {} reads {:?}, acknowledged {:?}", hex(k), got.as_ref().map(|v| hex(v)), want.as_ref().map(|v| hex(v)))),
                Ok(Err(e)) | Err(e) => lost.push(format!("key {}: {}", hex(k), e)),
            }
        }
        rec.count("twologs.read_back");
        let v = if lost.is_empty() { Verdict::Ok } else { Verdict::Fail { class: taint.clone().unwrap_or_else(|| "acknowledged-write-lost-in-recovery".to_string()), detail: format!("{} {}", rtag, lost.join("; ")) } };
        rec.case(&format!("# {} read-back", rtag), "#", tainted(v, &taint), None);
        if round == 0 {
            let copy = format!("{}.verify", dir);
            let _ = std::fs::remove_dir_all(&copy);
            if copy_dir(Path::new(&dir), Path::new(&copy)).is_ok() {
                pass_case(rec, &format!("{} pass", rtag), &open_cfg, &copy, &taint, None, "pass.recovered", None);
            }
            let _ = std::fs::remove_dir_all(&copy);
            match guarded(std::panic::AssertUnwindSafe(|| sim.apply(&Op::Reopen))) {
                Ok(Ok(())) => {}
                Ok(Err(e)) | Err(e) => {
                    rec.case(&format!("# {} reopen", rtag), "#", Verdict::Fail { class: taint.clone().unwrap_or_else(|| "fault-free-op-error".to_string()), detail: format!("{} reopen after recovery -> {}", rtag, e) }, None);
                    break;
                }
            }
        }
    }
    sim.close();
}

pub fn run(args: &Args) {
    let mut rec = Recorder::new(&args.out, args.only_case);
    let (nh, len, tampers) = if args.thorough { (300, 100, 3) } else { (60, 50, 2) };
    let mut rot: std::collections::BTreeMap<&'static str, u64> = Default::default();
    rec.add("code_under_test_checks_gc_tail", tail_checked() as u64);
    let t0 = std::time::Instant::now();
    for h in 0..nh {
        let nkeys = if h % 3 == 0 { 4 } else if h % 3 == 1 { 7 } else { 12 };
        run_history(&mut rec, args.seed, h, len, nkeys, tampers, false, &mut rot);
    }
    if std::env::var("BLUE_DEBUG").is_ok() {
        eprintln!("plain histories: {:?}", t0.elapsed());
    }
    for h in 0..(if args.thorough { 40 } else { 12 }) {
        run_history(&mut rec, args.seed, h, len, if h % 2 == 0 { 5 } else { 9 }, 0, true, &mut rot);
    }
    if std::env::var("BLUE_DEBUG").is_ok() {
        eprintln!("with gc-focus histories: {:?}", t0.elapsed());
    }
    for i in 0..(if args.thorough { 1800 } else { 360 }) {
        gc_directed(&mut rec, args.seed, i);
    }
    if std::env::var("BLUE_DEBUG").is_ok() {
        eprintln!("with gc-directed: {:?}", t0.elapsed());
    }
    for i in 0..(if args.thorough { 1080 } else { 216 }) {
        pair_directed(&mut rec, args.seed, i);
    }
    if std::env::var("BLUE_DEBUG").is_ok() {
        eprintln!("with pair-directed: {:?}", t0.elapsed());
    }
    for i in 0..(if args.thorough { 240 } else { 48 }) {
        two_logs(&mut rec, args.seed, i);
    }
    if std::env::var("BLUE_DEBUG").is_ok() {
        eprintln!("with two-logs: {:?}", t0.elapsed());
    }
    rec.finish(
        "store histories as in C01; after every manifest transaction (flush, compaction step, reopen) and a third of the writes: books of the current state (manifest O vs sum of listed SST setsums vs setsums recomputed from stored entries), every manifest fragment's chain/balance/discard through the real ManifestVerifier and through Blue.Books.verify over the canonical-setsum group, and tampered copies of fragments with one hex digit of one recorded digest (I, O, D, added, removed) changed, or its text changed to another spelling of the same value (+x, upper case); every pass of the real LsmVerifier (inside histories, on untampered copies, on copies with one entry of one file changed under the file's name: file kind x tamper kind x metadata setsum kept/recomputed, on hand-written directories with one garbage collection whose record is consistent but whose outputs are not the policy's, on copies and hand-written directories with TWO digests of one record altered so that they cancel: record kind x position x alteration) against Blue.Verifier.pass with the real checks (Blue.VerifyOne) on the dumped directory and file contents; directed directories with two or three non-empty write-ahead logs unknown to the manifest (by hand, or left by a flush of the real store parked in the ingest stall while the client writes) reopened with the real store: the records the open wrote against Blue.Books.recoverRecs, then the books oracle, read-back, a verifier pass and a second reopen; non-trivial = a state with >= 2 files, a fragment with >= 2 transactions, any tampered fragment, a pass that has at least one transaction to verify; distinct by request",
        &[],
    );
}
