//! C16 — tuple keys sort as their tuples and decode back: correspondence of both crates with the
//! Lean models (`tk1` = field-numbered `tuple_key`, `tk2` = compact `tuple_key2`) + order /
//! contiguity / round-trip oracle on the implementation alone + hostile decoder streams.
use crate::common::*;
use prototk::FieldNumber;
use std::cmp::Ordering;
use std::panic::AssertUnwindSafe;
use tuple_key::{Direction, KeyDataType, TupleKey, TupleKeyParser};
use tuple_key_derive::TypedTupleKey;

// ------------------------------------------------------------------------------------------------
// values
// ------------------------------------------------------------------------------------------------

#[derive(Clone, Debug, PartialEq, Eq)]
enum V {
    Unit,
    U(u64),
    I(i64),
    B(Vec<u8>),
}

fn render_v(v: &V) -> String {
    match v {
        V::Unit => "u".into(),
        V::U(x) => x.to_string(),
        V::I(x) => x.to_string(),
        V::B(b) => hex(b),
    }
}

fn cmp_v(a: &V, b: &V) -> Ordering {
    match (a, b) {
        (V::Unit, V::Unit) => Ordering::Equal,
        (V::U(x), V::U(y)) => x.cmp(y),
        (V::I(x), V::I(y)) => x.cmp(y),
        (V::B(x), V::B(y)) => x.cmp(y),
        _ => panic!("harness: comparing values of different types"),
    }
}

fn ord_name(o: Ordering) -> &'static str {
    match o {
        Ordering::Less => "lt",
        Ordering::Equal => "eq",
        Ordering::Greater => "gt",
    }
}

/// 2^k-1, 2^k, 2^k+1 for every k below `bits`, 0 and the maximum: every byte-length boundary of
/// the compact format and every 7-bit group boundary of the field-numbered one
fn unsigned_boundaries(bits: u32) -> Vec<u64> {
    let max = if bits == 64 { u64::MAX } else { (1u64 << bits) - 1 };
    let mut v = vec![0, 1, max, max - 1];
    for k in 0..bits {
        let p = 1u64 << k;
        for x in [p.wrapping_sub(1), p, p.wrapping_add(1)] {
            if x <= max {
                v.push(x);
            }
        }
    }
    v.sort();
    v.dedup();
    v
}

fn signed_boundaries(bits: u32) -> Vec<i64> {
    let max: i64 = if bits == 64 { i64::MAX } else { (1i64 << (bits - 1)) - 1 };
    let min: i64 = -max - 1;
    let mut v = vec![0, 1, -1, max, max - 1, min, min + 1];
    for k in 0..(bits - 1) {
        let p = 1i64 << k;
        for x in [p - 1, p, p.saturating_add(1)] {
            for y in [x, -x, -x - 1] {
                if min <= y && y <= max {
                    v.push(y);
                }
            }
        }
    }
    v.sort();
    v.dedup();
    v
}

fn gen_unsigned(rng: &mut Rng, bits: u32) -> u64 {
    let max = if bits == 64 { u64::MAX } else { (1u64 << bits) - 1 };
    if rng.chance(3, 4) {
        let b = unsigned_boundaries(bits);
        *rng.pick(&b)
    } else {
        (rng.next() >> rng.below(64)) & max
    }
}

fn gen_signed(rng: &mut Rng, bits: u32) -> i64 {
    if rng.chance(3, 4) {
        let b = signed_boundaries(bits);
        *rng.pick(&b)
    } else {
        let x = (rng.next() >> rng.below(64)) as i64;
        let x = if rng.chance(1, 2) { x } else { x.wrapping_neg() };
        if bits == 64 {
            x
        } else {
            let m = 1i64 << (bits - 1);
            x.rem_euclid(2 * m) - m
        }
    }
}

/// a value next to `x`: the comparison is then decided in the last group / at a width boundary
fn near_unsigned(rng: &mut Rng, x: u64, bits: u32) -> u64 {
    let max = if bits == 64 { u64::MAX } else { (1u64 << bits) - 1 };
    match rng.below(5) {
        0 => x.saturating_add(1).min(max),
        1 => x.saturating_sub(1),
        2 => (x ^ (1u64 << rng.below(bits as u64))) & max,
        3 => x,
        _ => gen_unsigned(rng, bits),
    }
}

fn near_signed(rng: &mut Rng, x: i64, bits: u32) -> i64 {
    let max: i64 = if bits == 64 { i64::MAX } else { (1i64 << (bits - 1)) - 1 };
    let min: i64 = -max - 1;
    match rng.below(6) {
        0 => x.saturating_add(1).min(max),
        1 => x.saturating_sub(1).max(min),
        2 => x.checked_neg().unwrap_or(max).clamp(min, max),
        3 => (-1i64 - x).clamp(min, max),
        4 => x,
        _ => gen_signed(rng, bits),
    }
}

/// characters whose UTF-8 forms cover 00, 01, 7f, the two/three/four byte leaders and trailers
/// (c2 80, c3 bf, df bf, e0 a0 80, ef bf bf, f0 90 80 80, f4 8f bf bf); a Rust `String` cannot
/// hold a raw ff byte, the compact format's `bytes` elements below do
const CHARS: [char; 12] = ['\u{0}', '\u{1}', '@', 'a', '\u{7f}', '\u{80}', '\u{ff}', '\u{7ff}', '\u{800}', '\u{ffff}', '\u{10000}', '\u{10ffff}'];
const LOW_CHARS: [char; 3] = ['\u{0}', '\u{1}', '@'];
const BYTES: [u8; 8] = [0x00, 0x01, 0x61, 0x7f, 0x80, 0xfe, 0xff, 0x00];

fn gen_utf8(rng: &mut Rng) -> Vec<u8> {
    let n = *rng.pick(&[0usize, 0, 1, 1, 2, 3, 5, 6, 7, 8, 9, 13, 14, 15]);
    let low = rng.chance(1, 3);
    let mut s = String::new();
    for _ in 0..n {
        s.push(if low { *rng.pick(&LOW_CHARS) } else { *rng.pick(&CHARS) });
    }
    s.into_bytes()
}

fn gen_bytes(rng: &mut Rng) -> Vec<u8> {
    let n = *rng.pick(&[0usize, 0, 1, 1, 2, 3, 5, 7, 8, 9, 12]);
    (0..n).map(|_| if rng.chance(1, 8) { rng.next() as u8 } else { *rng.pick(&BYTES) }).collect()
}

/// a string related to `s`: an extension (by zero bits, by a low character, by anything), a
/// prefix, a change of the last character, or the same
fn near_string(rng: &mut Rng, s: &[u8], utf8: bool) -> Vec<u8> {
    let ext = |rng: &mut Rng| -> Vec<u8> {
        if utf8 {
            let mut t = String::new();
            for _ in 0..rng.range(1, 3) {
                t.push(if rng.chance(1, 2) { *rng.pick(&LOW_CHARS) } else { *rng.pick(&CHARS) });
            }
            t.into_bytes()
        } else {
            (0..rng.range(1, 3)).map(|_| *rng.pick(&BYTES)).collect()
        }
    };
    match rng.below(6) {
        0 | 1 => {
            let mut t = s.to_vec();
            t.extend(ext(rng));
            t
        }
        2 => {
            // a prefix on a character boundary
            let mut k = rng.below(s.len() as u64 + 1) as usize;
            while utf8 && k > 0 && k < s.len() && (s[k] & 0xc0) == 0x80 {
                k -= 1;
            }
            s[..k].to_vec()
        }
        3 => {
            let mut k = s.len().saturating_sub(1);
            while utf8 && k > 0 && (s[k] & 0xc0) == 0x80 {
                k -= 1;
            }
            let mut t = s[..k].to_vec();
            t.extend(ext(rng));
            t
        }
        4 => s.to_vec(),
        _ => {
            if utf8 {
                gen_utf8(rng)
            } else {
                gen_bytes(rng)
            }
        }
    }
}

// ------------------------------------------------------------------------------------------------
// tk1: the field-numbered format
// ------------------------------------------------------------------------------------------------

#[derive(Clone, Copy, Debug, PartialEq, Eq)]
enum T1 {
    Unit,
    Pad,
    /// what derive(TypedTupleKey) does for a `()` field: written by `extend_with_key(f, (), dir)`,
    /// read by `parse_next(f, dir)`
    DUnit,
    U32,
    U64,
    I32,
    I64,
    Str,
}

#[derive(Clone, Copy, Debug, PartialEq, Eq)]
struct S1 {
    f: u32,
    t: T1,
    rev: bool,
}

const FIELDS: [u32; 16] = [1, 2, 3, 7, 8, 15, 16, 1023, 1024, 18999, 20000, 131071, 131072, 16777215, 16777216, 536870911];
const TYPES1: [T1; 8] = [T1::Unit, T1::Pad, T1::DUnit, T1::U32, T1::U64, T1::I32, T1::I64, T1::Str];

fn t1_name(t: T1) -> &'static str {
    match t {
        T1::Unit => "unit",
        T1::Pad => "pad",
        T1::DUnit => "dunit",
        T1::U32 => "u32",
        T1::U64 => "u64",
        T1::I32 => "i32",
        T1::I64 => "i64",
        T1::Str => "str",
    }
}

fn s1_tok(s: &S1) -> String {
    format!("{}:{}{}", s.f, t1_name(s.t), if s.rev { "-" } else { "+" })
}

fn e1_tok(s: &S1, v: &V) -> String {
    format!("{}={}", s1_tok(s), render_v(v))
}

fn dir(rev: bool) -> Direction {
    if rev {
        Direction::Reverse
    } else {
        Direction::Forward
    }
}

fn gen_v1(rng: &mut Rng, t: T1) -> V {
    match t {
        T1::Unit | T1::Pad | T1::DUnit => V::Unit,
        T1::U32 => V::U(gen_unsigned(rng, 32)),
        T1::U64 => V::U(gen_unsigned(rng, 64)),
        T1::I32 => V::I(gen_signed(rng, 32)),
        T1::I64 => V::I(gen_signed(rng, 64)),
        T1::Str => V::B(gen_utf8(rng)),
    }
}

fn near_v1(rng: &mut Rng, t: T1, v: &V) -> V {
    match (t, v) {
        (T1::U32, V::U(x)) => V::U(near_unsigned(rng, *x, 32)),
        (T1::U64, V::U(x)) => V::U(near_unsigned(rng, *x, 64)),
        (T1::I32, V::I(x)) => V::I(near_signed(rng, *x, 32)),
        (T1::I64, V::I(x)) => V::I(near_signed(rng, *x, 64)),
        (T1::Str, V::B(s)) => V::B(near_string(rng, s, true)),
        _ => V::Unit,
    }
}

/// `pad` (TupleKey::extend) has no direction to write; it is generated reversed only as an
/// *expected* schema of the hostile decode stream and in the derive stream
fn gen_schema1(rng: &mut Rng, n: usize, allow_pad_rev: bool) -> Vec<S1> {
    (0..n)
        .map(|_| {
            let t = *rng.pick(&TYPES1);
            let rev = rng.chance(1, 2) && (t != T1::Pad || allow_pad_rev);
            S1 { f: *rng.pick(&FIELDS), t, rev }
        })
        .collect()
}

/// the REAL encoder
fn enc1(schema: &[S1], vals: &[V]) -> Vec<u8> {
    let mut tk = TupleKey::default();
    for (s, v) in schema.iter().zip(vals.iter()) {
        let f = FieldNumber::must(s.f);
        let d = dir(s.rev);
        match (s.t, v) {
            (T1::Pad, V::Unit) => tk.extend(f),
            (T1::Unit, V::Unit) | (T1::DUnit, V::Unit) => tk.extend_with_key(f, (), d),
            (T1::U32, V::U(x)) => tk.extend_with_key(f, *x as u32, d),
            (T1::U64, V::U(x)) => tk.extend_with_key(f, *x, d),
            (T1::I32, V::I(x)) => tk.extend_with_key(f, *x as i32, d),
            (T1::I64, V::I(x)) => tk.extend_with_key(f, *x, d),
            (T1::Str, V::B(b)) => tk.extend_with_key(f, String::from_utf8(b.clone()).expect("harness: utf8"), d),
            _ => panic!("harness: ill-typed tuple"),
        }
    }
    tk.as_bytes().to_vec()
}

fn err1_name(e: &str) -> String {
    match e {
        "no more elements to TupleKey" => "no-more".into(),
        "tag does not match" => "tag-mismatch".into(),
        "missing value element" => "missing-value".into(),
        "unit not exactly 1 bytes" => "unit-width".into(),
        "buf not exactly 5 bytes" => "width5".into(),
        "buf not exactly 10 bytes" => "width10".into(),
        "invalid UTF-8 sequence" => "utf8".into(),
        "unit struct with length != 1" => "unit-struct-width".into(),
        "not a valid tag" => "bad-tag".into(),
        x => format!("unknown({})", x.replace(' ', "_")),
    }
}

/// the REAL typed parser over arbitrary bytes, rendered `v1 v2 … end|more|err:<e>`
fn dec1(schema: &[S1], bytes: &[u8]) -> String {
    let tk = TupleKey::from(bytes);
    let mut p = TupleKeyParser::new(&tk);
    let mut out: Vec<String> = vec![];
    for s in schema {
        let f = FieldNumber::must(s.f);
        let d = dir(s.rev);
        let r: Result<V, &'static str> = match s.t {
            T1::Pad | T1::DUnit => p.parse_next(f, d).map(|_| V::Unit),
            T1::Unit => p.parse_next_with_key::<()>(f, d).map(|_| V::Unit),
            T1::U32 => p.parse_next_with_key::<u32>(f, d).map(|x| V::U(x as u64)),
            T1::U64 => p.parse_next_with_key::<u64>(f, d).map(V::U),
            T1::I32 => p.parse_next_with_key::<i32>(f, d).map(|x| V::I(x as i64)),
            T1::I64 => p.parse_next_with_key::<i64>(f, d).map(V::I),
            T1::Str => p.parse_next_with_key::<String>(f, d).map(|x| V::B(x.into_bytes())),
        };
        match r {
            Ok(v) => out.push(render_v(&v)),
            Err(e) => {
                out.push(format!("err:{}", err1_name(e)));
                return out.join(" ");
            }
        }
    }
    out.push(match p.peek_next() {
        Ok(None) => "end".into(),
        _ => "more".to_string(),
    });
    out.join(" ")
}

/// the REAL schema-free walk: peek the tag, parse what it announces (as `Schema` does)
fn scan1(bytes: &[u8]) -> String {
    let tk = TupleKey::from(bytes);
    let mut p = TupleKeyParser::new(&tk);
    let mut out: Vec<String> = vec![];
    loop {
        let (f, k, d) = match p.peek_next() {
            Err(e) => {
                out.push(format!("err:{}", err1_name(e)));
                break;
            }
            Ok(None) => {
                out.push("end".into());
                break;
            }
            Ok(Some(x)) => x,
        };
        let (name, r): (&str, Result<V, &'static str>) = match k {
            KeyDataType::unit => ("unit", p.parse_next(f, d).map(|_| V::Unit)),
            KeyDataType::fixed32 => ("u32", p.parse_next_with_key::<u32>(f, d).map(|x| V::U(x as u64))),
            KeyDataType::fixed64 => ("u64", p.parse_next_with_key::<u64>(f, d).map(V::U)),
            KeyDataType::sfixed32 => ("i32", p.parse_next_with_key::<i32>(f, d).map(|x| V::I(x as i64))),
            KeyDataType::sfixed64 => ("i64", p.parse_next_with_key::<i64>(f, d).map(V::I)),
            KeyDataType::string => ("str", p.parse_next_with_key::<String>(f, d).map(|x| V::B(x.into_bytes()))),
        };
        match r {
            Ok(v) => out.push(format!("{}:{}{}={}", f.get(), name, if d == Direction::Reverse { "-" } else { "+" }, render_v(&v))),
            Err(e) => {
                out.push(format!("err:{}", err1_name(e)));
                break;
            }
        }
    }
    out.join(" ")
}

fn tuple_cmp(revs: &[bool], a: &[V], b: &[V]) -> Ordering {
    for ((x, y), rev) in a.iter().zip(b.iter()).zip(revs.iter()) {
        let o = cmp_v(x, y);
        if o != Ordering::Equal {
            return if *rev { o.reverse() } else { o };
        }
    }
    a.len().cmp(&b.len())
}

fn bit(s: &[u8], i: usize) -> u8 {
    (s[i / 8] >> (7 - i % 8)) & 1
}

/// D-20's trigger as a predicate on the two *strings* alone: their forward 7-bit encodings first
/// differ in the continuation bit only.  That is: one is a proper prefix of the other and the
/// bits of the longer one that fill up the shorter one's last chunk are all zero.
fn cont_tie_input(s: &[u8], t: &[u8]) -> bool {
    let (s, t) = if s.len() <= t.len() { (s, t) } else { (t, s) };
    if s.len() == t.len() || !t.starts_with(s) {
        return false;
    }
    let m = s.len();
    let r = if m == 0 { 0 } else { 8 * m - 7 * ((8 * m + 6) / 7 - 1) };
    (0..7 - r).all(|i| bit(t, 8 * m + i) == 0)
}

/// observed on two encodings: at the first differing byte, only the low bit differs
fn cont_tie_observed(a: &[u8], b: &[u8]) -> bool {
    for (x, y) in a.iter().zip(b.iter()) {
        if x != y {
            return x ^ y == 1;
        }
    }
    false
}

// ---- derive(TypedTupleKey) ------------------------------------------------------------------

#[derive(Clone, Debug, Eq, PartialEq, TypedTupleKey)]
struct DFwd {
    #[tuple_key(1)]
    unit: (),
    #[tuple_key(2)]
    a: u32,
    #[tuple_key(8)]
    b: u64,
    #[tuple_key(1024)]
    c: i32,
    #[tuple_key(20000)]
    d: i64,
    #[tuple_key(536870911)]
    s: String,
}

#[derive(Clone, Debug, Eq, PartialEq, TypedTupleKey)]
struct DRev {
    #[tuple_key(1)]
    unit: (),
    #[tuple_key(2)]
    #[reverse]
    a: u32,
    // the two attributes in the other order: the direction must not depend on it
    #[reverse]
    #[tuple_key(8)]
    b: u64,
    #[tuple_key(1024)]
    #[reverse]
    c: i32,
    #[reverse]
    #[tuple_key(20000)]
    d: i64,
    #[tuple_key(536870911)]
    #[reverse]
    s: String,
}

#[derive(Clone, Debug, Eq, PartialEq, TypedTupleKey)]
struct DRevUnit {
    #[tuple_key(3)]
    x: u32,
    #[tuple_key(7)]
    #[reverse]
    unit: (),
    #[tuple_key(9)]
    s: String,
}

fn derive_err(e: &tuple_key::SError) -> String {
    let s = format!("{:?} {}", e, e);
    for m in [
        "no more elements to TupleKey",
        "tag does not match",
        "missing value element",
        "unit not exactly 1 bytes",
        "buf not exactly 5 bytes",
        "buf not exactly 10 bytes",
        "invalid UTF-8 sequence",
        "unit struct with length != 1",
    ] {
        if s.contains(m) {
            return err1_name(m);
        }
    }
    "unknown".into()
}

// ------------------------------------------------------------------------------------------------
// tk2: the compact format
// ------------------------------------------------------------------------------------------------

#[derive(Clone, Copy, Debug, PartialEq, Eq)]
enum T2 {
    Unit,
    U8,
    U16,
    U32,
    U64,
    I8,
    I16,
    I32,
    I64,
    Bytes,
    Str,
}

const TYPES2: [T2; 11] = [T2::Unit, T2::U8, T2::U16, T2::U32, T2::U64, T2::I8, T2::I16, T2::I32, T2::I64, T2::Bytes, T2::Str];
/// the property's element types carry more weight
const TYPES2_W: [T2; 16] = [
    T2::Unit, T2::U32, T2::U32, T2::U64, T2::U64, T2::I32, T2::I32, T2::I64, T2::I64, T2::Bytes, T2::Bytes, T2::Str, T2::Str, T2::U8, T2::I16, T2::U16,
];

fn t2_name(t: T2) -> &'static str {
    match t {
        T2::Unit => "unit",
        T2::U8 => "u8",
        T2::U16 => "u16",
        T2::U32 => "u32",
        T2::U64 => "u64",
        T2::I8 => "i8",
        T2::I16 => "i16",
        T2::I32 => "i32",
        T2::I64 => "i64",
        T2::Bytes => "bytes",
        T2::Str => "str",
    }
}

fn t2_bits(t: T2) -> u32 {
    match t {
        T2::U8 | T2::I8 => 8,
        T2::U16 | T2::I16 => 16,
        T2::U32 | T2::I32 => 32,
        _ => 64,
    }
}

fn gen_v2(rng: &mut Rng, t: T2) -> V {
    match t {
        T2::Unit => V::Unit,
        T2::U8 | T2::U16 | T2::U32 | T2::U64 => V::U(gen_unsigned(rng, t2_bits(t))),
        T2::I8 | T2::I16 | T2::I32 | T2::I64 => V::I(gen_signed(rng, t2_bits(t))),
        T2::Bytes => V::B(gen_bytes(rng)),
        T2::Str => V::B(gen_utf8(rng)),
    }
}

fn near_v2(rng: &mut Rng, t: T2, v: &V) -> V {
    match (t, v) {
        (_, V::U(x)) => V::U(near_unsigned(rng, *x, t2_bits(t))),
        (_, V::I(x)) => V::I(near_signed(rng, *x, t2_bits(t))),
        (T2::Bytes, V::B(s)) => V::B(near_string(rng, s, false)),
        (T2::Str, V::B(s)) => V::B(near_string(rng, s, true)),
        _ => V::Unit,
    }
}

fn enc2(types: &[T2], vals: &[V]) -> Vec<u8> {
    let mut b = tuple_key2::TupleKey::builder();
    for (t, v) in types.iter().zip(vals.iter()) {
        b = match (t, v) {
            (T2::Unit, V::Unit) => b.unit(),
            (T2::U8, V::U(x)) => b.u8(*x as u8),
            (T2::U16, V::U(x)) => b.u16(*x as u16),
            (T2::U32, V::U(x)) => b.u32(*x as u32),
            (T2::U64, V::U(x)) => b.u64(*x),
            (T2::I8, V::I(x)) => b.i8(*x as i8),
            (T2::I16, V::I(x)) => b.i16(*x as i16),
            (T2::I32, V::I(x)) => b.i32(*x as i32),
            (T2::I64, V::I(x)) => b.i64(*x),
            (T2::Bytes, V::B(s)) => b.bytes(s),
            (T2::Str, V::B(s)) => b.string(std::str::from_utf8(s).expect("harness: utf8")),
            _ => panic!("harness: ill-typed tuple"),
        };
    }
    b.build().into_bytes()
}

fn err2_name(e: &tuple_key2::Error) -> String {
    use tuple_key2::Error::*;
    match e {
        UnexpectedEnd => "unexpected-end".into(),
        InvalidIntegerTag { tag } => format!("invalid-integer-tag:{:02x}", tag),
        InvalidUnitTag { tag } => format!("invalid-unit-tag:{:02x}", tag),
        NonCanonicalInteger => "non-canonical".into(),
        ValueOutOfRange { target } => format!("out-of-range:{}", target),
        InvalidBytesEscape { byte } => format!("invalid-escape:{:02x}", byte),
        UnterminatedBytes => "unterminated".into(),
        InvalidUtf8 => "invalid-utf8".into(),
        TrailingBytes { remaining } => format!("trailing:{}", remaining),
    }
}

fn dec2(types: &[T2], bytes: &[u8]) -> String {
    let key = tuple_key2::TupleKey::from_bytes(bytes.to_vec());
    let mut p = key.parser();
    let mut out: Vec<String> = vec![];
    for t in types {
        let r: Result<V, tuple_key2::Error> = match t {
            T2::Unit => p.unit().map(|_| V::Unit),
            T2::U8 => p.u8().map(|x| V::U(x as u64)),
            T2::U16 => p.u16().map(|x| V::U(x as u64)),
            T2::U32 => p.u32().map(|x| V::U(x as u64)),
            T2::U64 => p.u64().map(V::U),
            T2::I8 => p.i8().map(|x| V::I(x as i64)),
            T2::I16 => p.i16().map(|x| V::I(x as i64)),
            T2::I32 => p.i32().map(|x| V::I(x as i64)),
            T2::I64 => p.i64().map(V::I),
            T2::Bytes => p.bytes().map(V::B),
            T2::Str => p.string().map(|s| V::B(s.into_bytes())),
        };
        match r {
            Ok(v) => out.push(render_v(&v)),
            Err(e) => {
                out.push(format!("err:{}", err2_name(&e)));
                return out.join(" ");
            }
        }
    }
    out.push(match p.finish() {
        Ok(()) => "end".into(),
        Err(e) => format!("err:{}", err2_name(&e)),
    });
    out.join(" ")
}

// ------------------------------------------------------------------------------------------------
// hostile bytes
// ------------------------------------------------------------------------------------------------

fn mutate(rng: &mut Rng, base: &[u8], alphabet: &[u8]) -> (Vec<u8>, &'static str) {
    let mut b = base.to_vec();
    let pickb = |rng: &mut Rng| if rng.chance(1, 4) { rng.next() as u8 } else { *rng.pick(alphabet) };
    let kind = rng.below(9);
    let name = match kind {
        0 => "intact",
        1 => {
            if !b.is_empty() {
                let k = rng.below(b.len() as u64) as usize;
                b[k] ^= 1 << rng.below(8);
            }
            "bitflip"
        }
        2 => {
            b.truncate(rng.below(b.len() as u64 + 1) as usize);
            "truncate"
        }
        3 => {
            if !b.is_empty() {
                let k = rng.below(b.len() as u64) as usize;
                b.remove(k);
            }
            "delete"
        }
        4 => {
            let k = rng.below(b.len() as u64 + 1) as usize;
            let x = pickb(rng);
            b.insert(k, x);
            "insert"
        }
        5 => {
            if !b.is_empty() {
                let k = rng.below(b.len() as u64) as usize;
                b[k] = pickb(rng);
            }
            "replace"
        }
        6 => {
            for _ in 0..rng.range(1, 4) {
                let x = pickb(rng);
                b.push(x);
            }
            "append"
        }
        7 => {
            if !b.is_empty() {
                let k = rng.below(b.len() as u64) as usize;
                b[k] ^= 1;
            }
            "lowbit"
        }
        _ => {
            let n = rng.below(25) as usize;
            b = (0..n).map(|_| pickb(rng)).collect();
            "random"
        }
    };
    (b, name)
}

const ALPHA1: [u8; 16] = [0x00, 0x01, 0x02, 0x03, 0x22, 0x24, 0x2c, 0x3c, 0x32, 0x80, 0x81, 0xfe, 0xff, 0x41, 0x40, 0x21];
const ALPHA2: [u8; 20] = [0x00, 0xff, 0x01, 0x0f, 0x10, 0x11, 0x17, 0x18, 0x19, 0x1a, 0x21, 0x22, 0x23, 0x29, 0x2a, 0x2b, 0x2c, 0x80, 0x7f, 0x00];

// ------------------------------------------------------------------------------------------------

/// all strings over `alphabet` of length <= `maxlen`
fn all_strings(alphabet: &[&[u8]], maxlen: usize) -> Vec<Vec<u8>> {
    let mut out: Vec<Vec<u8>> = vec![vec![]];
    let mut layer: Vec<Vec<u8>> = vec![vec![]];
    for _ in 0..maxlen {
        let mut next = vec![];
        for s in &layer {
            for a in alphabet {
                let mut t = s.clone();
                t.extend_from_slice(a);
                next.push(t);
            }
        }
        out.extend(next.iter().cloned());
        layer = next;
    }
    out
}

/// the deterministic part of the tk1 pair stream: single-element tuples; every integer type and
/// direction over all neighbouring boundary values (both orders); every ordered pair of strings
/// over {00, 01, @} up to three characters plus the 6/7/8-byte strings around the chunk boundary
fn sweep1() -> Vec<(Vec<S1>, Vec<V>, Vec<V>)> {
    let mut out = vec![];
    let fields = [1u32, 8];
    let mut k = 0usize;
    for rev in [false, true] {
        for (t, bits, signed) in [(T1::U32, 32, false), (T1::U64, 64, false), (T1::I32, 32, true), (T1::I64, 64, true)] {
            let vals: Vec<V> = if signed { signed_boundaries(bits).into_iter().map(V::I).collect() } else { unsigned_boundaries(bits).into_iter().map(V::U).collect() };
            for w in vals.windows(2) {
                k += 1;
                let s = vec![S1 { f: fields[k % 2], t, rev }];
                out.push((s.clone(), vec![w[0].clone()], vec![w[1].clone()]));
                out.push((s, vec![w[1].clone()], vec![w[0].clone()]));
            }
        }
        let mut strs = all_strings(&[&[0u8], &[1u8], b"@"], 3);
        for n in [6usize, 7, 8, 13, 14, 15] {
            strs.push(vec![b'a'; n]);
            let mut z = vec![b'a'; n];
            z.push(0);
            strs.push(z);
            let mut y = vec![b'a'; n];
            y.push(0x7f);
            strs.push(y);
        }
        for a in &strs {
            for b in &strs {
                out.push((vec![S1 { f: 1, t: T1::Str, rev }], vec![V::B(a.clone())], vec![V::B(b.clone())]));
            }
        }
    }
    out
}

/// the deterministic part of the tk2 pair stream
fn sweep2() -> Vec<(Vec<T2>, Vec<V>, Vec<V>)> {
    let mut out = vec![];
    for t in [T2::U8, T2::U16, T2::U32, T2::U64] {
        let vals = unsigned_boundaries(t2_bits(t));
        for w in vals.windows(2) {
            out.push((vec![t], vec![V::U(w[0])], vec![V::U(w[1])]));
            out.push((vec![t], vec![V::U(w[1])], vec![V::U(w[0])]));
        }
    }
    for t in [T2::I8, T2::I16, T2::I32, T2::I64] {
        let vals = signed_boundaries(t2_bits(t));
        for w in vals.windows(2) {
            out.push((vec![t], vec![V::I(w[0])], vec![V::I(w[1])]));
            out.push((vec![t], vec![V::I(w[1])], vec![V::I(w[0])]));
        }
    }
    let strs = all_strings(&[&[0u8], &[1u8], &[0xffu8]], 3);
    for a in &strs {
        for b in &strs {
            out.push((vec![T2::Bytes], vec![V::B(a.clone())], vec![V::B(b.clone())]));
        }
    }
    out
}

fn fail(class: &str, detail: String) -> Verdict {
    Verdict::Fail { class: class.into(), detail }
}

pub fn run(args: &Args) {
    let mut rec = Recorder::new(&args.out, args.only_case);
    let k = if args.thorough { 40 } else { 4 };
    let sw1 = sweep1();
    let sw2 = sweep2();
    let n1_enc = 1500 * k;
    let n1_pair = sw1.len() as u64 + 5000 * k;
    let n1_dec = 2500 * k;
    let n1_scan = 1500 * k;
    let n1_derive = 75 * k;
    let n2_enc = 1500 * k;
    let n2_pair = sw2.len() as u64 + 5000 * k;
    let n2_dec = 3000 * k;

    // ---- stream 1: tk1 tuples — encoding (correspondence) and decode(encode t) == t -------------
    for i in 0..n1_enc {
        if !rec.wants() {
            rec.skip();
            continue;
        }
        let mut rng = Rng::for_case(args.seed, 1, i);
        let n = if i == 0 { 0 } else { rng.range(1, 4) as usize };
        let schema = gen_schema1(&mut rng, n, false);
        let vals: Vec<V> = schema.iter().map(|s| gen_v1(&mut rng, s.t)).collect();
        let req = format!("tk1 enc {}", schema.iter().zip(vals.iter()).map(|(s, v)| e1_tok(s, v)).collect::<Vec<_>>().join(" "));
        let res = guarded(AssertUnwindSafe(|| {
            let b = enc1(&schema, &vals);
            let d = dec1(&schema, &b);
            (b, d)
        }));
        rec.count("tk1.enc");
        for s in &schema {
            rec.count(&format!("tk1.enc.elem.{}{}", t1_name(s.t), if s.rev { "-" } else { "+" }));
        }
        let nt = if n >= 1 { Some(fnv(req.as_bytes())) } else { None };
        match res {
            Ok((b, d)) => {
                let want = format!("{} end", vals.iter().map(render_v).collect::<Vec<_>>().join(" "));
                let v = if d.trim() == want.trim() { Verdict::Ok } else { fail("roundtrip", format!("decoded `{}` expected `{}`", d, want)) };
                rec.case(&req, &format!("{} {}", hex(&b), d), v, nt);
            }
            Err(m) => rec.case(&req, "panic", fail("panic", m), nt),
        }
    }

    // ---- stream 2: tk1 pairs — Ord of encodings == Ord of tuples, prefix contiguity -------------
    for i in 0..n1_pair {
        if !rec.wants() {
            rec.skip();
            continue;
        }
        let mut rng = Rng::for_case(args.seed, 2, i);
        // the first cases are the deterministic sweep
        let (schema, a, b): (Vec<S1>, Vec<V>, Vec<V>) = if (i as usize) < sw1.len() {
            rec.count("tk1.pair.sweep");
            sw1[i as usize].clone()
        } else {
            let n = if rng.chance(1, 3) { 1 } else { rng.range(1, 4) as usize };
            let mut schema = gen_schema1(&mut rng, n, false);
            if rng.chance(1, 4) {
                // more weight on the string elements, both directions
                let j = rng.below(n as u64) as usize;
                schema[j].t = T1::Str;
            }
            let a: Vec<V> = schema.iter().map(|s| gen_v1(&mut rng, s.t)).collect();
            // b: a common prefix, then one element next to a's, then fresh values
            let j = rng.below(n as u64) as usize;
            let b: Vec<V> = (0..n)
                .map(|x| {
                    if x < j {
                        a[x].clone()
                    } else if x == j {
                        near_v1(&mut rng, schema[x].t, &a[x])
                    } else {
                        gen_v1(&mut rng, schema[x].t)
                    }
                })
                .collect();
            if rng.chance(1, 2) { (schema, a, b) } else { (schema, b, a) }
        };
        let es = {
            let t = *rng.pick(&[T1::Unit, T1::U32, T1::U64, T1::I32, T1::I64, T1::Str]);
            S1 { f: *rng.pick(&FIELDS), t, rev: rng.chance(1, 2) }
        };
        let ev = gen_v1(&mut rng, es.t);
        let req = format!(
            "tk1 pair {} / {} / {}",
            schema.iter().zip(a.iter()).map(|(s, v)| e1_tok(s, v)).collect::<Vec<_>>().join(" "),
            b.iter().map(render_v).collect::<Vec<_>>().join(" "),
            e1_tok(&es, &ev)
        );
        let res = guarded(AssertUnwindSafe(|| {
            let ea = enc1(&schema, &a);
            let eb = enc1(&schema, &b);
            let mut s2 = schema.clone();
            s2.push(es);
            let mut a2 = a.clone();
            a2.push(ev.clone());
            let eae = enc1(&s2, &a2);
            (ea, eb, eae)
        }));
        let revs: Vec<bool> = schema.iter().map(|s| s.rev).collect();
        let want = tuple_cmp(&revs, &a, &b);
        // the first element that differs decides; D-20's trigger is evaluated on it alone
        let first = (0..a.len()).find(|&x| a[x] != b[x]);
        let mut tie_in = false;
        let mut d20 = false;
        if let Some(x) = first {
            if let (T1::Str, V::B(s), V::B(t)) = (schema[x].t, &a[x], &b[x]) {
                tie_in = cont_tie_input(s, t);
                d20 = tie_in && schema[x].rev;
                rec.count(if schema[x].rev { "tk1.pair.decided_by.str-" } else { "tk1.pair.decided_by.str+" });
                if tie_in {
                    rec.count(if schema[x].rev { "tk1.pair.continuation_tie.str-" } else { "tk1.pair.continuation_tie.str+" });
                }
            } else {
                rec.count(&format!("tk1.pair.decided_by.{}{}", t1_name(schema[x].t), if schema[x].rev { "-" } else { "+" }));
            }
        } else {
            rec.count("tk1.pair.equal");
        }
        rec.count("tk1.pair");
        let nt = if first.is_some() { Some(fnv(req.as_bytes())) } else { None };
        match res {
            Ok((ea, eb, eae)) => {
                let got = ea.cmp(&eb);
                let got_e = eae.cmp(&eb);
                let tie_obs = cont_tie_observed(&ea, &eb);
                let mut fails: Vec<String> = vec![];
                if got != want {
                    fails.push(format!("order: tuples {} encodings {}", ord_name(want), ord_name(got)));
                }
                if ea.cmp(&eae) != Ordering::Less {
                    fails.push("extension does not sort after the shorter tuple".into());
                }
                if want == Ordering::Less && got_e != Ordering::Less {
                    fails.push("contiguity: a<b but enc(a++e) >= enc(b)".into());
                }
                if want == Ordering::Greater && got_e != Ordering::Greater {
                    fails.push("contiguity: a>b but enc(a++e) <= enc(b)".into());
                }
                let str_decides = first.map(|x| schema[x].t == T1::Str).unwrap_or(false);
                let verdict = if (str_decides && tie_in != tie_obs) || (!str_decides && tie_obs) {
                    fail("tie-predicate", format!("input predicate {} but encodings {}", tie_in, tie_obs))
                } else if fails.is_empty() {
                    Verdict::Ok
                } else if d20 {
                    fail("desc-string-continuation-tie", fails.join("; "))
                } else {
                    fail("order", fails.join("; "))
                };
                let obs = format!("{} {} {} {} {} tie={}", hex(&ea), hex(&eb), hex(&eae), ord_name(got), ord_name(got_e), tie_obs as u8);
                rec.case(&req, &obs, verdict, nt);
            }
            Err(m) => rec.case(&req, "panic", fail("panic", m), nt),
        }
    }

    // ---- stream 3: tk1 typed parser over hostile bytes -------------------------------------------
    for i in 0..n1_dec {
        if !rec.wants() {
            rec.skip();
            continue;
        }
        let mut rng = Rng::for_case(args.seed, 3, i);
        let n = rng.range(1, 3) as usize;
        let schema = gen_schema1(&mut rng, n, false);
        let vals: Vec<V> = schema.iter().map(|s| gen_v1(&mut rng, s.t)).collect();
        let base = guarded(AssertUnwindSafe(|| enc1(&schema, &vals))).unwrap_or_default();
        let (bytes, kind) = mutate(&mut rng, &base, &ALPHA1);
        // sometimes the reader expects another schema than the writer used
        let mut expect = schema.clone();
        let mut skind = "same";
        if rng.chance(1, 4) {
            let j = rng.below(n as u64) as usize;
            match rng.below(4) {
                0 => {
                    expect[j].rev = !expect[j].rev;
                    skind = "dir";
                }
                1 => {
                    expect[j].t = *rng.pick(&TYPES1);
                    skind = "type";
                }
                2 => {
                    expect[j].f = *rng.pick(&FIELDS);
                    skind = "field";
                }
                _ => {
                    expect.push(S1 { f: *rng.pick(&FIELDS), t: *rng.pick(&TYPES1), rev: rng.chance(1, 2) });
                    skind = "longer";
                }
            }
        }
        let req = format!("tk1 dec {} {}", expect.iter().map(s1_tok).collect::<Vec<_>>().join(" "), hex(&bytes));
        let res = guarded(AssertUnwindSafe(|| dec1(&expect, &bytes)));
        rec.count("tk1.dec");
        rec.count(&format!("tk1.dec.bytes.{}", kind));
        rec.count(&format!("tk1.dec.schema.{}", skind));
        let nt = Some(fnv(req.as_bytes()));
        match res {
            Ok(d) => {
                rec.count(if d.contains("err:") { "tk1.dec.result.err" } else { "tk1.dec.result.ok" });
                let v = if d.contains("unknown(") { fail("unknown-error-text", d.clone()) } else { Verdict::Ok };
                rec.case(&req, &d, v, nt)
            }
            Err(m) => rec.case(&req, "panic", fail("decoder-panic", m), nt),
        }
    }

    // ---- stream 4: tk1 schema-free walk over hostile bytes ---------------------------------------
    for i in 0..n1_scan {
        if !rec.wants() {
            rec.skip();
            continue;
        }
        let mut rng = Rng::for_case(args.seed, 4, i);
        let n = rng.range(0, 3) as usize;
        let schema = gen_schema1(&mut rng, n, false);
        let vals: Vec<V> = schema.iter().map(|s| gen_v1(&mut rng, s.t)).collect();
        let base = guarded(AssertUnwindSafe(|| enc1(&schema, &vals))).unwrap_or_default();
        let (bytes, kind) = mutate(&mut rng, &base, &ALPHA1);
        let req = format!("tk1 scan {}", hex(&bytes));
        let res = guarded(AssertUnwindSafe(|| scan1(&bytes)));
        rec.count("tk1.scan");
        rec.count(&format!("tk1.scan.bytes.{}", kind));
        let nt = Some(fnv(req.as_bytes()));
        match res {
            Ok(d) => {
                rec.count(if d.contains("err:") { "tk1.scan.result.err" } else { "tk1.scan.result.ok" });
                // an intact key walks back to exactly what was written (pad = unit written Forward)
                let v = if kind == "intact" {
                    let want: Vec<String> = schema
                        .iter()
                        .zip(vals.iter())
                        .map(|(s, v)| {
                            let s2 = match s.t {
                                T1::Pad => S1 { f: s.f, t: T1::Unit, rev: false },
                                T1::DUnit => S1 { f: s.f, t: T1::Unit, rev: s.rev },
                                _ => *s,
                            };
                            // a unit element written by extend_with_key reads back through parse_next
                            e1_tok(&s2, v)
                        })
                        .chain(std::iter::once("end".to_string()))
                        .collect();
                    if d == want.join(" ") { Verdict::Ok } else { fail("scan-roundtrip", format!("walked `{}` expected `{}`", d, want.join(" "))) }
                } else {
                    Verdict::Ok
                };
                rec.case(&req, &d, v, nt)
            }
            Err(m) => rec.case(&req, "panic", fail("decoder-panic", m), nt),
        }
    }

    // ---- stream 5: derive(TypedTupleKey) — Into<TupleKey> / TryFrom<TupleKey> ---------------------
    for i in 0..n1_derive {
        if !rec.wants() {
            rec.skip();
            continue;
        }
        let mut rng = Rng::for_case(args.seed, 5, i);
        let which = i % 3;
        let a = gen_unsigned(&mut rng, 32) as u32;
        let b = gen_unsigned(&mut rng, 64);
        let c = gen_signed(&mut rng, 32) as i32;
        let d = gen_signed(&mut rng, 64);
        let s = String::from_utf8(gen_utf8(&mut rng)).unwrap();
        let (schema, vals): (Vec<S1>, Vec<V>) = match which {
            0 | 1 => {
                let r = which == 1;
                (
                    vec![
                        S1 { f: 1, t: T1::DUnit, rev: false },
                        S1 { f: 2, t: T1::U32, rev: r },
                        S1 { f: 8, t: T1::U64, rev: r },
                        S1 { f: 1024, t: T1::I32, rev: r },
                        S1 { f: 20000, t: T1::I64, rev: r },
                        S1 { f: 536870911, t: T1::Str, rev: r },
                    ],
                    vec![V::Unit, V::U(a as u64), V::U(b), V::I(c as i64), V::I(d), V::B(s.clone().into_bytes())],
                )
            }
            _ => (
                vec![S1 { f: 3, t: T1::U32, rev: false }, S1 { f: 7, t: T1::DUnit, rev: true }, S1 { f: 9, t: T1::Str, rev: false }],
                vec![V::U(a as u64), V::Unit, V::B(s.clone().into_bytes())],
            ),
        };
        let req = format!("tk1 enc {}", schema.iter().zip(vals.iter()).map(|(s, v)| e1_tok(s, v)).collect::<Vec<_>>().join(" "));
        let s2 = s.clone();
        let res = guarded(AssertUnwindSafe(move || -> (Vec<u8>, Result<bool, String>) {
            match which {
                0 => {
                    let x = DFwd { unit: (), a, b, c, d, s: s2 };
                    let tk: TupleKey = x.clone().into();
                    let bytes = tk.as_bytes().to_vec();
                    (bytes, DFwd::try_from(tk).map(|y| y == x).map_err(|e| derive_err(&e)))
                }
                1 => {
                    let x = DRev { unit: (), a, b, c, d, s: s2 };
                    let tk: TupleKey = x.clone().into();
                    let bytes = tk.as_bytes().to_vec();
                    (bytes, DRev::try_from(tk).map(|y| y == x).map_err(|e| derive_err(&e)))
                }
                _ => {
                    let x = DRevUnit { x: a, unit: (), s: s2 };
                    let tk: TupleKey = x.clone().into();
                    let bytes = tk.as_bytes().to_vec();
                    (bytes, DRevUnit::try_from(tk).map(|y| y == x).map_err(|e| derive_err(&e)))
                }
            }
        }));
        rec.count(&format!("tk1.derive.struct{}", which));
        let nt = Some(fnv(req.as_bytes()));
        let class = if which == 2 { "derive-reverse-unit" } else { "derive-roundtrip" };
        match res {
            Ok((bytes, Ok(same))) => {
                let obs = format!("{} {} end", hex(&bytes), vals.iter().map(render_v).collect::<Vec<_>>().join(" "));
                let v = if same { Verdict::Ok } else { fail(class, "try_from(into(x)) != x".into()) };
                rec.case(&req, &obs, v, nt);
            }
            Ok((bytes, Err(e))) => {
                // the model renders the values parsed before the error; the derive hands back none
                let upto = schema.iter().position(|s| s.t == T1::DUnit && s.rev).unwrap_or(0);
                let mut parts: Vec<String> = vec![hex(&bytes)];
                parts.extend(vals[..upto].iter().map(render_v));
                parts.push(format!("err:{}", e));
                rec.case(&req, &parts.join(" "), fail(class, format!("try_from(into(x)) = Err({})", e)), nt);
            }
            Err(m) => rec.case(&req, "panic", fail("panic", m), nt),
        }
    }

    // ---- stream 6: tk2 tuples ----------------------------------------------------------------------
    for i in 0..n2_enc {
        if !rec.wants() {
            rec.skip();
            continue;
        }
        let mut rng = Rng::for_case(args.seed, 6, i);
        let n = if i == 0 { 0 } else { rng.range(1, 4) as usize };
        let types: Vec<T2> = (0..n).map(|_| if rng.chance(1, 4) { *rng.pick(&TYPES2) } else { *rng.pick(&TYPES2_W) }).collect();
        let vals: Vec<V> = types.iter().map(|t| gen_v2(&mut rng, *t)).collect();
        let req = format!("tk2 enc {}", types.iter().zip(vals.iter()).map(|(t, v)| format!("{}={}", t2_name(*t), render_v(v))).collect::<Vec<_>>().join(" "));
        let res = guarded(AssertUnwindSafe(|| {
            let b = enc2(&types, &vals);
            let d = dec2(&types, &b);
            (b, d)
        }));
        rec.count("tk2.enc");
        for t in &types {
            rec.count(&format!("tk2.enc.elem.{}", t2_name(*t)));
        }
        let nt = if n >= 1 { Some(fnv(req.as_bytes())) } else { None };
        match res {
            Ok((b, d)) => {
                let want = format!("{} end", vals.iter().map(render_v).collect::<Vec<_>>().join(" "));
                let v = if d.trim() == want.trim() { Verdict::Ok } else { fail("roundtrip", format!("decoded `{}` expected `{}`", d, want)) };
                rec.case(&req, &format!("{} {}", hex(&b), d), v, nt);
            }
            Err(m) => rec.case(&req, "panic", fail("panic", m), nt),
        }
    }

    // ---- stream 7: tk2 pairs -----------------------------------------------------------------------
    for i in 0..n2_pair {
        if !rec.wants() {
            rec.skip();
            continue;
        }
        let mut rng = Rng::for_case(args.seed, 7, i);
        let (types, a, b): (Vec<T2>, Vec<V>, Vec<V>) = if (i as usize) < sw2.len() {
            rec.count("tk2.pair.sweep");
            sw2[i as usize].clone()
        } else {
            let n = if rng.chance(1, 3) { 1 } else { rng.range(1, 4) as usize };
            let types: Vec<T2> = (0..n).map(|_| if rng.chance(1, 4) { *rng.pick(&TYPES2) } else { *rng.pick(&TYPES2_W) }).collect();
            let a: Vec<V> = types.iter().map(|t| gen_v2(&mut rng, *t)).collect();
            let j = rng.below(n as u64) as usize;
            let b: Vec<V> = (0..n)
                .map(|x| {
                    if x < j {
                        a[x].clone()
                    } else if x == j {
                        near_v2(&mut rng, types[x], &a[x])
                    } else {
                        gen_v2(&mut rng, types[x])
                    }
                })
                .collect();
            if rng.chance(1, 2) { (types, a, b) } else { (types, b, a) }
        };
        let n = types.len();
        let et = *rng.pick(&TYPES2_W);
        let ev = gen_v2(&mut rng, et);
        let req = format!(
            "tk2 pair {} / {} / {}={}",
            types.iter().zip(a.iter()).map(|(t, v)| format!("{}={}", t2_name(*t), render_v(v))).collect::<Vec<_>>().join(" "),
            b.iter().map(render_v).collect::<Vec<_>>().join(" "),
            t2_name(et),
            render_v(&ev)
        );
        let res = guarded(AssertUnwindSafe(|| {
            let ea = enc2(&types, &a);
            let eb = enc2(&types, &b);
            let mut t2 = types.clone();
            t2.push(et);
            let mut a2 = a.clone();
            a2.push(ev.clone());
            (ea, eb, enc2(&t2, &a2))
        }));
        let revs = vec![false; n];
        let want = tuple_cmp(&revs, &a, &b);
        let first = (0..n).find(|&x| a[x] != b[x]);
        match first {
            Some(x) => rec.count(&format!("tk2.pair.decided_by.{}", t2_name(types[x]))),
            None => rec.count("tk2.pair.equal"),
        }
        rec.count("tk2.pair");
        let nt = if first.is_some() { Some(fnv(req.as_bytes())) } else { None };
        match res {
            Ok((ea, eb, eae)) => {
                let got = ea.cmp(&eb);
                let got_e = eae.cmp(&eb);
                let mut fails: Vec<String> = vec![];
                if got != want {
                    fails.push(format!("order: tuples {} encodings {}", ord_name(want), ord_name(got)));
                }
                if ea.cmp(&eae) != Ordering::Less {
                    fails.push("extension does not sort after the shorter tuple".into());
                }
                if want == Ordering::Less && got_e != Ordering::Less {
                    fails.push("contiguity: a<b but enc(a++e) >= enc(b)".into());
                }
                if want == Ordering::Greater && got_e != Ordering::Greater {
                    fails.push("contiguity: a>b but enc(a++e) <= enc(b)".into());
                }
                let verdict = if fails.is_empty() { Verdict::Ok } else { fail("order", fails.join("; ")) };
                let obs = format!("{} {} {} {} {}", hex(&ea), hex(&eb), hex(&eae), ord_name(got), ord_name(got_e));
                rec.case(&req, &obs, verdict, nt);
            }
            Err(m) => rec.case(&req, "panic", fail("panic", m), nt),
        }
    }

    // ---- stream 8: tk2 parser over hostile bytes -------------------------------------------------
    for i in 0..n2_dec {
        if !rec.wants() {
            rec.skip();
            continue;
        }
        let mut rng = Rng::for_case(args.seed, 8, i);
        let n = rng.range(1, 3) as usize;
        let types: Vec<T2> = (0..n).map(|_| *rng.pick(&TYPES2)).collect();
        let vals: Vec<V> = types.iter().map(|t| gen_v2(&mut rng, *t)).collect();
        let base = guarded(AssertUnwindSafe(|| enc2(&types, &vals))).unwrap_or_default();
        let (bytes, kind) = mutate(&mut rng, &base, &ALPHA2);
        let mut expect = types.clone();
        let mut skind = "same";
        if rng.chance(1, 3) {
            let j = rng.below(n as u64) as usize;
            match rng.below(3) {
                0 | 1 => {
                    expect[j] = *rng.pick(&TYPES2);
                    skind = "type";
                }
                _ => {
                    expect.push(*rng.pick(&TYPES2));
                    skind = "longer";
                }
            }
        }
        let req = format!("tk2 dec {} {}", expect.iter().map(|t| t2_name(*t)).collect::<Vec<_>>().join(" "), hex(&bytes));
        let res = guarded(AssertUnwindSafe(|| dec2(&expect, &bytes)));
        rec.count("tk2.dec");
        rec.count(&format!("tk2.dec.bytes.{}", kind));
        rec.count(&format!("tk2.dec.schema.{}", skind));
        let nt = Some(fnv(req.as_bytes()));
        match res {
            Ok(d) => {
                let e = d.rsplit(' ').next().unwrap_or("");
                let key = if e.starts_with("err:") { e[4..].split(':').next().unwrap_or("?").to_string() } else { "ok".to_string() };
                rec.count(&format!("tk2.dec.result.{}", key));
                rec.corr(&req, &d, nt)
            }
            Err(m) => rec.case(&req, "panic", fail("decoder-panic", m), nt),
        }
    }

    rec.finish(
        "eight seeded streams over both crates: typed tuples of 0-4 elements (unit, u32, u64, i32, i64, string; tk2 also u8/u16/i8/i16 and bytes; tk1 both directions and 16 field numbers around the tag's byte-length boundaries) with integers drawn 3:1 from {0, max, min, +-(2^k-1), +-2^k, +-(2^k+1)} and strings over {00,01,@,a,7f,U+80,U+ff,U+7ff,U+800,U+ffff,U+10000,U+10ffff} (tk2 bytes over {00,01,61,7f,80,fe,ff}) of lengths around the 7-byte chunk boundary; pairs share a prefix and then differ by a neighbouring value / a string extension, prefix or last-character change; decoders see intact, bit-flipped, truncated, byte-deleted/inserted/replaced, extended and random buffers under the writer's or a perturbed schema; derive(TypedTupleKey) on three structs. non-trivial = a tuple with >= 1 element, a pair of unequal tuples, any decoder input; distinct by request text",
        &[],
    );
}
