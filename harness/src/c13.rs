//! C13 — mani: manifest edits are atomic and durable; reopening replays exactly those applied.
//!
//! Six streams, all against the real `mani::Manifest` in a scratch directory under /var/tmp:
//!   1. `step`  — histories of edits / reopens / rollovers; after every event the directory bytes,
//!      the in-memory state, the state after `Manifest::open` of a copy, `Manifest::verify`;
//!   2. `cuts`  — every (or a capped set of) truncation length of a MANIFEST, reopened in a copy;
//!   3. `crash` — the directory image after the first n system calls of the history under both
//!      persistence models, reopened with the real code, then verified;
//!   4. `ops`   — the real mutating system calls (strace) against the model's op list;
//!   5. `crash` again, but with every image built from the REAL system-call trace of the history
//!      (`fstrace`: strace -f -xx -y of a re-exec'd child, per-inode durable snapshots): a crash
//!      after every prefix of the real calls under both persistence models, reopened and verified.
//!      Stream 3 ties the code to `ManiCrash` (its images follow the op order the harness
//!      re-implements); stream 5 is the oracle's input (a call the code forgets, e.g. the
//!      fdatasync of MANIFEST.tmp before the rename, reaches an image here).
//!   6. `lock`  — two PROCESSES on one directory: a child of this binary calls `Manifest::open`
//!      while this process holds the lock, is seen waiting in `fcntl(F_SETLKW)`, this process
//!      applies more edits and drops its handle, the child opens, runs its events and exits;
//!      a reopen must show exactly the edits applied (`Blue.ManiLock.waiterOpen`, read under lock).
//! The oracle uses its own reference replay (BTreeSet/BTreeMap) and never the model.
use crate::common::*;
use crate::fstrace::{self, FsOp, SimFs};
use arrrg::CommandLine;
use mani::{Edit, Manifest, ManifestOptions};
use std::collections::{BTreeMap, BTreeSet};
use std::panic::AssertUnwindSafe;
use std::path::{Path, PathBuf};

// ---------------------------------------------------------------------------------------------
// histories

#[derive(Clone, Debug)]
enum Call {
    Add(String),
    Rm(String),
    Info(char, String),
}

#[derive(Clone, Debug)]
enum Ev {
    Edit(Vec<Call>),
    Reopen,
    Rollover,
}

#[derive(Clone, Debug)]
struct Hist {
    ratio: u64,
    stale: bool,
    evs: Vec<Ev>,
}

fn call_tok(c: &Call) -> String {
    match c {
        Call::Add(s) => format!("a{}", hex(s.as_bytes())),
        Call::Rm(s) => format!("r{}", hex(s.as_bytes())),
        Call::Info(k, s) => {
            let mut b = [0u8; 4];
            format!("i{}:{}", hex(k.encode_utf8(&mut b).as_bytes()), hex(s.as_bytes()))
        }
    }
}

fn ev_tok(e: &Ev) -> String {
    match e {
        Ev::Edit(cs) => format!("e:{}", cs.iter().map(call_tok).collect::<Vec<_>>().join(",")),
        Ev::Reopen => "o".into(),
        Ev::Rollover => "R".into(),
    }
}

fn hist_toks(h: &Hist, upto: usize) -> String {
    let mut t = vec![h.ratio.to_string()];
    if h.stale {
        t.push("t".into());
    }
    for e in &h.evs[..upto] {
        t.push(ev_tok(e));
    }
    t.join(" ")
}

fn parse_hist(toks: &[String]) -> Option<Hist> {
    let ratio: u64 = toks.first()?.parse().ok()?;
    let mut i = 1;
    let mut stale = false;
    if toks.get(1).map(|s| s.as_str()) == Some("t") {
        stale = true;
        i = 2;
    }
    let mut evs = vec![];
    for t in &toks[i..] {
        if t == "o" {
            evs.push(Ev::Reopen);
        } else if t == "R" {
            evs.push(Ev::Rollover);
        } else if let Some(rest) = t.strip_prefix("e:") {
            let mut cs = vec![];
            for c in rest.split(',').filter(|c| !c.is_empty()) {
                let s = |h: &str| String::from_utf8(unhex(h)?).ok();
                match &c[..1] {
                    "a" => cs.push(Call::Add(s(&c[1..])?)),
                    "r" => cs.push(Call::Rm(s(&c[1..])?)),
                    "i" => {
                        let (k, v) = c[1..].split_once(':')?;
                        cs.push(Call::Info(s(k)?.chars().next()?, s(v)?));
                    }
                    _ => return None,
                }
            }
            evs.push(Ev::Edit(cs));
        } else {
            return None;
        }
    }
    Some(Hist { ratio, stale, evs })
}

/// the input classes the known defects live in (decidable on the calls alone)
fn call_class(c: &Call) -> Option<&'static str> {
    let s = match c {
        Call::Add(s) | Call::Rm(s) | Call::Info(_, s) => s,
    };
    if s.contains('\n') {
        return None; // rejected by the API as it always was
    }
    if let Call::Info(k, _) = c {
        if *k == '\n' {
            return None;
        }
    }
    if s.is_empty() {
        return Some("string-empty");
    }
    if !s.is_ascii() {
        return Some("string-non-ascii");
    }
    if s.ends_with('\r') {
        return Some("string-trailing-cr");
    }
    if let Call::Info(k, _) = c {
        if *k == '+' || *k == '-' {
            return Some("info-key-plus-or-minus");
        }
        if !k.is_ascii() {
            return Some("info-key-non-ascii");
        }
    }
    None
}

fn hist_class(h: &Hist, upto: usize) -> &'static str {
    for e in &h.evs[..upto] {
        if let Ev::Edit(cs) = e {
            for c in cs {
                if let Some(k) = call_class(c) {
                    return k;
                }
            }
        }
    }
    "well-formed-history"
}

// ---------------------------------------------------------------------------------------------
// reference state (the oracle's own replay) and rendering

#[derive(Clone, Default, PartialEq, Eq, Debug)]
struct Ref {
    strs: BTreeSet<Vec<u8>>,
    info: BTreeMap<Vec<u8>, Vec<u8>>, // key = the char's UTF-8
}

impl Ref {
    fn render(&self) -> String {
        format!(
            "s[{}]i[{}]",
            self.strs.iter().map(|s| hex(s)).collect::<Vec<_>>().join(","),
            self.info.iter().map(|(k, v)| format!("{}={}", hex(k), hex(v))).collect::<Vec<_>>().join(",")
        )
    }
    /// `apply_edit`: removals, additions, infos — of the calls the API accepted
    fn apply(&mut self, calls: &[Call], accepted: &[bool]) {
        for (c, ok) in calls.iter().zip(accepted) {
            if let (Call::Rm(s), true) = (c, ok) {
                self.strs.remove(s.as_bytes());
            }
        }
        for (c, ok) in calls.iter().zip(accepted) {
            if let (Call::Add(s), true) = (c, ok) {
                self.strs.insert(s.as_bytes().to_vec());
            }
        }
        for (c, ok) in calls.iter().zip(accepted) {
            if let (Call::Info(k, s), true) = (c, ok) {
                self.info.insert(k.to_string().into_bytes(), s.as_bytes().to_vec());
            }
        }
    }
}

const EXTRA_KEYS: [char; 4] = ['é', 'λ', '€', '😀'];

/// the state a live handle shows through `strs()` / `info(c)` (every ASCII key and the
/// generator's non-ASCII keys are probed)
fn observe(m: &Manifest) -> Ref {
    let mut r = Ref::default();
    for s in m.strs() {
        r.strs.insert(s.as_bytes().to_vec());
    }
    let keys = (0u8..128).map(|b| b as char).chain(EXTRA_KEYS.iter().copied());
    for c in keys {
        if let Some(v) = m.info(c) {
            r.info.insert(c.to_string().into_bytes(), v.as_bytes().to_vec());
        }
    }
    r
}

fn opts(ratio: u64) -> ManifestOptions {
    let r = ratio.to_string();
    let (o, _) = ManifestOptions::from_arguments_relaxed("x", &["--log-rollover-ratio", &r]);
    o
}

fn g<T>(f: impl FnOnce() -> T) -> Result<T, String> {
    guarded(AssertUnwindSafe(f))
}

/// `Manifest::open` then the state, or the error code
fn open_state(ratio: u64, dir: &Path) -> Result<Ref, String> {
    match g(|| Manifest::open(opts(ratio), dir).map(|m| observe(&m))) {
        Ok(Ok(r)) => Ok(r),
        Ok(Err(e)) => Err(format!("err:{}", mani::error_code(&e).unwrap_or("other"))),
        Err(p) => Err(format!("panic:{}", p.replace(' ', "_"))),
    }
}

fn verify_count(ratio: u64, dir: &Path) -> Result<usize, String> {
    g(|| Manifest::verify(opts(ratio), dir).count())
}

// ---------------------------------------------------------------------------------------------
// directory plumbing

fn backup_id(name: &str) -> Option<u64> {
    name.strip_prefix("MANIFEST.")?.parse().ok()
}

struct Listing {
    mani: Option<Vec<u8>>,
    tmp: Option<Vec<u8>>,
    backups: Vec<(u64, Vec<u8>)>,
}

fn list_dir(dir: &Path) -> Listing {
    let mut l = Listing { mani: None, tmp: None, backups: vec![] };
    if let Ok(rd) = std::fs::read_dir(dir) {
        for e in rd.flatten() {
            let name = e.file_name().to_string_lossy().to_string();
            let bytes = || std::fs::read(e.path()).unwrap_or_default();
            if name == "MANIFEST" {
                l.mani = Some(bytes());
            } else if name == "MANIFEST.tmp" {
                l.tmp = Some(bytes());
            } else if let Some(id) = backup_id(&name) {
                l.backups.push((id, bytes()));
            }
        }
    }
    l.backups.sort();
    l
}

fn file_tag(b: &[u8]) -> String {
    format!("{}:{:016x}", b.len(), fnv(b))
}

fn fresh(dir: &Path) {
    let _ = std::fs::remove_dir_all(dir);
    std::fs::create_dir_all(dir).unwrap();
}

fn copy_manifest_files(from: &Path, to: &Path) {
    fresh(to);
    for e in std::fs::read_dir(from).unwrap().flatten() {
        let name = e.file_name().to_string_lossy().to_string();
        if name.starts_with("MANIFEST") {
            std::fs::copy(e.path(), to.join(&name)).unwrap();
        }
    }
}

fn stale_tmp_bytes() -> Vec<u8> {
    format!("{:08x}+stale\n--------\n", crc32c::crc32c(b"+stale")).into_bytes()
}

// ---------------------------------------------------------------------------------------------
// running a history with the real code

struct StepObs {
    api: Vec<bool>,
    trouble: Option<String>, // apply/open/rollover returned an error or panicked
    mem: Option<Ref>,
    listing: Listing,
}

struct Live {
    dir: PathBuf,
    ratio: u64,
    mani: Option<Manifest>,
}

impl Live {
    fn prepare(dir: &Path, h: &Hist) {
        fresh(dir);
        if h.stale {
            std::fs::write(dir.join("MANIFEST.tmp"), stale_tmp_bytes()).unwrap();
        }
    }

    fn start(dir: &Path, h: &Hist) -> Result<Live, String> {
        Self::prepare(dir, h);
        Self::start_prepared(dir, h)
    }

    fn start_prepared(dir: &Path, h: &Hist) -> Result<Live, String> {
        let m = match g(|| Manifest::open(opts(h.ratio), dir)) {
            Ok(Ok(m)) => m,
            Ok(Err(e)) => return Err(format!("initial-open-err:{}", mani::error_code(&e).unwrap_or("other"))),
            Err(p) => return Err(format!("initial-open-panic:{}", p)),
        };
        Ok(Live { dir: dir.to_path_buf(), ratio: h.ratio, mani: Some(m) })
    }

    fn event(&mut self, ev: &Ev) -> StepObs {
        let mut api = vec![];
        let mut trouble = None;
        match ev {
            Ev::Edit(calls) => {
                let mut edit = Edit::default();
                for c in calls {
                    let r = g(|| match c {
                        Call::Add(s) => edit.add(s).is_ok(),
                        Call::Rm(s) => edit.rm(s).is_ok(),
                        Call::Info(k, s) => edit.info(*k, s).is_ok(),
                    });
                    match r {
                        Ok(b) => api.push(b),
                        Err(p) => {
                            api.push(false);
                            trouble = Some(format!("edit-panic:{}", p));
                        }
                    }
                }
                if let Some(m) = self.mani.as_mut() {
                    match g(|| m.apply(edit)) {
                        Ok(Ok(())) => {}
                        Ok(Err(e)) => trouble = Some(format!("apply-err:{}", mani::error_code(&e).unwrap_or("other"))),
                        Err(p) => trouble = Some(format!("apply-panic:{}", p)),
                    }
                }
            }
            Ev::Rollover => {
                if let Some(m) = self.mani.as_mut() {
                    match g(|| m.rollover()) {
                        Ok(Ok(())) => {}
                        Ok(Err(e)) => trouble = Some(format!("rollover-err:{}", mani::error_code(&e).unwrap_or("other"))),
                        Err(p) => trouble = Some(format!("rollover-panic:{}", p)),
                    }
                }
            }
            Ev::Reopen => {
                self.mani = None;
                match g(|| Manifest::open(opts(self.ratio), &self.dir)) {
                    Ok(Ok(m)) => self.mani = Some(m),
                    Ok(Err(e)) => trouble = Some(format!("open-err:{}", mani::error_code(&e).unwrap_or("other"))),
                    Err(p) => trouble = Some(format!("open-panic:{}", p)),
                }
            }
        }
        StepObs { api, trouble, mem: self.mani.as_ref().map(observe), listing: list_dir(&self.dir) }
    }
}

// ---------------------------------------------------------------------------------------------
// generators

const VALID_SMALL: [&str; 12] = ["a", "b", "c", "ab", "ba", "a\rb", "\r\ra", "\0", "~", " ", "+", "--------"];
const VALID_KEYS: [char; 10] = ['I', 'O', 'D', 'a', 'z', '0', '\r', '\0', ' ', '~'];

fn valid_bytes_string(rng: &mut Rng, n: usize) -> String {
    let mut v: Vec<u8> = (0..n)
        .map(|_| loop {
            let b = (rng.next() % 128) as u8;
            if b != b'\n' {
                break b;
            }
        })
        .collect();
    if v.last() == Some(&b'\r') {
        *v.last_mut().unwrap() = b'x';
    }
    String::from_utf8(v).unwrap()
}

/// one string holding every byte the writer accepts (0..=127 without `\n`), shuffled, not ending in `\r`
fn every_byte_string(rng: &mut Rng) -> String {
    let mut v: Vec<u8> = (0u8..128).filter(|b| *b != b'\n').collect();
    rng.shuffle(&mut v);
    if v.last() == Some(&b'\r') {
        v.swap(0, 126);
    }
    String::from_utf8(v).unwrap()
}

#[derive(Clone, Copy, PartialEq)]
enum Profile {
    Small,     // tiny alphabet, small ratios: a rollover at almost every edit
    Long,      // long strings, MANIFEST keeps several edits between rollovers
    Hostile,   // mostly valid plus what the reader cannot read back (D-12, D-24) and newlines
    EveryByte, // strings with all accepted bytes
}

struct Gen<'a> {
    rng: &'a mut Rng,
    profile: Profile,
    pool: Vec<String>,    // strings ever added
    removed: Vec<String>, // strings removed (re-add candidates)
}

impl<'a> Gen<'a> {
    fn valid_string(&mut self) -> String {
        match self.profile {
            Profile::Small | Profile::Hostile => self.rng.pick(&VALID_SMALL).to_string(),
            Profile::Long => {
                if !self.pool.is_empty() && self.rng.chance(1, 4) {
                    self.rng.pick(&self.pool).clone()
                } else {
                    let n = *self.rng.pick(&[1usize, 9, 40, 120, 300, 700]);
                    valid_bytes_string(self.rng, n)
                }
            }
            Profile::EveryByte => {
                if self.rng.chance(1, 2) {
                    every_byte_string(self.rng)
                } else {
                    let n = self.rng.range(1, 6) as usize;
                    valid_bytes_string(self.rng, n)
                }
            }
        }
    }
    fn hostile_string(&mut self) -> String {
        match self.rng.below(6) {
            0 => String::new(),
            1 => "é".into(),
            2 => "a\r".into(),
            3 => "a\nb".into(),
            4 => "\r".into(),
            _ => "x😀".into(),
        }
    }
    fn string(&mut self) -> String {
        if self.profile == Profile::Hostile && self.rng.chance(1, 5) {
            self.hostile_string()
        } else {
            self.valid_string()
        }
    }
    fn key(&mut self) -> char {
        if self.profile == Profile::Hostile && self.rng.chance(1, 4) {
            *self.rng.pick(&['+', '-', 'é', '\n', '€'])
        } else {
            *self.rng.pick(&VALID_KEYS)
        }
    }
    fn edit(&mut self) -> Vec<Call> {
        let n = match self.rng.below(8) {
            0 => 0, // empty edit
            1 | 2 | 3 => 1,
            4 | 5 => 2,
            6 => 3,
            _ => 5,
        };
        let mut cs = vec![];
        for _ in 0..n {
            match self.rng.below(10) {
                0..=4 => {
                    // re-add something removed earlier, or a (possibly present) string
                    let s = if !self.removed.is_empty() && self.rng.chance(1, 3) {
                        self.rng.pick(&self.removed).clone()
                    } else {
                        self.string()
                    };
                    self.pool.push(s.clone());
                    cs.push(Call::Add(s));
                }
                5..=7 => {
                    let s = if !self.pool.is_empty() && self.rng.chance(4, 5) {
                        self.rng.pick(&self.pool).clone()
                    } else {
                        self.string()
                    };
                    self.removed.push(s.clone());
                    cs.push(Call::Rm(s));
                }
                _ => {
                    let k = self.key();
                    let s = self.string();
                    cs.push(Call::Info(k, s));
                }
            }
        }
        cs
    }
}

fn gen_hist(rng: &mut Rng, profile: Profile, max_events: u64, allow_reopen: bool) -> Hist {
    let ratio = match profile {
        Profile::Small => *rng.pick(&[0u64, 1, 2, 3]),
        Profile::Long => *rng.pick(&[1u64, 2, 3, 5, 1000]),
        Profile::Hostile => *rng.pick(&[0u64, 2, 5, 1000]),
        Profile::EveryByte => *rng.pick(&[1u64, 2, 4]),
    };
    let stale = rng.chance(1, 5);
    let n = rng.range(1, max_events);
    let mut gen = Gen { rng, profile, pool: vec![], removed: vec![] };
    let mut evs = vec![];
    let mut edits = 0;
    for _ in 0..n {
        let r = gen.rng.below(12);
        if allow_reopen && r == 0 {
            evs.push(Ev::Reopen);
        } else if allow_reopen && r == 1 && edits > 0 {
            evs.push(Ev::Rollover);
        } else {
            evs.push(Ev::Edit(gen.edit()));
            edits += 1;
        }
    }
    Hist { ratio, stale, evs }
}

/// the known defects' minimal inputs, always present (stream 0)
fn probes() -> Vec<Hist> {
    let e = |cs: Vec<Call>| Ev::Edit(cs);
    let a = |s: &str| Call::Add(s.to_string());
    let h = |evs: Vec<Ev>| Hist { ratio: 2, stale: false, evs };
    vec![
        h(vec![e(vec![a("")]), Ev::Reopen]),                                   // D-12 empty
        h(vec![e(vec![a("é")]), Ev::Reopen]),                                  // D-12 non-ASCII
        h(vec![e(vec![a("a\r")]), Ev::Reopen]),                                // D-12 trailing CR
        h(vec![e(vec![a("a")]), e(vec![Call::Rm("".into())]), Ev::Reopen]),    // D-12 via rm
        h(vec![e(vec![a("a"), Call::Info('k', "".into())]), Ev::Reopen]),      // D-12 empty info value
        h(vec![e(vec![a("a"), Call::Info('+', "plus-info".into())]), Ev::Reopen]), // D-24
        h(vec![e(vec![a("a"), Call::Info('-', "a".into())]), Ev::Reopen]),     // D-24
        h(vec![e(vec![a("a"), Call::Info('é', "v".into())]), Ev::Reopen]),     // D-24 non-ASCII key
        h(vec![e(vec![a("a\nb"), Call::Info('\n', "v".into()), a("ok")]), Ev::Reopen]), // newline: always rejected
        h(vec![e(vec![a("thing one"), a("thing two")]), e(vec![Call::Rm("thing one".into())])]), // mani's own unit test
    ]
}

// ---------------------------------------------------------------------------------------------
// crash images (the op order of `_apply` and `rollover`, re-implemented; stream 4 checks it
// against the real system calls)

#[derive(Clone, Debug)]
enum Op {
    Append(Vec<u8>),
    Sync,
    Ack,
    Link,
    TmpClear,
    TmpWrite(Vec<u8>),
    TmpSync,
    Rename,
}

fn op_name(o: &Op) -> &'static str {
    match o {
        Op::Append(_) => "append",
        Op::Sync => "sync",
        Op::Ack => "ack",
        Op::Link => "link",
        Op::TmpClear => "tmpclear",
        Op::TmpWrite(_) => "tmpwrite",
        Op::TmpSync => "tmpsync",
        Op::Rename => "rename",
    }
}

#[derive(Clone, Default)]
struct F {
    durable: Vec<u8>,
    pending: Vec<u8>,
}

#[derive(Clone, Default)]
struct Img {
    mani: Option<F>,
    tmp: Option<F>,
    backups: Vec<Vec<u8>>,
    linked: bool,
}

impl Img {
    fn step(&mut self, o: &Op) {
        match o {
            Op::Append(b) => self.mani.get_or_insert_with(F::default).pending.extend_from_slice(b),
            Op::Sync => {
                if let Some(f) = self.mani.as_mut() {
                    let p = std::mem::take(&mut f.pending);
                    f.durable.extend(p);
                }
            }
            Op::Ack => {}
            Op::Link => {
                let f = self.mani.clone().unwrap_or_default();
                let mut all = f.durable;
                all.extend(f.pending);
                self.backups.push(all);
                self.linked = true;
            }
            Op::TmpClear => self.tmp = None,
            Op::TmpWrite(b) => self.tmp.get_or_insert_with(F::default).pending.extend_from_slice(b),
            Op::TmpSync => {
                if let Some(f) = self.tmp.as_mut() {
                    let p = std::mem::take(&mut f.pending);
                    f.durable.extend(p);
                }
            }
            Op::Rename => {
                if let Some(t) = self.tmp.take() {
                    self.mani = Some(t);
                    self.linked = false;
                }
            }
        }
    }
    /// persistence model (a): every completed call persists; (b): bytes not synced are lost
    fn materialise(&self, dir: &Path, model_b: bool) {
        fresh(dir);
        let content = |f: &F| {
            let mut v = f.durable.clone();
            if !model_b {
                v.extend_from_slice(&f.pending);
            }
            v
        };
        if let Some(f) = &self.mani {
            std::fs::write(dir.join("MANIFEST"), content(f)).unwrap();
        }
        if let Some(f) = &self.tmp {
            std::fs::write(dir.join("MANIFEST.tmp"), content(f)).unwrap();
        }
        let n = self.backups.len();
        for (i, b) in self.backups.iter().enumerate() {
            let p = dir.join(format!("MANIFEST.{}", i + 1));
            if self.linked && i + 1 == n && self.mani.is_some() {
                // between `link` and `rename` the newest backup IS the manifest file
                std::fs::hard_link(dir.join("MANIFEST"), p).unwrap();
            } else {
                std::fs::write(p, b).unwrap();
            }
        }
    }
}

// ---------------------------------------------------------------------------------------------
// strace

const TRACE_SET: &str = "trace=%file,write,writev,pwrite64,pwritev,pwritev2,fdatasync,fsync,sync_file_range,ftruncate,fallocate,copy_file_range,sendfile";

/// the mutating system calls on MANIFEST / MANIFEST.tmp / MANIFEST.N inside `dir`, in order
fn parse_trace(text: &str, dir: &str) -> Vec<String> {
    let mut out = vec![];
    let prefix = format!("{}/", dir);
    for line in text.lines() {
        if !line.contains(&prefix) || line.contains("LOCKFILE") {
            continue;
        }
        // "<pid> name(args) = ret"
        let rest = match line.split_once(' ') {
            Some((pid, rest)) if pid.chars().all(|c| c.is_ascii_digit()) => rest.trim_start(),
            _ => line,
        };
        let name = match rest.split_once('(') {
            Some((n, _)) => n,
            None => continue,
        };
        let failed = rest.rsplit_once(" = ").map(|(_, r)| r.trim_start().starts_with('-')).unwrap_or(true);
        if failed {
            continue;
        }
        let on_tmp = |s: &str| s.contains(&format!("{}MANIFEST.tmp", prefix));
        // the first argument (fd annotated by -y, or the first path)
        let first_arg = rest.split_once('(').map(|(_, a)| a.split(',').next().unwrap_or("")).unwrap_or("");
        let tok = match name {
            "write" => Some(if on_tmp(first_arg) { "tmpwrite" } else { "append" }.to_string()),
            "fdatasync" | "fsync" => Some(if on_tmp(first_arg) { "tmpsync" } else { "sync" }.to_string()),
            "link" | "linkat" => Some("link".to_string()),
            "unlink" | "unlinkat" => Some("unlink".to_string()),
            "rename" | "renameat" | "renameat2" => Some("rename".to_string()),
            "openat" | "open" | "statx" | "stat" | "lstat" | "newfstatat" | "fstat" | "access" | "faccessat" | "faccessat2"
            | "readlink" | "getdents64" | "mkdir" | "mkdirat" | "rmdir" | "chdir" | "execve" | "read" | "close" => None,
            other => Some(format!("other:{}", other)),
        };
        if let Some(t) = tok {
            out.push(t);
        }
    }
    out
}

fn child_main(rest: &[String]) -> ! {
    // rest = ["--child", dir, ratio, events...]
    let dir = PathBuf::from(&rest[1]);
    let h = parse_hist(&rest[2..]).expect("child: bad history");
    let mut live = Live::start_prepared(&dir, &h).expect("child: open");
    for e in &h.evs {
        let o = live.event(e);
        if o.trouble.is_some() {
            std::process::exit(3);
        }
    }
    drop(live);
    std::process::exit(0);
}

// ---------------------------------------------------------------------------------------------

fn cut_positions(rng: &mut Rng, bytes: &[u8], cap: usize) -> Vec<usize> {
    let len = bytes.len();
    if len + 1 <= cap {
        return (0..=len).collect();
    }
    let mut s: BTreeSet<usize> = BTreeSet::new();
    for i in 0..=20.min(len) {
        s.insert(i);
        s.insert(len - i);
    }
    // around every line end, and the 8/9/10-byte marks of every line
    let mut line_start = 0usize;
    for (i, b) in bytes.iter().enumerate() {
        if *b == b'\n' {
            for d in 0..3 {
                s.insert(i.saturating_sub(d));
                s.insert((i + d).min(len));
            }
            for d in 7..=10 {
                s.insert((line_start + d).min(len));
            }
            line_start = i + 1;
        }
    }
    while s.len() < cap {
        s.insert(rng.below(len as u64 + 1) as usize);
    }
    s.into_iter().take(cap.max(1) * 2).collect()
}

fn ranges_of(ps: &[usize]) -> String {
    let mut out: Vec<String> = vec![];
    let mut i = 0;
    while i < ps.len() {
        let mut j = i;
        while j + 1 < ps.len() && ps[j + 1] == ps[j] + 1 {
            j += 1;
        }
        out.push(format!("{}-{}", ps[i], ps[j]));
        i = j + 1;
    }
    out.join(",")
}

struct FileUnderCut {
    bytes: Vec<u8>,
    allowed: Vec<Ref>, // the states a prefix of this file may replay to
    what: &'static str,
}

/// child of stream 5: the same, writing `MARK b k` before and `MARK a k` after the k-th `apply`
fn child_marked(rest: &[String]) -> ! {
    // rest = ["--childm", dir, marker, ratio, events...]
    use std::io::Write as _;
    let dir = PathBuf::from(&rest[1]);
    let mut marker = std::fs::OpenOptions::new().create(true).append(true).open(&rest[2]).expect("child: marker");
    let h = parse_hist(&rest[3..]).expect("child: bad history");
    let mut live = Live::start_prepared(&dir, &h).expect("child: open");
    let mut k = 0;
    for e in &h.evs {
        let is_edit = matches!(e, Ev::Edit(_));
        if is_edit {
            marker.write_all(format!("MARK b {}\n", k).as_bytes()).unwrap();
        }
        let o = live.event(e);
        if o.trouble.is_some() {
            std::process::exit(3);
        }
        if is_edit {
            marker.write_all(format!("MARK a {}\n", k).as_bytes()).unwrap();
            k += 1;
        }
    }
    drop(live);
    std::process::exit(0);
}

/// which calls of an edit the `Edit` API accepts (no directory involved)
fn accepted_calls(cs: &[Call]) -> Vec<bool> {
    let mut edit = Edit::default();
    cs.iter()
        .map(|c| {
            g(|| match c {
                Call::Add(s) => edit.add(s).is_ok(),
                Call::Rm(s) => edit.rm(s).is_ok(),
                Call::Info(k, s) => edit.info(*k, s).is_ok(),
            })
            .unwrap_or(false)
        })
        .collect()
}

/// fingerprint of the directory a crash leaves: names, hard-link structure, surviving bytes
fn image_fingerprint(sim: &SimFs, model_b: bool) -> u64 {
    let mut buf: Vec<u8> = vec![];
    let mut first: BTreeMap<usize, usize> = BTreeMap::new();
    for (n, (p, &i)) in sim.files.iter().enumerate() {
        let canon = *first.entry(i).or_insert(n);
        let ino = &sim.inodes[i];
        let content: &[u8] = if model_b { ino.durable.as_deref().unwrap_or(&[]) } else { &ino.data };
        buf.extend_from_slice(p.as_bytes());
        buf.push(0);
        buf.extend_from_slice(&(canon as u64).to_le_bytes());
        buf.extend_from_slice(&(content.len() as u64).to_le_bytes());
        buf.extend_from_slice(content);
    }
    fnv(&buf)
}

/// is the process inside a blocking `fcntl(fd, F_SETLKW, …)`?  /proc/<pid>/syscall shows the
/// system call a sleeping process sits in (fcntl: 72 on x86_64, 25 on aarch64) and its arguments;
/// /proc/locks lists a blocked waiter as `… -> POSIX ADVISORY WRITE <pid> …`.
fn blocked_on_lock(pid: u32) -> bool {
    if let Ok(s) = std::fs::read_to_string(format!("/proc/{}/syscall", pid)) {
        let t: Vec<&str> = s.split_whitespace().collect();
        if t.len() >= 3 && (t[0] == "72" || t[0] == "25") && t[2] == format!("{:#x}", libc::F_SETLKW) {
            return true;
        }
    }
    if let Ok(s) = std::fs::read_to_string("/proc/locks") {
        let p = pid.to_string();
        for l in s.lines() {
            let t: Vec<&str> = l.split_whitespace().collect();
            if t.len() >= 6 && t[1] == "->" && t[5] == p {
                return true;
            }
        }
    }
    false
}

pub fn run(args: &Args) {
    if args.rest.first().map(|s| s.as_str()) == Some("--child") {
        child_main(&args.rest);
    }
    if args.rest.first().map(|s| s.as_str()) == Some("--childm") {
        child_marked(&args.rest);
    }
    // `Manifest::verify` prints to stdout; keep the harness quiet
    unsafe {
        let fd = libc::open(b"/dev/null\0".as_ptr() as *const libc::c_char, libc::O_WRONLY);
        if fd >= 0 {
            libc::dup2(fd, 1);
        }
    }
    let mut rec = Recorder::new(&args.out, args.only_case);
    let scratch = PathBuf::from(format!("/var/tmp/blueharness-c13-{}-{}", std::process::id(), args.seed));
    fresh(&scratch);
    let live_dir = scratch.join("live");
    let copy_dir = scratch.join("copy");

    let (n_hist, n_crash, n_trace, cut_cap, cut_every) = if args.thorough { (900u64, 400u64, 40u64, 1200usize, 3u64) } else { (150, 60, 6, 260, 3) };

    // ---- streams 0/1 (step) and 2 (cuts) ------------------------------------------------------
    let probe_list = probes();
    let total = probe_list.len() as u64 + n_hist;
    for hi in 0..total {
        let mut rng = Rng::for_case(args.seed, 1, hi);
        let (h, profile_name) = if (hi as usize) < probe_list.len() {
            (probe_list[hi as usize].clone(), "probe")
        } else {
            let (p, name) = match hi % 8 {
                0 | 1 | 2 => (Profile::Small, "small"),
                3 | 4 => (Profile::Long, "long"),
                5 | 6 => (Profile::Hostile, "hostile"),
                _ => (Profile::EveryByte, "everybyte"),
            };
            let max_ev = if args.thorough { 14 } else { 10 };
            (gen_hist(&mut rng, p, max_ev, true), name)
        };
        rec.count(&format!("hist.{}", profile_name));
        rec.count(&format!("hist.ratio{}", h.ratio));
        let mut live = match Live::start(&live_dir, &h) {
            Ok(l) => l,
            Err(t) => {
                if rec.wants() {
                    rec.case(&format!("mani step {}", hist_toks(&h, 0)), &t, Verdict::Fail { class: "initial-open".into(), detail: t.clone() }, None);
                } else {
                    rec.skip();
                }
                continue;
            }
        };
        let mut reference = Ref::default();
        let mut ref_states: Vec<Ref> = vec![Ref::default()]; // after k edits
        let mut mani_base = 0usize; // MANIFEST starts with the roll-up of ref_states[mani_base] (0: starts empty)
        let mut mani_rolled = false; // whether MANIFEST's first edit is a roll-up at all
        let mut backup_cover: BTreeMap<u64, (usize, usize, bool)> = BTreeMap::new(); // id -> (base, upto, rolled)
        let mut prev_backups = 0usize;
        let mut alive = true;
        let mut last_listing: Option<Listing> = None;
        for k in 0..h.evs.len() {
            let obs = live.event(&h.evs[k]);
            let req = format!("mani step {}", hist_toks(&h, k + 1));
            rec.count("step");
            match &h.evs[k] {
                Ev::Edit(cs) => {
                    rec.count("step.edit");
                    rec.add("step.calls", cs.len() as u64);
                    if cs.is_empty() {
                        rec.count("step.empty_edit");
                    }
                    for (c, ok) in cs.iter().zip(&obs.api) {
                        if !ok {
                            rec.count("step.call_rejected");
                        }
                        if let Call::Add(s) = c {
                            if !reference.strs.contains(s.as_bytes()) && ref_states.iter().any(|r| r.strs.contains(s.as_bytes())) {
                                rec.count("step.readd_of_removed");
                            }
                        }
                    }
                    reference.apply(cs, &obs.api);
                    ref_states.push(reference.clone());
                }
                Ev::Reopen => rec.count("step.reopen"),
                Ev::Rollover => rec.count("step.explicit_rollover"),
            }
            // which edits the files cover
            if obs.listing.backups.len() > prev_backups {
                rec.count("step.rollover_happened");
                for (id, _) in &obs.listing.backups[prev_backups..] {
                    backup_cover.insert(*id, (mani_base, ref_states.len() - 1, mani_rolled));
                }
                mani_base = ref_states.len() - 1;
                mani_rolled = true;
                prev_backups = obs.listing.backups.len();
            }
            let dead = obs.trouble.is_some() || obs.mem.is_none();
            if !rec.wants() {
                rec.skip();
                last_listing = Some(obs.listing);
                if dead {
                    alive = false;
                    break;
                }
                continue;
            }
            // reopen a copy, verify the live directory
            copy_manifest_files(&live_dir, &copy_dir);
            let reopened = open_state(h.ratio, &copy_dir);
            let ver = verify_count(h.ratio, &live_dir);
            let api = if obs.api.is_empty() { "-".to_string() } else { obs.api.iter().map(|b| if *b { "ok" } else { "err" }).collect::<Vec<_>>().join(",") };
            let mem = obs.mem.as_ref().map(|r| r.render()).unwrap_or_else(|| "none".into());
            let observed = format!(
                "api={}{} mem={} M={} B[{}] L={} tmp={} open={} verify={}",
                api,
                obs.trouble.as_ref().map(|t| format!("!{}", t.replace(' ', "_"))).unwrap_or_default(),
                mem,
                obs.listing.mani.as_ref().map(|b| hex(b)).unwrap_or_else(|| "absent".into()),
                obs.listing.backups.iter().map(|(id, b)| format!("{}:{}", id, file_tag(b))).collect::<Vec<_>>().join(","),
                // the newest fragment in full (every fragment is the newest one in the step that creates it)
                obs.listing.backups.last().map(|(_, b)| hex(b)).unwrap_or_else(|| "none".into()),
                obs.listing.tmp.as_ref().map(|b| file_tag(b)).unwrap_or_else(|| "absent".into()),
                match &reopened {
                    Ok(r) => r.render(),
                    Err(e) => e.clone(),
                },
                match &ver {
                    Ok(n) => n.to_string(),
                    Err(p) => format!("panic:{}", p.replace(' ', "_")),
                }
            );
            // oracle: exactly the applied edits, in memory and after reopen; fragments chain
            let mut bad: Vec<String> = vec![];
            if let Some(t) = &obs.trouble {
                bad.push(t.clone());
            }
            if obs.mem.as_ref() != Some(&reference) {
                bad.push("in-memory state differs from the applied edits".into());
            }
            match &reopened {
                Ok(r) if *r == reference => {}
                Ok(_) => bad.push("reopen yields a different state than the applied edits".into()),
                Err(e) => bad.push(format!("reopen fails: {}", e)),
            }
            match &ver {
                Ok(0) => {}
                Ok(n) => bad.push(format!("Manifest::verify reports {} error(s)", n)),
                Err(p) => bad.push(format!("Manifest::verify panics: {}", p)),
            }
            let verdict = if bad.is_empty() { Verdict::Ok } else { Verdict::Fail { class: hist_class(&h, k + 1).into(), detail: bad.join("; ") } };
            let nt = if k >= 1 { Some(fnv(req.as_bytes())) } else { None };
            if let Some(m) = &obs.listing.mani {
                let seps = m.windows(9).filter(|w| *w == b"--------\n").count();
                if seps >= 3 {
                    rec.count("step.manifest_holds_3plus_edits");
                }
            }
            rec.case(&req, &observed, verdict, nt);
            last_listing = Some(obs.listing);
            if dead {
                alive = false;
                rec.count("hist.died_early");
                break;
            }
        }
        drop(live);

        // ---- stream 2: truncations of the final MANIFEST and of the longest fragment ------------
        if !alive || hi % cut_every != 0 && (hi as usize) >= probe_list.len() {
            continue;
        }
        let listing = match last_listing {
            Some(l) => l,
            None => continue,
        };
        let states_for = |base: usize, upto: usize, rolled: bool| -> Vec<Ref> {
            let mut v = vec![Ref::default()];
            let lo = if rolled { base } else { base + 1 };
            for i in lo..=upto {
                if i < ref_states.len() {
                    v.push(ref_states[i].clone());
                }
            }
            v
        };
        let mut files: Vec<FileUnderCut> = vec![];
        if let Some(m) = &listing.mani {
            files.push(FileUnderCut { bytes: m.clone(), allowed: states_for(mani_base, ref_states.len() - 1, mani_rolled), what: "final" });
        }
        if let Some((id, b)) = listing.backups.iter().max_by_key(|(_, b)| b.len()) {
            if let Some((base, upto, rolled)) = backup_cover.get(id) {
                files.push(FileUnderCut { bytes: b.clone(), allowed: states_for(*base, *upto, *rolled), what: "fragment" });
            }
        }
        for f in files {
            if !rec.wants() {
                rec.skip();
                continue;
            }
            let ps = cut_positions(&mut rng, &f.bytes, cut_cap);
            let req = format!("mani cuts {} {}", ranges_of(&ps), hex(&f.bytes));
            rec.count(&format!("cuts.file.{}", f.what));
            rec.add("cuts.positions", ps.len() as u64);
            if ps.len() == f.bytes.len() + 1 {
                rec.count("cuts.file.every_length");
            }
            let mut seen: Vec<Ref> = vec![];
            let mut segs: Vec<(usize, usize, String)> = vec![];
            let mut bad: Vec<String> = vec![];
            for &m in &ps {
                fresh(&copy_dir);
                std::fs::write(copy_dir.join("MANIFEST"), &f.bytes[..m]).unwrap();
                let tok = match open_state(h.ratio, &copy_dir) {
                    Ok(r) => {
                        if !f.allowed.contains(&r) {
                            bad.push(format!("cut at {}: state {} is not the state after a prefix of the edits", m, r.render()));
                        }
                        let i = match seen.iter().position(|x| *x == r) {
                            Some(i) => i,
                            None => {
                                seen.push(r);
                                seen.len() - 1
                            }
                        };
                        rec.count("cuts.result.state");
                        format!("#{}", i)
                    }
                    Err(e) if e == "err:corruption" => {
                        rec.count("cuts.result.corruption");
                        "E".to_string()
                    }
                    Err(e) => {
                        bad.push(format!("cut at {}: {}", m, e));
                        format!("X{}", e)
                    }
                };
                match segs.last_mut() {
                    Some((_, b, t)) if *t == tok && *b + 1 == m => *b = m,
                    _ => segs.push((m, m, tok)),
                }
            }
            let observed = format!(
                "{} |{}",
                segs.iter().map(|(a, b, t)| format!("{}-{}:{}", a, b, t)).collect::<Vec<_>>().join(" "),
                seen.iter().enumerate().map(|(i, r)| format!(" #{}={}", i, r.render())).collect::<String>()
            );
            let cls = hist_class(&h, h.evs.len());
            let verdict = if bad.is_empty() {
                Verdict::Ok
            } else {
                Verdict::Fail { class: if cls == "well-formed-history" { "truncation".into() } else { cls.into() }, detail: bad[..bad.len().min(3)].join("; ") }
            };
            let nt = if f.bytes.len() > 9 { Some(fnv(req.as_bytes())) } else { None };
            rec.case(&req, &observed, verdict, nt);
        }
    }

    // ---- stream 3: crash points ---------------------------------------------------------------
    let crash_dir = scratch.join("crash");
    for hi in 0..n_crash {
        let mut rng = Rng::for_case(args.seed, 3, hi);
        let profile = if hi % 3 == 2 { Profile::Long } else { Profile::Small };
        let mut h = gen_hist(&mut rng, profile, if args.thorough { 7 } else { 5 }, true);
        if profile == Profile::Long {
            h.ratio = *rng.pick(&[1u64, 2, 3]);
        }
        rec.count("crash.hist");
        // run the history once with the real code to learn the bytes of every call
        let mut live = match Live::start(&live_dir, &h) {
            Ok(l) => l,
            Err(_) => continue,
        };
        let mut ops: Vec<Op> = vec![];
        let mut prev = list_dir(&live_dir);
        let mut reference = Ref::default();
        let mut ref_states = vec![Ref::default()];
        let mut ok = true;
        for e in &h.evs {
            let obs = live.event(e);
            if obs.trouble.is_some() {
                ok = false;
                break;
            }
            let rolled = obs.listing.backups.len() > prev.backups.len();
            let old = prev.mani.clone().unwrap_or_default();
            if let Ev::Edit(cs) = e {
                reference.apply(cs, &obs.api);
                ref_states.push(reference.clone());
                let with_edit = if rolled { obs.listing.backups.last().unwrap().1.clone() } else { obs.listing.mani.clone().unwrap_or_default() };
                if with_edit.len() < old.len() || with_edit[..old.len()] != old[..] {
                    ok = false; // not an append: the step stream will have flagged it
                    break;
                }
                ops.push(Op::Append(with_edit[old.len()..].to_vec()));
                ops.push(Op::Sync);
            }
            if rolled {
                ops.push(Op::Link);
                ops.push(Op::TmpClear);
                ops.push(Op::TmpWrite(obs.listing.mani.clone().unwrap_or_default()));
                ops.push(Op::TmpSync);
                ops.push(Op::Rename);
            }
            if let Ev::Edit(_) = e {
                // `apply` returns after the rollover its write may have triggered
                ops.push(Op::Ack);
            }
            prev = obs.listing;
        }
        drop(live);
        if !ok {
            rec.count("crash.hist_skipped");
            continue;
        }
        let mut img = Img::default();
        if h.stale {
            img.tmp = Some(F { durable: stale_tmp_bytes(), pending: vec![] });
        }
        let mut acked = 0usize;
        let mut appended = 0usize;
        for n in 0..=ops.len() {
            if n > 0 {
                img.step(&ops[n - 1]);
                match &ops[n - 1] {
                    Op::Ack => acked += 1,
                    Op::Append(_) => appended += 1,
                    _ => {}
                }
            }
            let last = if n == 0 { "start" } else { op_name(&ops[n - 1]) };
            let mut variants: Vec<(&str, Img)> = vec![("w", img.clone())];
            // the next call's `open(O_CREAT)` has happened, its `write` has not
            match ops.get(n) {
                Some(Op::Append(_)) if img.mani.is_none() => {
                    let mut i2 = img.clone();
                    i2.mani = Some(F::default());
                    variants.push(("c", i2));
                }
                Some(Op::TmpWrite(_)) if img.tmp.is_none() => {
                    let mut i2 = img.clone();
                    i2.tmp = Some(F::default());
                    variants.push(("c", i2));
                }
                _ => {}
            }
            for (v, im) in variants {
                if !rec.wants() {
                    rec.skip();
                    continue;
                }
                let req = format!("mani crash {} {} {}", n, v, hist_toks(&h, h.evs.len()));
                rec.count("crash.point");
                rec.count(&format!("crash.after.{}{}", last, if v == "c" { "+create" } else { "" }));
                let in_link_window = im.linked;
                let mut parts: Vec<String> = vec![];
                let mut vers: Vec<String> = vec![];
                let mut bad: Vec<String> = vec![];
                let mut chain_bad = false;
                for model_b in [false, true] {
                    im.materialise(&crash_dir, model_b);
                    let name = if model_b { "b" } else { "a" };
                    match open_state(h.ratio, &crash_dir) {
                        Ok(r) => {
                            if !ref_states[acked..=appended].contains(&r) {
                                bad.push(format!("model ({}): reopened state {} is not the state after a prefix holding every returned edit ({}..={})", name, r.render(), acked, appended));
                            }
                            parts.push(r.render());
                        }
                        Err(e) => {
                            if e != "err:corruption" {
                                bad.push(format!("model ({}): reopen: {}", name, e));
                            }
                            parts.push(e);
                        }
                    }
                    match verify_count(h.ratio, &crash_dir) {
                        Ok(0) => vers.push("0".into()),
                        Ok(k) => {
                            chain_bad = true;
                            bad.push(format!("model ({}): state intact but Manifest::verify reports {} error(s) after the reopen", name, k));
                            vers.push(k.to_string());
                        }
                        Err(p) => {
                            bad.push(format!("model ({}): verify panics: {}", name, p));
                            vers.push("panic".into());
                        }
                    }
                }
                let observed = format!(
                    "last={}{} acked={} appended={} A={} B={} VA={} VB={}",
                    last,
                    if v == "c" { "+create" } else { "" },
                    acked,
                    appended,
                    parts[0],
                    parts[1],
                    vers[0],
                    vers[1]
                );
                let class = if in_link_window { "crash-in-rollover-after-link".to_string() } else { format!("crash-after-{}", last) };
                if chain_bad {
                    rec.count("crash.chain_broken_after_reopen");
                }
                let verdict = if bad.is_empty() { Verdict::Ok } else { Verdict::Fail { class, detail: bad.join("; ") } };
                let nt = if n >= 1 { Some(fnv(req.as_bytes())) } else { None };
                rec.case(&req, &observed, verdict, nt);
            }
        }
    }

    // ---- stream 4: the real system calls --------------------------------------------------------
    let strace_ok = std::process::Command::new("strace").arg("-V").output().map(|o| o.status.success()).unwrap_or(false);
    let exe = std::env::current_exe().unwrap();
    let trace_dir = scratch.join("trace");
    for hi in 0..n_trace {
        let mut rng = Rng::for_case(args.seed, 4, hi);
        let profile = if hi % 2 == 0 { Profile::Small } else { Profile::Long };
        let mut h = gen_hist(&mut rng, profile, 6, true);
        if hi % 3 == 0 {
            h.stale = true;
        }
        if !rec.wants() {
            rec.skip();
            continue;
        }
        let toks = hist_toks(&h, h.evs.len());
        let req = format!("mani ops {}", toks);
        if !strace_ok {
            rec.count("trace.strace_unavailable");
            rec.case(&format!("# {}", req), &format!("# {}", req), Verdict::Ok, None);
            continue;
        }
        Live::prepare(&trace_dir, &h);
        let out_file = scratch.join("trace.out");
        let mut cmd = std::process::Command::new("strace");
        cmd.args(["-f", "-y", "-s", "16", "-e", TRACE_SET, "-o"]).arg(&out_file).arg(&exe).arg("C13").arg("--child").arg(&trace_dir);
        for t in toks.split(' ') {
            cmd.arg(t);
        }
        let status = cmd.stdout(std::process::Stdio::null()).stderr(std::process::Stdio::null()).status();
        let text = std::fs::read_to_string(&out_file).unwrap_or_default();
        match status {
            Ok(s) if s.code() == Some(0) && !text.is_empty() => {
                let t = parse_trace(&text, &trace_dir.to_string_lossy());
                rec.count("trace.hist");
                rec.add("trace.syscalls", t.len() as u64);
                if t.iter().any(|x| x == "unlink") {
                    rec.count("trace.with_unlink");
                }
                let observed = if t.is_empty() { "-".to_string() } else { t.join(" ") };
                let verdict = if t.iter().any(|x| x.starts_with("other:")) {
                    Verdict::Fail { class: "unexpected-system-call".into(), detail: observed.clone() }
                } else {
                    Verdict::Ok
                };
                rec.case(&req, &observed, verdict, Some(fnv(req.as_bytes())));
            }
            _ => {
                rec.count("trace.child_failed");
                rec.case(&format!("# {}", req), &format!("# {}", req), Verdict::Ok, None);
            }
        }
    }

    // ---- stream 5: crash images from the real system-call trace --------------------------------
    let n_tcrash: u64 = if args.thorough { 160 } else { 30 };
    let tc_dir = scratch.join("tlive");
    let tc_img = scratch.join("timg");
    let marker = scratch.join("marker");
    for hi in 0..n_tcrash {
        let mut rng = Rng::for_case(args.seed, 5, hi);
        let profile = if hi % 3 == 2 { Profile::Long } else { Profile::Small };
        let mut h = gen_hist(&mut rng, profile, if args.thorough { 7 } else { 6 }, true);
        h.ratio = if profile == Profile::Long { *rng.pick(&[1u64, 2, 3]) } else { *rng.pick(&[0u64, 1, 2, 3]) };
        h.stale = hi % 4 == 1;
        if !strace_ok {
            if rec.wants() {
                rec.count("tcrash.strace_unavailable");
                let req = format!("mani crash 0 w {}", hist_toks(&h, h.evs.len()));
                rec.case(&format!("# {}", req), &format!("# {}", req), Verdict::Ok, None);
            } else {
                rec.skip();
            }
            continue;
        }
        // the oracle's own replay of the edits
        let mut reference = Ref::default();
        let mut ref_states = vec![Ref::default()];
        for e in &h.evs {
            if let Ev::Edit(cs) = e {
                let acc = accepted_calls(cs);
                reference.apply(cs, &acc);
                ref_states.push(reference.clone());
            }
        }
        // run the history once, for real, under strace
        Live::prepare(&tc_dir, &h);
        let _ = std::fs::remove_file(&marker);
        let toks = hist_toks(&h, h.evs.len());
        let out_file = scratch.join("ttrace.out");
        let mut cmd = std::process::Command::new("strace");
        cmd.args(["-f", "-o"]).arg(&out_file).args([
            "-s",
            "4000000",
            "-xx",
            "-y",
            "-e",
            "trace=openat,open,creat,write,pwrite64,fsync,fdatasync,link,linkat,rename,renameat,renameat2,unlink,unlinkat,mkdir,mkdirat,rmdir",
        ]);
        cmd.arg(&exe).arg("C13").arg("--childm").arg(&tc_dir).arg(&marker);
        for t in toks.split(' ') {
            cmd.arg(t);
        }
        let status = cmd.stdout(std::process::Stdio::null()).stderr(std::process::Stdio::null()).status();
        let text = std::fs::read_to_string(&out_file).unwrap_or_default();
        let traced_ok = matches!(&status, Ok(s) if s.code() == Some(0)) && !text.is_empty();
        if !traced_ok {
            if rec.wants() {
                rec.count("tcrash.child_failed");
                let req = format!("mani crash 0 w {}", toks);
                rec.case(&req, "traced-run-failed", Verdict::Fail { class: "traced-run-failed".into(), detail: format!("{:?}", status) }, None);
            } else {
                rec.skip();
            }
            continue;
        }
        let ops: Vec<FsOp> = fstrace::parse(&text, &tc_dir.to_string_lossy(), &marker.to_string_lossy())
            .into_iter()
            .filter(|o| match o {
                FsOp::Create { path, .. } | FsOp::Truncate { path } | FsOp::Write { path, .. } | FsOp::Sync { path } | FsOp::Unlink { path } => path.starts_with("MANIFEST"),
                FsOp::Link { from, to } | FsOp::Rename { from, to } => from.starts_with("MANIFEST") || to.starts_with("MANIFEST"),
                FsOp::Mark { .. } => true,
                _ => false,
            })
            .collect();
        rec.count("tcrash.hist");
        let mut sim = SimFs::default();
        if h.stale {
            let b = stale_tmp_bytes();
            sim.inodes.push(fstrace::Inode { data: b.clone(), durable: Some(b) });
            sim.files.insert("MANIFEST.tmp".into(), 0);
        }
        // position in the model's op list (append sync ack | link tmpclear tmpwrite tmpsync rename)
        let mut n_model = 0usize;
        let mut last = "start".to_string();
        let mut variant = "w";
        let mut pending_clear = false; // `link` seen, the look at MANIFEST.tmp not yet accounted for
        let (mut acked, mut begun, mut appended) = (0usize, 0usize, 0usize);
        let mut cache: BTreeMap<u64, (Result<Ref, String>, Result<usize, String>)> = BTreeMap::new();
        for idx in 0..=ops.len() {
            if idx > 0 {
                let op = &ops[idx - 1];
                sim.apply(op);
                variant = "w";
                match op {
                    FsOp::Mark { text } => {
                        if text.starts_with("b ") {
                            begun += 1;
                            continue; // not a call of the protocol, same image
                        } else if text.starts_with("a ") {
                            acked += 1;
                            n_model += 1;
                            last = "ack".into();
                        } else {
                            continue;
                        }
                    }
                    FsOp::Create { path, .. } => {
                        if path == "MANIFEST.tmp" && pending_clear {
                            pending_clear = false;
                            n_model += 1;
                            last = "tmpclear".into();
                        }
                        variant = "c";
                    }
                    FsOp::Unlink { path } if path == "MANIFEST.tmp" => {
                        pending_clear = false;
                        n_model += 1;
                        last = "tmpclear".into();
                    }
                    FsOp::Write { path, .. } => {
                        if path == "MANIFEST.tmp" {
                            if pending_clear {
                                pending_clear = false;
                                n_model += 1;
                            }
                            last = "tmpwrite".into();
                        } else {
                            appended += 1;
                            last = "append".into();
                        }
                        n_model += 1;
                    }
                    FsOp::Sync { path } => {
                        last = if path == "MANIFEST.tmp" { "tmpsync" } else { "sync" }.into();
                        n_model += 1;
                    }
                    FsOp::Link { .. } => {
                        pending_clear = true;
                        last = "link".into();
                        n_model += 1;
                    }
                    FsOp::Rename { .. } => {
                        last = "rename".into();
                        n_model += 1;
                    }
                    other => {
                        last = format!("other:{:?}", other).split_whitespace().next().unwrap_or("other").to_string();
                    }
                }
            }
            if !rec.wants() {
                rec.skip();
                continue;
            }
            let req = format!("mani crash {} {} {}", n_model, variant, toks);
            rec.count("tcrash.point");
            rec.count(&format!("tcrash.after.{}{}", last, if variant == "c" { "+create" } else { "" }));
            let linked = match (sim.files.get("MANIFEST"), sim.files.iter().filter(|(p, _)| backup_id(p).is_some()).max_by_key(|(p, _)| backup_id(p))) {
                (Some(m), Some((_, b))) => m == b,
                _ => false,
            };
            let mut parts: Vec<String> = vec![];
            let mut vers: Vec<String> = vec![];
            let mut bad: Vec<String> = vec![];
            for model_b in [false, true] {
                let name = if model_b { "b" } else { "a" };
                let fp = image_fingerprint(&sim, model_b);
                if !cache.contains_key(&fp) {
                    rec.count("tcrash.distinct_images_reopened");
                    let res = match sim.materialize(&tc_img.to_string_lossy(), model_b) {
                        Ok(()) => {
                            let o = open_state(h.ratio, &tc_img);
                            let v = verify_count(h.ratio, &tc_img);
                            (o, v)
                        }
                        Err(e) => (Err(format!("materialize:{}", e)), Err("materialize".into())),
                    };
                    cache.insert(fp, res);
                }
                let (o, v) = cache.get(&fp).unwrap().clone();
                let hi_k = begun.min(ref_states.len() - 1);
                match o {
                    Ok(r) => {
                        if acked > hi_k || !ref_states[acked..=hi_k].contains(&r) {
                            bad.push(format!(
                                "model ({}): after {} real calls the reopened state {} is not the state after a prefix of the edits holding every returned one ({} returned, {} begun)",
                                name,
                                ops[..idx].iter().filter(|o| o.mutating()).count(),
                                r.render(),
                                acked,
                                begun
                            ));
                        }
                        parts.push(r.render());
                    }
                    Err(e) => {
                        if e != "err:corruption" {
                            bad.push(format!("model ({}): reopen: {}", name, e));
                        }
                        parts.push(e);
                    }
                }
                match v {
                    Ok(0) => vers.push("0".into()),
                    Ok(k) => {
                        bad.push(format!("model ({}): Manifest::verify reports {} error(s) after the reopen", name, k));
                        vers.push(k.to_string());
                    }
                    Err(p) => {
                        bad.push(format!("model ({}): verify: {}", name, p));
                        vers.push("panic".into());
                    }
                }
            }
            let observed = format!(
                "last={}{} acked={} appended={} A={} B={} VA={} VB={}",
                last,
                if variant == "c" { "+create" } else { "" },
                acked,
                appended,
                parts[0],
                parts[1],
                vers[0],
                vers[1]
            );
            let class = if linked { "trace-crash-in-rollover-after-link".to_string() } else { format!("trace-crash-after-{}", last) };
            let verdict = if bad.is_empty() { Verdict::Ok } else { Verdict::Fail { class, detail: bad.join("; ") } };
            let nt = if idx >= 1 { Some(fnv(format!("t{}", req).as_bytes())) } else { None };
            rec.case(&req, &observed, verdict, nt);
        }
    }


    // ---- stream 6: a second process waits for the lock ------------------------------------------
    // The first process (this one) holds the manifest open; a second process (this binary's
    // `--child` entry: `Manifest::open` with the default options, its events, exit) is started on
    // the same directory and has to wait for LOCKFILE as the crate's own tools do; while it waits
    // the first process applies more edits — every `apply` returns — and then drops its handle;
    // the second gets the lock, opens (rolling over what it read), runs its events and exits.
    // Oracle: both processes are done; a reopen shows exactly the edits applied, in order
    // (first process before the wait, during the wait, then the second's); verify finds no error.
    let n_lock: u64 = if args.thorough { 150 } else { 30 };
    let lock_dir = scratch.join("lock");
    for hi in 0..n_lock {
        let mut rng = Rng::for_case(args.seed, 6, hi);
        if !rec.wants() {
            rec.skip();
            continue;
        }
        let mut h = gen_hist(&mut rng, if hi % 3 == 1 { Profile::Long } else { Profile::Small }, 9, true);
        for _ in 0..8 {
            if hist_class(&h, h.evs.len()) == "well-formed-history" {
                break;
            }
            h = gen_hist(&mut rng, Profile::Small, 9, true);
        }
        h.stale = false;
        let n = h.evs.len() as u64;
        let a = rng.range(0, n) as usize;
        let b = rng.range(a as u64, n) as usize;
        let pre: Vec<Ev> = h.evs[..a].to_vec();
        let mut dur: Vec<Ev> = h.evs[a..b].iter().filter(|e| !matches!(e, Ev::Reopen)).cloned().collect();
        // an explicit rollover needs a MANIFEST; at least one edit is applied during the wait
        let edited_before = pre.iter().any(|e| matches!(e, Ev::Edit(_)));
        if !edited_before {
            while matches!(dur.first(), Some(Ev::Rollover)) {
                dur.remove(0);
            }
        }
        if !dur.iter().any(|e| matches!(e, Ev::Edit(_))) {
            dur.push(Ev::Edit(vec![Call::Add(format!("during{}", hi)), Call::Info('v', format!("{}", hi))]));
        }
        let second: Vec<Ev> = h.evs[b..].to_vec();
        let toks = |evs: &[Ev]| evs.iter().map(ev_tok).collect::<Vec<_>>().join(" ");
        let req = format!("mani lock {} {} / {} / {}", h.ratio, toks(&pre), toks(&dur), toks(&second)).split_whitespace().collect::<Vec<_>>().join(" ");
        rec.count("lock.case");
        let class = || hist_class(&h, h.evs.len()).to_string();
        let mut reference = Ref::default();
        let mut bad: Vec<String> = vec![];
        let mut live = match Live::start(&lock_dir, &Hist { ratio: h.ratio, stale: false, evs: vec![] }) {
            Ok(l) => l,
            Err(t) => {
                rec.case(&req, &t, Verdict::Fail { class: "initial-open".into(), detail: t.clone() }, None);
                continue;
            }
        };
        for e in &pre {
            let obs = live.event(e);
            if let Some(t) = obs.trouble {
                bad.push(format!("first process, before the wait: {}", t));
            }
            if let Ev::Edit(cs) = e {
                reference.apply(cs, &obs.api);
            }
        }
        // the second process
        let mut cmd = std::process::Command::new(&exe);
        cmd.arg("C13").arg("--child").arg(&lock_dir).arg(h.ratio.to_string());
        for e in &second {
            cmd.arg(ev_tok(e));
        }
        let mut child = match cmd.stdin(std::process::Stdio::null()).stdout(std::process::Stdio::null()).stderr(std::process::Stdio::null()).spawn() {
            Ok(c) => c,
            Err(e) => {
                rec.case(&format!("# {}", req), "#", Verdict::Fail { class: "second-process-did-not-start".into(), detail: e.to_string() }, None);
                continue;
            }
        };
        // wait until it sits in fcntl(F_SETLKW) on the lock this process holds
        let t0 = std::time::Instant::now();
        let mut waiting = false;
        let mut exited = None;
        while t0.elapsed() < std::time::Duration::from_secs(30) {
            if blocked_on_lock(child.id()) {
                waiting = true;
                break;
            }
            if let Ok(Some(st)) = child.try_wait() {
                exited = Some(st);
                break;
            }
            std::thread::sleep(std::time::Duration::from_micros(500));
        }
        if !waiting {
            let _ = child.kill();
            let _ = child.wait();
            drop(live);
            rec.count("lock.second_process_not_seen_waiting");
            rec.case(&format!("# {}", req), "#", Verdict::Fail { class: "second-process-did-not-wait-for-lock".into(), detail: format!("exit {:?} after {:?}", exited, t0.elapsed()) }, None);
            continue;
        }
        rec.count("lock.second_process_waited");
        for e in &dur {
            let obs = live.event(e);
            if let Some(t) = obs.trouble {
                bad.push(format!("first process, during the wait: {}", t));
            }
            if let Ev::Edit(cs) = e {
                rec.count("lock.edits_applied_during_the_wait");
                reference.apply(cs, &obs.api);
            }
        }
        drop(live);
        let t1 = std::time::Instant::now();
        let mut code = None;
        while t1.elapsed() < std::time::Duration::from_secs(60) {
            if let Ok(Some(st)) = child.try_wait() {
                code = Some(st.code().unwrap_or(-1));
                break;
            }
            std::thread::sleep(std::time::Duration::from_micros(500));
        }
        if code.is_none() {
            let _ = child.kill();
            let _ = child.wait();
        }
        for e in &second {
            if let Ev::Edit(cs) = e {
                reference.apply(cs, &accepted_calls(cs));
            }
        }
        match code {
            Some(0) => {}
            Some(c) => bad.push(format!("the second process exits with {}", c)),
            None => bad.push("the second process does not finish once the lock is free".into()),
        }
        copy_manifest_files(&lock_dir, &copy_dir);
        let reopened = open_state(h.ratio, &copy_dir);
        let ver = verify_count(h.ratio, &lock_dir);
        match &reopened {
            Ok(r) if *r == reference => {}
            Ok(r) => bad.push(format!("after both processes are done a reopen shows {} — the edits applied, in order, give {}", r.render(), reference.render())),
            Err(e) => bad.push(format!("reopen fails: {}", e)),
        }
        match &ver {
            Ok(0) => {}
            Ok(n) => bad.push(format!("Manifest::verify reports {} error(s)", n)),
            Err(p) => bad.push(format!("Manifest::verify panics: {}", p)),
        }
        let observed = format!(
            "open={} verify={}",
            match &reopened {
                Ok(r) => r.render(),
                Err(e) => e.clone(),
            },
            match &ver {
                Ok(n) => n.to_string(),
                Err(p) => format!("panic:{}", p.replace(' ', "_")),
            }
        );
        let verdict = if bad.is_empty() {
            Verdict::Ok
        } else {
            let c = class();
            Verdict::Fail { class: if c == "well-formed-history" { "edits-lost-to-waiting-opener".into() } else { c }, detail: bad.join("; ") }
        };
        rec.case(&req, &observed, verdict, Some(fnv(req.as_bytes())));
    }

    let _ = std::fs::remove_dir_all(&scratch);
    rec.finish(
        "histories of manifest edits (adds, removes, info updates, empty edits, re-adds of removed strings, every accepted byte, long strings; ratios 0..1000; reopens, explicit rollovers, a stale MANIFEST.tmp) run with the real mani::Manifest: one case per event (directory bytes, in-memory state, reopen of a copy, verify), per truncated file (all or a capped set of lengths, each reopened), per crash point x {completed calls persist, unsynced bytes lost} (image rebuilt, reopened, verified), per strace'd run, per two-process run (a second process — this binary's child entry — calls Manifest::open while this one holds the lock, waits in fcntl(F_SETLKW), the holder applies more edits and lets go; a reopen after both are done must show exactly the edits applied, against Blue.ManiLock.waiterOpen read under the lock), and per prefix of the REAL system-call trace of a history (strace -f -xx -y of a re-exec'd child; image rebuilt from the traced calls under both persistence models, distinct images reopened and verified — the oracle's crash input); non-trivial = a step after >= 2 events, a cut file longer than one line, a crash point after >= 1 call, any traced run; distinct by request text",
        &[],
    );
}
