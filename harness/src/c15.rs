//! C15 — protobuf codec (buffertk v64 / prototk / prototk_derive): correspondence with the Lean
//! schema interpreter + round-trip / standard-encoding / no-panic / unknown-field oracles.
#![allow(dead_code)]
use crate::common::*;
use buffertk::{stack_pack, v64, Packable, Unpackable};
use prototk::SError;

// ------------------------------------------------------------------------------------------------
// schema and value trees (what is sent to the model driver)
// ------------------------------------------------------------------------------------------------

#[derive(Clone, Debug, PartialEq)]
pub enum V {
    I(i128),
    X(Vec<u8>),
    N,
    S(Box<V>),
    L(Vec<V>),
    M(Vec<V>),
    Var(usize, Box<V>),
}

impl V {
    fn toks(&self, out: &mut Vec<String>) {
        match self {
            V::I(i) => out.push(format!("i{}", i)),
            V::X(b) => out.push(format!("x{}", hex(b))),
            V::N => out.push("n".into()),
            V::S(v) => {
                out.push("s".into());
                v.toks(out)
            }
            V::L(vs) => {
                out.push("l".into());
                out.push(vs.len().to_string());
                vs.iter().for_each(|v| v.toks(out))
            }
            V::M(vs) => {
                out.push("m".into());
                out.push(vs.len().to_string());
                vs.iter().for_each(|v| v.toks(out))
            }
            V::Var(i, v) => {
                out.push("v".into());
                out.push(i.to_string());
                v.toks(out)
            }
        }
    }
    pub fn show(&self) -> String {
        let mut o = vec![];
        self.toks(&mut o);
        o.join(" ")
    }
}

#[derive(Clone, Debug)]
pub enum Ty {
    Sc(&'static str),
    M(Box<Sch>),
}
#[derive(Clone, Debug)]
pub struct Fld {
    num: u32,
    card: char,
    ty: Ty,
}
#[derive(Clone, Debug)]
pub enum Variant {
    U(u32),
    T(u32, Ty),
    N(u32, Vec<Fld>),
}
#[derive(Clone, Debug)]
pub enum Sch {
    S(Vec<Fld>),
    E(Vec<Variant>, V),
    R(Box<Sch>, Box<Sch>, V),
}

impl Ty {
    fn toks(&self, o: &mut Vec<String>) {
        match self {
            Ty::Sc(n) => o.push(n.to_string()),
            Ty::M(s) => {
                o.push("M".into());
                s.toks(o)
            }
        }
    }
    fn has_float(&self) -> bool {
        match self {
            Ty::Sc(n) => *n == "float",
            Ty::M(s) => s.has_float(),
        }
    }
}
impl Fld {
    fn toks(&self, o: &mut Vec<String>) {
        o.push(self.num.to_string());
        o.push(self.card.to_string());
        self.ty.toks(o)
    }
}
impl Sch {
    fn toks(&self, o: &mut Vec<String>) {
        match self {
            Sch::S(fs) => {
                o.push("S".into());
                o.push(fs.len().to_string());
                fs.iter().for_each(|f| f.toks(o))
            }
            Sch::E(vs, d) => {
                o.push("E".into());
                o.push(vs.len().to_string());
                for v in vs {
                    match v {
                        Variant::U(n) => {
                            o.push("U".into());
                            o.push(n.to_string())
                        }
                        Variant::T(n, ty) => {
                            o.push("T".into());
                            o.push(n.to_string());
                            ty.toks(o)
                        }
                        Variant::N(n, fs) => {
                            o.push("N".into());
                            o.push(n.to_string());
                            o.push(fs.len().to_string());
                            fs.iter().for_each(|f| f.toks(o))
                        }
                    }
                }
                d.toks(o)
            }
            Sch::R(a, b, d) => {
                o.push("R".into());
                a.toks(o);
                b.toks(o);
                d.toks(o)
            }
        }
    }
    pub fn show(&self) -> String {
        let mut o = vec![];
        self.toks(&mut o);
        o.join(" ")
    }
    fn has_float(&self) -> bool {
        match self {
            Sch::S(fs) => fs.iter().any(|f| f.ty.has_float()),
            Sch::E(vs, _) => vs.iter().any(|v| match v {
                Variant::U(_) => false,
                Variant::T(_, t) => t.has_float(),
                Variant::N(_, fs) => fs.iter().any(|f| f.ty.has_float()),
            }),
            Sch::R(a, b, _) => a.has_float() || b.has_float(),
        }
    }
}

// ------------------------------------------------------------------------------------------------
// generation context
// ------------------------------------------------------------------------------------------------

pub struct G {
    pub rng: Rng,
    /// when set, every integer leaf takes this bit pattern (`as` its type), every float these bits
    pub force: Option<u64>,
    pub depth: u32,
}

fn boundary_u64(rng: &mut Rng) -> u64 {
    match rng.below(8) {
        0 => 0,
        1 => 1,
        2 => u64::MAX,
        3 => {
            let k = rng.below(64);
            (1u64 << k).wrapping_sub(1)
        }
        4 => 1u64 << rng.below(64),
        5 => (1u64 << rng.below(64)).wrapping_add(1),
        6 => rng.below(300),
        _ => rng.next(),
    }
}

fn boundary_i64(rng: &mut Rng) -> i64 {
    match rng.below(8) {
        0 => 0,
        1 => -1,
        2 => i64::MIN,
        3 => i64::MAX,
        4 => {
            let k = rng.below(63);
            let v = 1i64 << k;
            if rng.chance(1, 2) { v } else { -v }
        }
        5 => {
            let k = rng.below(63);
            let v = (1i64 << k) - 1 + rng.below(3) as i64;
            if rng.chance(1, 2) { v } else { v.wrapping_neg() }
        }
        6 => rng.below(300) as i64 - 150,
        _ => rng.next() as i64,
    }
}

const F32_SPECIAL: [u32; 14] = [
    0x0000_0000, 0x8000_0000, 0x7f80_0000, 0xff80_0000, 0x7fc0_0000, 0xffc0_0000, 0x7f80_0001, 0x7fff_ffff,
    0x0000_0001, 0x0080_0000, 0x7f7f_ffff, 0x3f80_0000, 0xbf80_0000, 0x007f_ffff,
];
const F64_SPECIAL: [u64; 14] = [
    0x0000_0000_0000_0000, 0x8000_0000_0000_0000, 0x7ff0_0000_0000_0000, 0xfff0_0000_0000_0000,
    0x7ff8_0000_0000_0000, 0xfff8_0000_0000_0000, 0x7ff0_0000_0000_0001, 0x7fff_ffff_ffff_ffff,
    0x0000_0000_0000_0001, 0x0010_0000_0000_0000, 0x7fef_ffff_ffff_ffff, 0x3ff0_0000_0000_0000,
    0xbff0_0000_0000_0000, 0x000f_ffff_ffff_ffff,
];

fn gen_bytes(rng: &mut Rng) -> Vec<u8> {
    let n = match rng.below(10) {
        0 | 1 => 0,
        2 => 1,
        3 => 127,
        4 => 128,
        5 => 300,
        _ => rng.below(12) as usize,
    };
    match rng.below(3) {
        0 => vec![rng.next() as u8; n],
        _ => rng.bytes(n),
    }
}

fn gen_string(rng: &mut Rng) -> String {
    let n = match rng.below(10) {
        0 | 1 => 0,
        2 => 127,
        3 => 128,
        _ => rng.below(10) as usize,
    };
    let alphabet: [char; 10] = ['a', 'Z', '0', ' ', '\u{0}', '\u{7f}', '\u{80}', '\u{7ff}', '\u{ffff}', '\u{1F600}'];
    let mut s = String::new();
    while s.len() < n {
        s.push(*rng.pick(&alphabet));
    }
    s
}

// ------------------------------------------------------------------------------------------------
// leaves and slots
// ------------------------------------------------------------------------------------------------

pub trait Leaf: Sized {
    fn ty(attr: &'static str) -> Ty;
    fn val(&self) -> V;
    fn gen(g: &mut G) -> Self;
    fn dflt() -> Self;
}

pub trait Slot: Sized {
    const CARD: char;
    fn ty(attr: &'static str) -> Ty;
    fn val(&self) -> V;
    fn gen(g: &mut G) -> Self;
    fn dflt() -> Self;
}

macro_rules! int_leaf {
    ($t:ty, $signed:expr) => {
        impl Leaf for $t {
            fn ty(attr: &'static str) -> Ty {
                Ty::Sc(attr)
            }
            fn val(&self) -> V {
                V::I(*self as i128)
            }
            fn gen(g: &mut G) -> Self {
                if let Some(p) = g.force {
                    return p as $t;
                }
                if $signed {
                    let x = boundary_i64(&mut g.rng);
                    if g.rng.chance(1, 2) { x as $t } else { (x as $t) >> (g.rng.below(8) as u32) }
                } else {
                    let x = boundary_u64(&mut g.rng);
                    if g.rng.chance(1, 2) { x as $t } else { (x as $t) >> (g.rng.below(8) as u32) }
                }
            }
            fn dflt() -> Self {
                0
            }
        }
    };
}
int_leaf!(u64, false);
int_leaf!(u32, false);
int_leaf!(usize, false);
int_leaf!(i64, true);
int_leaf!(i32, true);

impl Leaf for bool {
    fn ty(attr: &'static str) -> Ty {
        Ty::Sc(attr)
    }
    fn val(&self) -> V {
        V::I(*self as i128)
    }
    fn gen(g: &mut G) -> Self {
        if let Some(p) = g.force {
            return p & 1 == 1;
        }
        g.rng.chance(1, 2)
    }
    fn dflt() -> Self {
        false
    }
}
impl Leaf for f32 {
    fn ty(attr: &'static str) -> Ty {
        Ty::Sc(attr)
    }
    fn val(&self) -> V {
        V::I(self.to_bits() as i128)
    }
    fn gen(g: &mut G) -> Self {
        if let Some(p) = g.force {
            return f32::from_bits(F32_SPECIAL[(p % 14) as usize]);
        }
        if g.rng.chance(1, 2) { f32::from_bits(*g.rng.pick(&F32_SPECIAL)) } else { f32::from_bits(g.rng.next() as u32) }
    }
    fn dflt() -> Self {
        0.0
    }
}
impl Leaf for f64 {
    fn ty(attr: &'static str) -> Ty {
        Ty::Sc(attr)
    }
    fn val(&self) -> V {
        V::I(self.to_bits() as i128)
    }
    fn gen(g: &mut G) -> Self {
        if let Some(p) = g.force {
            return f64::from_bits(F64_SPECIAL[(p % 14) as usize]);
        }
        if g.rng.chance(1, 2) { f64::from_bits(*g.rng.pick(&F64_SPECIAL)) } else { f64::from_bits(g.rng.next()) }
    }
    fn dflt() -> Self {
        0.0
    }
}
impl Leaf for Vec<u8> {
    fn ty(attr: &'static str) -> Ty {
        Ty::Sc(attr)
    }
    fn val(&self) -> V {
        V::X(self.clone())
    }
    fn gen(g: &mut G) -> Self {
        gen_bytes(&mut g.rng)
    }
    fn dflt() -> Self {
        vec![]
    }
}
impl Leaf for String {
    fn ty(attr: &'static str) -> Ty {
        Ty::Sc(attr)
    }
    fn val(&self) -> V {
        V::X(self.as_bytes().to_vec())
    }
    fn gen(g: &mut G) -> Self {
        gen_string(&mut g.rng)
    }
    fn dflt() -> Self {
        String::new()
    }
}
macro_rules! arr_leaf {
    ($n:expr) => {
        impl Leaf for [u8; $n] {
            fn ty(attr: &'static str) -> Ty {
                Ty::Sc(attr)
            }
            fn val(&self) -> V {
                V::X(self.to_vec())
            }
            fn gen(g: &mut G) -> Self {
                let mut a = [0u8; $n];
                match g.rng.below(3) {
                    0 => {}
                    1 => a = [0xff; $n],
                    _ => {
                        let b = g.rng.bytes($n);
                        a.copy_from_slice(&b)
                    }
                }
                a
            }
            fn dflt() -> Self {
                [0u8; $n]
            }
        }
    };
}
arr_leaf!(16);
arr_leaf!(32);
arr_leaf!(64);

macro_rules! plain_slot {
    ($($t:ty),*) => {$(
        impl Slot for $t {
            const CARD: char = '1';
            fn ty(attr: &'static str) -> Ty { <$t as Leaf>::ty(attr) }
            fn val(&self) -> V { Leaf::val(self) }
            fn gen(g: &mut G) -> Self { <$t as Leaf>::gen(g) }
            fn dflt() -> Self { <$t as Leaf>::dflt() }
        }
    )*};
}
plain_slot!(u64, u32, usize, i64, i32, bool, f32, f64, Vec<u8>, String, [u8; 16], [u8; 32], [u8; 64]);

impl<T: Leaf> Slot for Option<T> {
    const CARD: char = '?';
    fn ty(attr: &'static str) -> Ty {
        T::ty(attr)
    }
    fn val(&self) -> V {
        match self {
            None => V::N,
            Some(x) => V::S(Box::new(x.val())),
        }
    }
    fn gen(g: &mut G) -> Self {
        if g.rng.chance(1, 3) { None } else { Some(T::gen(g)) }
    }
    fn dflt() -> Self {
        None
    }
}
impl<T: Leaf> Slot for Vec<T> {
    const CARD: char = '*';
    fn ty(attr: &'static str) -> Ty {
        T::ty(attr)
    }
    fn val(&self) -> V {
        V::L(self.iter().map(|x| x.val()).collect())
    }
    fn gen(g: &mut G) -> Self {
        let n = match g.rng.below(6) {
            0 | 1 => 0,
            2 => 1,
            _ => g.rng.below(4) as usize,
        };
        (0..n).map(|_| T::gen(g)).collect()
    }
    fn dflt() -> Self {
        vec![]
    }
}
impl<T: Leaf> Slot for Box<T> {
    const CARD: char = '1';
    fn ty(attr: &'static str) -> Ty {
        T::ty(attr)
    }
    fn val(&self) -> V {
        (**self).val()
    }
    fn gen(g: &mut G) -> Self {
        Box::new(T::gen(g))
    }
    fn dflt() -> Self {
        Box::new(T::dflt())
    }
}

/// a message type of the family
pub trait Fam: Sized + Clone + std::fmt::Debug {
    const NAME: &'static str;
    fn sch() -> Sch;
    fn mval(&self) -> V;
    fn mgen(g: &mut G) -> Self;
    fn mdflt() -> Self;
    /// real `stack_pack(v).to_vec()`, `pack_sz()`, `stream()`
    fn pack_obs(&self) -> (Vec<u8>, usize, Vec<u8>);
    /// real `Unpackable::unpack`: rendered value + unconsumed length, or the error code
    fn unpack_obs(buf: &[u8]) -> Result<(V, usize), String>;
}

fn code_of(e: &SError) -> String {
    prototk::error_code(e).unwrap_or("no-code").to_string()
}

macro_rules! fam_leaf {
    ($($t:ty),*) => {$(
        impl Leaf for $t {
            fn ty(_attr: &'static str) -> Ty { Ty::M(Box::new(<$t as Fam>::sch())) }
            fn val(&self) -> V { self.mval() }
            fn gen(g: &mut G) -> Self { g.depth += 1; let r = <$t as Fam>::mgen(g); g.depth -= 1; r }
            fn dflt() -> Self { <$t as Fam>::mdflt() }
        }
        impl Slot for $t {
            const CARD: char = '1';
            fn ty(attr: &'static str) -> Ty { <$t as Leaf>::ty(attr) }
            fn val(&self) -> V { Leaf::val(self) }
            fn gen(g: &mut G) -> Self { <$t as Leaf>::gen(g) }
            fn dflt() -> Self { <$t as Leaf>::dflt() }
        }
    )*};
}

macro_rules! fam_obs {
    () => {
        fn pack_obs(&self) -> (Vec<u8>, usize, Vec<u8>) {
            let bytes = stack_pack(self).to_vec();
            let sz = Packable::pack_sz(self);
            let mut w: Vec<u8> = vec![];
            let _ = stack_pack(self).stream(&mut w);
            (bytes, sz, w)
        }
        fn unpack_obs(buf: &[u8]) -> Result<(V, usize), String> {
            match <Self as Unpackable>::unpack(buf) {
                Ok((v, rest)) => Ok((v.mval(), rest.len())),
                Err(e) => {
                    let e: SError = e.into();
                    Err(code_of(&e))
                }
            }
        }
    };
}

macro_rules! fam_struct {
    ($name:ident { $( $num:tt $fty:ident $field:ident : [ $($rty:tt)* ] ),* $(,)? }) => {
        #[derive(Clone, Debug, PartialEq, prototk_derive::Message)]
        pub struct $name { $( #[prototk($num, $fty)] pub $field: $($rty)* ),* }
        impl Default for $name {
            fn default() -> Self { $name { $( $field: <$($rty)* as Slot>::dflt() ),* } }
        }
        impl Fam for $name {
            const NAME: &'static str = stringify!($name);
            fn sch() -> Sch {
                Sch::S(vec![ $( Fld { num: $num, card: <$($rty)* as Slot>::CARD, ty: <$($rty)* as Slot>::ty(stringify!($fty)) } ),* ])
            }
            fn mval(&self) -> V { V::M(vec![ $( Slot::val(&self.$field) ),* ]) }
            fn mgen(g: &mut G) -> Self { let _ = &g; $name { $( $field: <$($rty)* as Slot>::gen(g) ),* } }
            fn mdflt() -> Self { Self::default() }
            fam_obs!();
        }
        fam_leaf!($name);
    };
}

// ------------------------------------------------------------------------------------------------
// the family
// ------------------------------------------------------------------------------------------------

fam_struct!(Ints { 1 int32 a: [i32], 2 int64 b: [i64], 3 uint32 c: [u32], 4 uint64 d: [u64], 5 sint32 e: [i32], 6 sint64 f: [i64], 7 Bool g: [bool], 8 fixed32 h: [u32], 9 fixed64 i: [u64], 10 sfixed32 j: [i32], 11 sfixed64 k: [i64], 12 uint64 l: [usize], 13 uint64 m: [Box<u64>] });

fam_struct!(Floats { 1 float a: [f32], 2 double b: [f64], 3 float c: [Option<f32>], 4 double d: [Vec<f64>], 5 float e: [Vec<f32>], 6 uint64 t: [u64] });

fam_struct!(Doubles { 1 double a: [f64], 2 double b: [Option<f64>], 3 double c: [Vec<f64>] });

fam_struct!(Blobs { 1 bytes a: [Vec<u8>], 2 string b: [String], 3 bytes16 c: [[u8; 16]], 4 bytes32 d: [[u8; 32]], 5 bytes64 e: [[u8; 64]] });

fam_struct!(Inner { 1 uint64 x: [u64], 2 sint32 y: [i32], 3 string s: [String] });

fam_struct!(ErrMsg { 1 uint64 code: [u64], 2 string what: [String] });

impl From<SError> for ErrMsg {
    fn from(e: SError) -> Self {
        ErrMsg { code: 0, what: code_of(&e) }
    }
}
impl From<ErrMsg> for SError {
    fn from(e: ErrMsg) -> Self {
        SError::new("harness").with_code(&e.what)
    }
}

#[derive(Clone, Debug, Default, PartialEq, prototk_derive::Message)]
pub enum Choice2 {
    #[prototk(1, message)]
    #[default]
    A,
    #[prototk(2, uint64)]
    B(u64),
    #[prototk(3, message)]
    C {
        #[prototk(1, string)]
        s: String,
    },
}

impl Fam for Choice2 {
    const NAME: &'static str = "Choice2";
    fn sch() -> Sch {
        Sch::E(
            vec![
                Variant::U(1),
                Variant::T(2, Ty::Sc("uint64")),
                Variant::N(3, vec![Fld { num: 1, card: '1', ty: Ty::Sc("string") }]),
            ],
            V::Var(0, Box::new(V::M(vec![]))),
        )
    }
    fn mval(&self) -> V {
        match self {
            Choice2::A => V::Var(0, Box::new(V::M(vec![]))),
            Choice2::B(x) => V::Var(1, Box::new(Leaf::val(x))),
            Choice2::C { s } => V::Var(2, Box::new(V::M(vec![Leaf::val(s)]))),
        }
    }
    fn mgen(g: &mut G) -> Self {
        match g.rng.below(3) {
            0 => Choice2::A,
            1 => Choice2::B(<u64 as Leaf>::gen(g)),
            _ => Choice2::C { s: <String as Leaf>::gen(g) },
        }
    }
    fn mdflt() -> Self {
        Self::default()
    }
    fam_obs!();
}
fam_leaf!(Choice2);

#[derive(Clone, Debug, Default, PartialEq, prototk_derive::Message)]
pub enum Choice {
    #[prototk(1, message)]
    #[default]
    Nop,
    #[prototk(2, uint64)]
    U(u64),
    #[prototk(3, sint64)]
    S(i64),
    #[prototk(4, string)]
    T(String),
    #[prototk(5, message)]
    M(Inner),
    #[prototk(6, message)]
    Pt {
        #[prototk(1, uint64)]
        x: u64,
        #[prototk(2, sint32)]
        y: i32,
        #[prototk(3, message)]
        o: Option<Inner>,
        #[prototk(4, fixed32)]
        r: Vec<u32>,
    },
    #[prototk(7, fixed32)]
    F(u32),
    #[prototk(8, double)]
    D(f64),
    #[prototk(9, bytes)]
    B(Vec<u8>),
    #[prototk(10, message)]
    Sub(Choice2),
    #[prototk(11, int32)]
    I(i32),
    #[prototk(12, sfixed64)]
    G(i64),
    #[prototk(13, bytes16)]
    H([u8; 16]),
    #[prototk(14, Bool)]
    Y(bool),
}

impl Fam for Choice {
    const NAME: &'static str = "Choice";
    fn sch() -> Sch {
        Sch::E(
            vec![
                Variant::U(1),
                Variant::T(2, Ty::Sc("uint64")),
                Variant::T(3, Ty::Sc("sint64")),
                Variant::T(4, Ty::Sc("string")),
                Variant::T(5, <Inner as Leaf>::ty("message")),
                Variant::N(
                    6,
                    vec![
                        Fld { num: 1, card: '1', ty: Ty::Sc("uint64") },
                        Fld { num: 2, card: '1', ty: Ty::Sc("sint32") },
                        Fld { num: 3, card: '?', ty: <Inner as Leaf>::ty("message") },
                        Fld { num: 4, card: '*', ty: Ty::Sc("fixed32") },
                    ],
                ),
                Variant::T(7, Ty::Sc("fixed32")),
                Variant::T(8, Ty::Sc("double")),
                Variant::T(9, Ty::Sc("bytes")),
                Variant::T(10, <Choice2 as Leaf>::ty("message")),
                Variant::T(11, Ty::Sc("int32")),
                Variant::T(12, Ty::Sc("sfixed64")),
                Variant::T(13, Ty::Sc("bytes16")),
                Variant::T(14, Ty::Sc("Bool")),
            ],
            V::Var(0, Box::new(V::M(vec![]))),
        )
    }
    fn mval(&self) -> V {
        let b = |i: usize, v: V| V::Var(i, Box::new(v));
        match self {
            Choice::Nop => b(0, V::M(vec![])),
            Choice::U(x) => b(1, Leaf::val(x)),
            Choice::S(x) => b(2, Leaf::val(x)),
            Choice::T(x) => b(3, Leaf::val(x)),
            Choice::M(x) => b(4, Leaf::val(x)),
            Choice::Pt { x, y, o, r } => b(5, V::M(vec![Slot::val(x), Slot::val(y), Slot::val(o), Slot::val(r)])),
            Choice::F(x) => b(6, Leaf::val(x)),
            Choice::D(x) => b(7, Leaf::val(x)),
            Choice::B(x) => b(8, Leaf::val(x)),
            Choice::Sub(x) => b(9, Leaf::val(x)),
            Choice::I(x) => b(10, Leaf::val(x)),
            Choice::G(x) => b(11, Leaf::val(x)),
            Choice::H(x) => b(12, Leaf::val(x)),
            Choice::Y(x) => b(13, Leaf::val(x)),
        }
    }
    fn mgen(g: &mut G) -> Self {
        match g.rng.below(14) {
            0 => Choice::Nop,
            1 => Choice::U(Leaf::gen(g)),
            2 => Choice::S(Leaf::gen(g)),
            3 => Choice::T(Leaf::gen(g)),
            4 => Choice::M(Leaf::gen(g)),
            5 => Choice::Pt { x: Slot::gen(g), y: Slot::gen(g), o: Slot::gen(g), r: Slot::gen(g) },
            6 => Choice::F(Leaf::gen(g)),
            7 => Choice::D(Leaf::gen(g)),
            8 => Choice::B(Leaf::gen(g)),
            9 => Choice::Sub(Leaf::gen(g)),
            10 => Choice::I(Leaf::gen(g)),
            11 => Choice::G(Leaf::gen(g)),
            12 => Choice::H(Leaf::gen(g)),
            _ => Choice::Y(Leaf::gen(g)),
        }
    }
    fn mdflt() -> Self {
        Self::default()
    }
    fam_obs!();
}
fam_leaf!(Choice);

fam_struct!(Opts { 1 int32 a: [Option<i32>], 2 sint64 b: [Option<i64>], 3 uint64 c: [Option<u64>], 4 Bool d: [Option<bool>], 5 fixed32 e: [Option<u32>], 6 sfixed64 f: [Option<i64>], 7 double g: [Option<f64>], 8 bytes h: [Option<Vec<u8>>], 9 string i: [Option<String>], 10 bytes16 j: [Option<[u8; 16]>], 11 message k: [Option<Inner>], 12 message l: [Option<Choice>] });

fam_struct!(Reps { 1 uint64 a: [Vec<u64>], 2 sint32 b: [Vec<i32>], 3 Bool c: [Vec<bool>], 4 fixed64 d: [Vec<u64>], 5 sfixed32 e: [Vec<i32>], 6 string f: [Vec<String>], 7 bytes g: [Vec<Vec<u8>>], 8 message h: [Vec<Inner>], 9 message i: [Vec<Choice>] });

fam_struct!(Mid { 1 message a: [Inner], 2 message b: [Vec<Choice>], 3 uint64 c: [u64] });

fam_struct!(Outer { 1 message a: [Inner], 2 message b: [Option<Inner>], 3 message c: [Vec<Inner>], 4 message d: [Choice], 5 message e: [Mid], 15 uint64 t: [u64] });

fam_struct!(BigNums { 15 uint64 a: [u64], 16 string b: [String], 2047 fixed32 c: [u32], 2048 sint64 d: [i64], 18999 Bool e: [bool], 20000 bytes f: [Vec<u8>], 536870911 message g: [Inner] });

fam_struct!(Empty {  });

impl<T: Fam, E: Fam> Leaf for Result<T, E> {
    fn ty(_attr: &'static str) -> Ty {
        Ty::M(Box::new(Sch::R(Box::new(T::sch()), Box::new(E::sch()), V::Var(1, Box::new(E::mdflt().mval())))))
    }
    fn val(&self) -> V {
        match self {
            Ok(x) => V::Var(0, Box::new(x.mval())),
            Err(e) => V::Var(1, Box::new(e.mval())),
        }
    }
    fn gen(g: &mut G) -> Self {
        if g.rng.chance(2, 3) { Ok(T::mgen(g)) } else { Err(E::mgen(g)) }
    }
    fn dflt() -> Self {
        Err(E::mdflt())
    }
}
impl<T: Fam, E: Fam> Slot for Result<T, E> {
    const CARD: char = '1';
    fn ty(attr: &'static str) -> Ty {
        <Self as Leaf>::ty(attr)
    }
    fn val(&self) -> V {
        Leaf::val(self)
    }
    fn gen(g: &mut G) -> Self {
        <Self as Leaf>::gen(g)
    }
    fn dflt() -> Self {
        <Self as Leaf>::dflt()
    }
}

fam_struct!(Res { 1 message r: [Result<Inner, ErrMsg>], 2 uint64 t: [u64] });
fam_struct!(ResEnum { 1 message r: [Result<Choice, ErrMsg>], 2 message q: [Result<Res, ErrMsg>] });

/// `Result<T, E>` as a top-level message (buffertk's `Packable` / `Unpackable`)
macro_rules! fam_result {
    ($alias:ident, $t:ty, $e:ty) => {
        #[derive(Clone, Debug)]
        pub struct $alias(pub Result<$t, $e>);
        impl Fam for $alias {
            const NAME: &'static str = stringify!($alias);
            fn sch() -> Sch {
                match <Result<$t, $e> as Leaf>::ty("message") {
                    Ty::M(s) => *s,
                    _ => unreachable!(),
                }
            }
            fn mval(&self) -> V {
                Leaf::val(&self.0)
            }
            fn mgen(g: &mut G) -> Self {
                $alias(<Result<$t, $e> as Leaf>::gen(g))
            }
            fn mdflt() -> Self {
                $alias(<Result<$t, $e> as Leaf>::dflt())
            }
            fn pack_obs(&self) -> (Vec<u8>, usize, Vec<u8>) {
                let bytes = stack_pack(&self.0).to_vec();
                let sz = Packable::pack_sz(&self.0);
                let mut w: Vec<u8> = vec![];
                let _ = stack_pack(&self.0).stream(&mut w);
                (bytes, sz, w)
            }
            fn unpack_obs(buf: &[u8]) -> Result<(V, usize), String> {
                match <Result<$t, $e> as Unpackable>::unpack(buf) {
                    Ok((v, rest)) => Ok((Leaf::val(&v), rest.len())),
                    Err(e) => {
                        let e: SError = e.into();
                        Err(code_of(&e))
                    }
                }
            }
        }
    };
}
fam_result!(TopRes, Inner, ErrMsg);
fam_result!(TopResEnum, Choice, ErrMsg);

// ------------------------------------------------------------------------------------------------
// an independent wire encoder (protobuf encoding document), producing a tree that can be mutated
// ------------------------------------------------------------------------------------------------

#[derive(Clone, Debug)]
pub struct Pad {
    /// extra bytes beyond the minimal encoding (0 = canonical)
    extra: usize,
    /// payload bits of the final byte when extra > 0 (0 = a plain non-minimal encoding)
    junk: u8,
}
const NOPAD: Pad = Pad { extra: 0, junk: 0 };

#[derive(Clone, Debug)]
pub enum Inner_ {
    Raw(Vec<u8>),
    /// nested fields, trailing garbage, what reads the frame
    Msg(Vec<Node>, Vec<u8>, Frame),
}
/// kind: 's' struct, 'n' named variant, 'e' enum, 'r' result; `known` = the (number, wire type) arms
/// of the generated match that reads the frame
#[derive(Clone, Debug)]
pub struct Frame {
    kind: char,
    known: Vec<(u32, u8)>,
}
fn wt_of_ty(ty: &Ty) -> u8 {
    match ty {
        Ty::Sc(n) => match *n {
            "int32" | "int64" | "uint32" | "uint64" | "sint32" | "sint64" | "Bool" => 0,
            "fixed32" | "sfixed32" | "float" => 5,
            "fixed64" | "sfixed64" | "double" => 1,
            _ => 2,
        },
        Ty::M(_) => 2,
    }
}
fn frame_of(s: &Sch) -> Frame {
    match s {
        Sch::S(fs) => Frame { kind: 's', known: fs.iter().map(|f| (f.num, wt_of_ty(&f.ty))).collect() },
        Sch::E(..) => Frame { kind: 'e', known: vec![] },
        Sch::R(..) => Frame { kind: 'r', known: vec![] },
    }
}
#[derive(Clone, Debug)]
pub enum Body {
    Varint(u64, Pad),
    Fixed(Vec<u8>),
    Len { delta: i64, pad: Pad, inner: Inner_ },
}
#[derive(Clone, Debug)]
pub struct Node {
    num: u64,
    wt: u8,
    tag_pad: Pad,
    body: Body,
}

fn put_varint(out: &mut Vec<u8>, mut v: u64, pad: &Pad) {
    let start = out.len();
    loop {
        let b = (v & 0x7f) as u8;
        v >>= 7;
        if v == 0 {
            out.push(b);
            break;
        }
        out.push(b | 0x80);
    }
    if pad.extra > 0 {
        let last = out.len() - 1;
        out[last] |= 0x80;
        for _ in 1..pad.extra {
            out.push(0x80);
        }
        out.push(pad.junk & 0x7f);
    }
    let _ = start;
}

fn ser_nodes(nodes: &[Node], out: &mut Vec<u8>) {
    for n in nodes {
        put_varint(out, (n.num << 3) | (n.wt as u64 & 7), &n.tag_pad);
        match &n.body {
            Body::Varint(v, pad) => put_varint(out, *v, pad),
            Body::Fixed(b) => out.extend_from_slice(b),
            Body::Len { delta, pad, inner } => {
                let mut payload = vec![];
                match inner {
                    Inner_::Raw(b) => payload.extend_from_slice(b),
                    Inner_::Msg(ns, trailing, _) => {
                        ser_nodes(ns, &mut payload);
                        payload.extend_from_slice(trailing);
                    }
                }
                let len = (payload.len() as i64 + delta).max(0) as u64;
                put_varint(out, len, pad);
                out.extend_from_slice(&payload);
            }
        }
    }
}

fn ser(nodes: &[Node]) -> Vec<u8> {
    let mut o = vec![];
    ser_nodes(nodes, &mut o);
    o
}

fn as_int(v: &V) -> i128 {
    match v {
        V::I(i) => *i,
        _ => 0,
    }
}
fn as_bytes(v: &V) -> Vec<u8> {
    match v {
        V::X(b) => b.clone(),
        _ => vec![],
    }
}

/// one field of a given field type, per the protobuf encoding document
fn node_of(num: u32, ty: &Ty, v: &V) -> Node {
    let (wt, body) = match ty {
        Ty::Sc(name) => match *name {
            "int32" | "int64" => (0, Body::Varint(as_int(v) as i64 as u64, NOPAD)),
            "uint32" | "uint64" => (0, Body::Varint(as_int(v) as u64, NOPAD)),
            "sint32" | "sint64" => {
                let n = as_int(v) as i64;
                (0, Body::Varint(((n << 1) ^ (n >> 63)) as u64, NOPAD))
            }
            "Bool" => (0, Body::Varint((as_int(v) != 0) as u64, NOPAD)),
            "fixed32" | "float" => (5, Body::Fixed((as_int(v) as u32).to_le_bytes().to_vec())),
            "sfixed32" => (5, Body::Fixed((as_int(v) as i32).to_le_bytes().to_vec())),
            "fixed64" | "double" => (1, Body::Fixed((as_int(v) as u64).to_le_bytes().to_vec())),
            "sfixed64" => (1, Body::Fixed((as_int(v) as i64).to_le_bytes().to_vec())),
            _ => (2, Body::Len { delta: 0, pad: NOPAD, inner: Inner_::Raw(as_bytes(v)) }),
        },
        Ty::M(s) => {
            (2, Body::Len { delta: 0, pad: NOPAD, inner: Inner_::Msg(enc_msg(s, v), vec![], frame_of(s)) })
        }
    };
    Node { num: num as u64, wt, tag_pad: NOPAD, body }
}

fn enc_fields(fs: &[Fld], vs: &[V]) -> Vec<Node> {
    let mut out = vec![];
    for (f, v) in fs.iter().zip(vs.iter()) {
        match (f.card, v) {
            ('1', v) => out.push(node_of(f.num, &f.ty, v)),
            ('?', V::S(v)) => out.push(node_of(f.num, &f.ty, v)),
            ('*', V::L(vs)) => vs.iter().for_each(|v| out.push(node_of(f.num, &f.ty, v))),
            _ => {}
        }
    }
    out
}

fn enc_msg(s: &Sch, v: &V) -> Vec<Node> {
    match (s, v) {
        (Sch::S(fs), V::M(vs)) => enc_fields(fs, vs),
        (Sch::E(vars, _), V::Var(i, p)) => match &vars[*i] {
            Variant::U(n) => vec![Node { num: *n as u64, wt: 2, tag_pad: NOPAD, body: Body::Len { delta: 0, pad: NOPAD, inner: Inner_::Raw(vec![]) } }],
            Variant::T(n, ty) => vec![node_of(*n, ty, p)],
            Variant::N(n, fs) => {
                let inner = match &**p {
                    V::M(vs) => enc_fields(fs, vs),
                    _ => vec![],
                };
                vec![Node { num: *n as u64, wt: 2, tag_pad: NOPAD, body: Body::Len { delta: 0, pad: NOPAD, inner: Inner_::Msg(inner, vec![], Frame { kind: 'n', known: fs.iter().map(|f| (f.num, wt_of_ty(&f.ty))).collect() }) } }]
            }
        },
        (Sch::R(a, b, _), V::Var(i, p)) => {
            let (num, s) = if *i == 0 { (1, a) } else { (2, b) };
            vec![Node { num, wt: 2, tag_pad: NOPAD, body: Body::Len { delta: 0, pad: NOPAD, inner: Inner_::Msg(enc_msg(s, p), vec![], frame_of(s)) } }]
        }
        _ => vec![],
    }
}

// ------------------------------------------------------------------------------------------------
// mutations
// ------------------------------------------------------------------------------------------------

fn count_nodes(ns: &[Node]) -> usize {
    ns.iter()
        .map(|n| {
            1 + match &n.body {
                Body::Len { inner: Inner_::Msg(c, _, _), .. } => count_nodes(c),
                _ => 0,
            }
        })
        .sum()
}

fn random_unknown(rng: &mut Rng, num: u64) -> Node {
    let (wt, body) = match rng.below(4) {
        0 => (0, Body::Varint(boundary_u64(rng), NOPAD)),
        1 => (1, Body::Fixed(rng.bytes(8))),
        2 => (5, Body::Fixed(rng.bytes(4))),
        _ => {
            let n = rng.below(6) as usize;
            (2, Body::Len { delta: 0, pad: NOPAD, inner: Inner_::Raw(rng.bytes(n)) })
        }
    };
    Node { num, wt, tag_pad: NOPAD, body }
}

fn gen_pad(rng: &mut Rng) -> Pad {
    match rng.below(6) {
        0 | 1 => Pad { extra: 1, junk: 0 },
        2 => Pad { extra: 2, junk: 0 },
        3 => Pad { extra: rng.range(3, 9) as usize, junk: 0 },
        4 => Pad { extra: rng.range(1, 9) as usize, junk: rng.below(128) as u8 },
        _ => Pad { extra: 10, junk: 0 },
    }
}

/// apply mutation `kind` at the `target`-th node (pre-order); returns a label
fn mutate_at(ns: &mut Vec<Node>, target: &mut usize, kind: u64, rng: &mut Rng) -> Option<&'static str> {
    let mut i = 0;
    while i < ns.len() {
        if *target == 0 {
            *target = usize::MAX;
            let label = match kind {
                0 => {
                    ns[i].tag_pad = gen_pad(rng);
                    "nonminimal-tag"
                }
                1 => match &mut ns[i].body {
                    Body::Varint(_, p) => {
                        *p = gen_pad(rng);
                        "nonminimal-value"
                    }
                    Body::Len { pad, .. } => {
                        *pad = gen_pad(rng);
                        "nonminimal-length"
                    }
                    Body::Fixed(b) => {
                        if rng.chance(1, 2) { b.pop(); } else { b.push(rng.next() as u8); }
                        "fixed-resized"
                    }
                },
                2 => match &mut ns[i].body {
                    Body::Len { delta, .. } => {
                        *delta = *rng.pick(&[-1i64, 1, 2, 200, -200, 1 << 40]);
                        "length-off"
                    }
                    Body::Varint(v, _) => {
                        *v = *rng.pick(&[1u64 << 31, 1 << 32, (1 << 32) - 1, 1 << 63, u64::MAX, u64::MAX - 1, (1u64 << 32) + 1]);
                        "varint-boundary"
                    }
                    Body::Fixed(b) => {
                        b.clear();
                        "fixed-emptied"
                    }
                },
                3 => {
                    ns[i].wt = rng.below(8) as u8;
                    "wire-type-changed"
                }
                4 => {
                    ns[i].num = *rng.pick(&[0u64, 19000, 19999, 1 << 29, 1 << 32, 1 << 61, 17, 31, 1, 2, 3, 4, 5, 6]);
                    "field-number-changed"
                }
                5 => {
                    ns.remove(i);
                    "field-deleted"
                }
                6 => {
                    let c = ns[i].clone();
                    ns.insert(i, c);
                    "field-duplicated"
                }
                7 => {
                    let num = *rng.pick(&[17u64, 31, 100, 18998, 20001, (1 << 29) - 2]);
                    let u = random_unknown(rng, num);
                    let at = if rng.chance(1, 2) { i } else { i + 1 };
                    ns.insert(at, u);
                    "unknown-field-inserted"
                }
                8 => match &mut ns[i].body {
                    Body::Len { inner: Inner_::Msg(_, trailing, _), .. } => {
                        *trailing = match rng.below(4) {
                            0 => vec![0x00],
                            1 => vec![0x08, 0x01],
                            2 => vec![0x0a, 0x00],
                            _ => {
                                let n = rng.range(1, 3) as usize;
                                rng.bytes(n)
                            }
                        };
                        "frame-trailing-bytes"
                    }
                    Body::Len { inner: Inner_::Raw(b), .. } => {
                        if b.is_empty() || rng.chance(1, 2) {
                            b.push(*rng.pick(&[0xffu8, 0x80, 0xc0, 0xed, 0xf8, 0x00]));
                        } else {
                            let k = rng.below(b.len() as u64) as usize;
                            b[k] = *rng.pick(&[0xffu8, 0x80, 0xc0, 0xc1, 0xed, 0xf5]);
                        }
                        "raw-corrupted"
                    }
                    Body::Varint(v, _) => {
                        *v = boundary_u64(rng);
                        "varint-replaced"
                    }
                    Body::Fixed(b) => {
                        for x in b.iter_mut() {
                            *x = 0xff;
                        }
                        "fixed-ff"
                    }
                },
                _ => match &mut ns[i].body {
                    Body::Len { inner: Inner_::Raw(b), .. } => {
                        // bytesNN: change the content length
                        if rng.chance(1, 2) && !b.is_empty() { b.pop(); } else { b.push(0); }
                        "raw-resized"
                    }
                    Body::Len { inner, .. } => {
                        *inner = Inner_::Raw(rng.bytes(3));
                        "frame-replaced"
                    }
                    _ => {
                        ns[i].wt = 2;
                        "wire-type-ld"
                    }
                },
            };
            return Some(label);
        }
        *target -= 1;
        if let Body::Len { inner: Inner_::Msg(c, _, _), .. } = &mut ns[i].body {
            if let Some(l) = mutate_at(c, target, kind, rng) {
                return Some(l);
            }
            if *target == usize::MAX {
                return None;
            }
        }
        i += 1;
    }
    None
}

/// the decidable trigger predicate of D-21: following the schema's message-typed fields through
/// well-formed length-delimited frames, some frame whose schema is an enum or a `Result` holds a
/// complete first field and then more bytes.
fn get_varint(b: &[u8]) -> Option<(u64, usize)> {
    let mut v: u64 = 0;
    for (i, x) in b.iter().enumerate().take(10) {
        v |= ((*x & 0x7f) as u64).wrapping_shl(7 * i as u32);
        if x & 0x80 == 0 {
            return Some((v, i + 1));
        }
    }
    None
}

/// generic split of one field: (num, wt, payload range, total length)
fn split_field(b: &[u8]) -> Option<(u64, u8, std::ops::Range<usize>, usize)> {
    let (tag, n) = get_varint(b)?;
    let (num, wt) = (tag >> 3, (tag & 7) as u8);
    let rest = &b[n..];
    match wt {
        0 => {
            let (_, k) = get_varint(rest)?;
            Some((num, wt, n..n + k, n + k))
        }
        1 => if rest.len() >= 8 { Some((num, wt, n..n + 8, n + 8)) } else { None },
        5 => if rest.len() >= 4 { Some((num, wt, n..n + 4, n + 4)) } else { None },
        2 => {
            let (len, k) = get_varint(rest)?;
            if (rest.len() - k) as u64 >= len { Some((num, wt, n + k..n + k + len as usize, n + k + len as usize)) } else { None }
        }
        _ => None,
    }
}

fn frame_has_trailing(ty: &Ty, frame: &[u8]) -> bool {
    match ty {
        Ty::Sc(_) => false,
        Ty::M(s) => {
            let direct = match **s {
                Sch::S(_) => false,
                _ => match split_field(frame) {
                    Some((_, _, _, total)) => total < frame.len(),
                    None => false,
                },
            };
            direct || nested_trailing(s, frame)
        }
    }
}

fn fields_trailing(fs: &[Fld], mut b: &[u8]) -> bool {
    while !b.is_empty() {
        match split_field(b) {
            None => return false,
            Some((num, wt, r, total)) => {
                if wt == 2 {
                    for f in fs {
                        if f.num as u64 == num && frame_has_trailing(&f.ty, &b[r.clone()]) {
                            return true;
                        }
                    }
                }
                b = &b[total..];
            }
        }
    }
    false
}

fn nested_trailing(s: &Sch, b: &[u8]) -> bool {
    match s {
        Sch::S(fs) => fields_trailing(fs, b),
        Sch::E(vars, _) => match split_field(b) {
            Some((num, 2, r, _)) => vars.iter().any(|v| match v {
                Variant::T(n, ty) => *n as u64 == num && frame_has_trailing(ty, &b[r.clone()]),
                Variant::N(n, fs) => *n as u64 == num && fields_trailing(fs, &b[r.clone()]),
                _ => false,
            }),
            _ => false,
        },
        Sch::R(a, e, _) => match split_field(b) {
            Some((1, 2, r, _)) => nested_trailing(a, &b[r]),
            Some((2, 2, r, _)) => nested_trailing(e, &b[r]),
            _ => false,
        },
    }
}

// ------------------------------------------------------------------------------------------------
// plumbing
// ------------------------------------------------------------------------------------------------

fn put(rec: &mut Recorder, f: impl FnOnce(&mut Recorder) -> (String, String, Verdict, Option<u64>)) {
    if rec.wants() {
        let (a, b, c, d) = f(rec);
        rec.case(&a, &b, c, d);
    } else {
        rec.skip();
    }
}

fn fail(class: &str, detail: String) -> Verdict {
    Verdict::Fail { class: class.into(), detail }
}

fn show_unpack(r: &Result<Result<(V, usize), String>, String>) -> String {
    match r {
        Err(_) => "panic".into(),
        Ok(Err(code)) => format!("err {}", code),
        Ok(Ok((v, rest))) => format!("ok {} rest={}", v.show(), rest),
    }
}

fn outcome_key(r: &Result<Result<(V, usize), String>, String>) -> String {
    match r {
        Err(_) => "panic".into(),
        Ok(Err(code)) => format!("err.{}", code),
        Ok(Ok(_)) => "ok".into(),
    }
}

fn rle(xs: &[String]) -> String {
    let mut out: Vec<String> = vec![];
    let mut i = 0;
    while i < xs.len() {
        let mut j = i;
        while j < xs.len() && xs[j] == xs[i] {
            j += 1;
        }
        out.push(format!("{}*{}", j - i, xs[i]));
        i = j;
    }
    out.join(" ")
}

/// the verdict for a hostile input: a panic is a failure; its class is the D-21 trigger predicate
/// when that holds of the input, `panic` otherwise
fn hostile_verdict(sch: &Sch, bytes: &[u8], r: &Result<Result<(V, usize), String>, String>) -> Verdict {
    match r {
        Err(m) => {
            let class = if nested_trailing(sch, bytes) { "nested-enum-trailing-bytes" } else { "panic" };
            fail(class, format!("unpack panicked: {}", m.replace('\n', " ")))
        }
        Ok(_) => Verdict::Ok,
    }
}

// ------------------------------------------------------------------------------------------------
// per-type streams
// ------------------------------------------------------------------------------------------------

struct Tier {
    n_round: u64,
    n_mut: u64,
    n_unknown: u64,
    n_prefix: u64,
}

fn gen_value<T: Fam>(seed: u64, stream: u64, i: u64, sweep: bool) -> T {
    let mut g = G { rng: Rng::for_case(seed, stream, i), force: None, depth: 0 };
    if sweep && i < 195 {
        // every power of two, minus one, plus one, as the bit pattern of every integer field
        let k = (i / 3) as u32;
        let p: u64 = if k == 64 { 0 } else { 1u64 << k };
        g.force = Some(match i % 3 {
            0 => p.wrapping_sub(1),
            1 => p,
            _ => p.wrapping_add(1),
        });
    } else if sweep && i < 195 + 14 {
        g.force = Some(i - 195);
    }
    T::mgen(&mut g)
}

fn roundtrip_stream<T: Fam + std::panic::RefUnwindSafe>(rec: &mut Recorder, seed: u64, stream: u64, n: u64, sweep: bool) {
    let sch = T::sch();
    let schs = sch.show();
    let has_float = sch.has_float();
    for i in 0..n {
        // the value is needed by both cases; generation is cheap
        let v: T = gen_value::<T>(seed, stream, i, sweep);
        let mv = v.mval();
        let indep = ser(&enc_msg(&sch, &mv));
        let packed = guarded(|| v.pack_obs());
        let bytes: Vec<u8> = match &packed {
            Ok((b, _, _)) => b.clone(),
            Err(_) => indep.clone(),
        };
        put(rec, |rec| {
            let req = format!("proto pack {} | {}", schs, mv.show());
            rec.count(&format!("{}.pack", T::NAME));
            rec.add(&format!("{}.packed_bytes", T::NAME), bytes.len() as u64);
            let nt = if bytes.is_empty() { None } else { Some(fnv(req.as_bytes())) };
            match &packed {
                Err(m) => (req, "panic".into(), fail("panic", format!("pack panicked: {}", m)), nt),
                Ok((b, sz, streamed)) => {
                    let mut fails = vec![];
                    if *sz != b.len() {
                        fails.push(format!("pack_sz {} but {} bytes written", sz, b.len()));
                    }
                    if streamed != b {
                        fails.push("stream() wrote different bytes than pack()".to_string());
                    }
                    let mut class = "pack";
                    if *b != indep {
                        class = if has_float { "float-wire-type" } else { "nonstandard-encoding" };
                        fails.push(format!("independent protobuf encoder gives {}", hex(&indep)));
                    }
                    let verdict = if fails.is_empty() { Verdict::Ok } else { fail(class, fails.join("; ")) };
                    (req, format!("{} {}", hex(b), sz), verdict, nt)
                }
            }
        });
        put(rec, |rec| {
            let req = format!("proto unpack {} | {}", schs, hex(&bytes));
            let b2 = bytes.clone();
            let r = guarded(move || T::unpack_obs(&b2));
            rec.count(&format!("{}.unpack_valid", T::NAME));
            let nt = if bytes.is_empty() { None } else { Some(fnv(req.as_bytes())) };
            let verdict = match &r {
                Err(m) => fail(if nested_trailing(&sch, &bytes) { "nested-enum-trailing-bytes" } else { "panic" }, format!("unpack panicked: {}", m)),
                Ok(Ok((got, rest))) if *got == mv && *rest == 0 => Verdict::Ok,
                Ok(other) => fail(
                    if has_float { "float-wire-type" } else { "roundtrip" },
                    format!("unpack(pack(v)) = {} but v = {}", show_unpack(&Ok(other.clone())), mv.show()),
                ),
            };
            (req, show_unpack(&r), verdict, nt)
        });
    }
}

fn post_mutate(rng: &mut Rng, bytes: &mut Vec<u8>) -> &'static str {
    match rng.below(8) {
        0 if !bytes.is_empty() => {
            let k = rng.below(bytes.len() as u64) as usize;
            bytes.truncate(k);
            "truncated"
        }
        1 => {
            let n = rng.range(1, 3) as usize;
            let extra = rng.bytes(n);
            bytes.extend_from_slice(&extra);
            "garbage-appended"
        }
        2 if !bytes.is_empty() => {
            let k = rng.below(bytes.len() as u64) as usize;
            bytes[k] ^= 1 << rng.below(8);
            "bit-flipped"
        }
        _ => "as-serialised",
    }
}

fn hostile_stream<T: Fam + std::panic::RefUnwindSafe>(rec: &mut Recorder, seed: u64, stream: u64, t: &Tier) {
    let sch = T::sch();
    let schs = sch.show();
    // structure-aware mutations
    for i in 0..t.n_mut {
        put(rec, |rec| {
            let v: T = gen_value::<T>(seed, stream, i, false);
            let mut rng = Rng::for_case(seed, stream + 1000, i);
            let mut tree = enc_msg(&sch, &v.mval());
            let nmut = 1 + rng.below(2);
            let mut labels = vec![];
            for _ in 0..nmut {
                let n = count_nodes(&tree);
                if n == 0 {
                    let num = 1 + rng.below(15);
                    tree.push(random_unknown(&mut rng, num));
                    labels.push("field-into-empty");
                    continue;
                }
                let mut target = rng.below(n as u64) as usize;
                let kind = rng.below(10);
                if let Some(l) = mutate_at(&mut tree, &mut target, kind, &mut rng) {
                    labels.push(l);
                }
            }
            let mut bytes = ser(&tree);
            labels.push(post_mutate(&mut rng, &mut bytes));
            for l in &labels {
                rec.count(&format!("mut.{}", l));
            }
            let req = format!("proto unpack {} | {}", schs, hex(&bytes));
            let b2 = bytes.clone();
            let r = guarded(move || T::unpack_obs(&b2));
            rec.count(&format!("{}.hostile.{}", T::NAME, outcome_key(&r)));
            if nested_trailing(&sch, &bytes) {
                rec.count("hostile.d21_trigger_predicate_holds");
            }
            let verdict = hostile_verdict(&sch, &bytes, &r);
            let nt = Some(fnv(req.as_bytes()));
            (req, show_unpack(&r), verdict, nt)
        });
    }
    // every prefix of valid encodings
    for i in 0..t.n_prefix {
        let v: T = gen_value::<T>(seed, stream + 2000, i, false);
        let bytes = ser(&enc_msg(&sch, &v.mval()));
        let upto = bytes.len().min(48);
        for k in 0..upto {
            put(rec, |rec| {
                let b = bytes[..k].to_vec();
                let req = format!("proto unpack {} | {}", schs, hex(&b));
                let b2 = b.clone();
                let r = guarded(move || T::unpack_obs(&b2));
                rec.count(&format!("{}.prefix.{}", T::NAME, outcome_key(&r)));
                let verdict = hostile_verdict(&sch, &b, &r);
                let nt = Some(fnv(req.as_bytes()));
                (req, show_unpack(&r), verdict, nt)
            });
        }
    }
}

/// the frames that skip unknown fields: struct frames and named-variant bodies (pre-order index)
fn count_frames(ns: &[Node]) -> usize {
    ns.iter()
        .map(|n| match &n.body {
            Body::Len { inner: Inner_::Msg(c, _, f), .. } => (if f.kind == 's' || f.kind == 'n' { 1 } else { 0 }) + count_frames(c),
            _ => 0,
        })
        .sum()
}

fn unknown_node(known: &[(u32, u8)], rng: &mut Rng, label: &mut &'static str) -> Node {
    if !known.is_empty() && rng.chance(1, 3) {
        // a known number with a wire type the reader does not expect
        let (num, want) = *rng.pick(known);
        let mut u = random_unknown(rng, num as u64);
        while known.iter().any(|(n, w)| *n == num && *w == u.wt) {
            u = random_unknown(rng, num as u64);
        }
        let _ = want;
        *label = "known-number-other-wire-type";
        u
    } else {
        let mut num;
        loop {
            num = *rng.pick(&[14u64, 17, 31, 100, 2049, 18998, 20001, (1 << 29) - 2, 7, 9, 12]);
            if !known.iter().any(|(n, _)| *n as u64 == num) {
                break;
            }
        }
        *label = "unknown-number";
        random_unknown(rng, num)
    }
}

/// insert into the `target`-th skipping frame below `ns`; returns the kind of the frame
fn insert_in_frame(ns: &mut Vec<Node>, target: &mut usize, rng: &mut Rng, label: &mut &'static str) -> Option<char> {
    for n in ns.iter_mut() {
        if let Body::Len { inner: Inner_::Msg(c, _, f), .. } = &mut n.body {
            if f.kind == 's' || f.kind == 'n' {
                if *target == 0 {
                    let at = rng.below(c.len() as u64 + 1) as usize;
                    let u = unknown_node(&f.known, rng, label);
                    c.insert(at, u);
                    return Some(f.kind);
                }
                *target -= 1;
            }
            if let Some(k) = insert_in_frame(c, target, rng, label) {
                return Some(k);
            }
        }
    }
    None
}

fn unknown_stream<T: Fam + std::panic::RefUnwindSafe>(rec: &mut Recorder, seed: u64, stream: u64, n: u64) {
    let sch = T::sch();
    let top = frame_of(&sch);
    let schs = sch.show();
    for i in 0..n {
        put(rec, |rec| {
            let v: T = gen_value::<T>(seed, stream, i, false);
            let mut rng = Rng::for_case(seed, stream + 1000, i);
            let mv = v.mval();
            let mut tree = enc_msg(&sch, &mv);
            let original = ser(&tree);
            let mut label = "no-frame";
            let mut in_named = false;
            let k = 1 + rng.below(3);
            for _ in 0..k {
                let nested = count_frames(&tree);
                let total = nested + if top.kind == 's' { 1 } else { 0 };
                if total == 0 {
                    break;
                }
                let pick = rng.below(total as u64) as usize;
                if top.kind == 's' && pick == nested {
                    let at = rng.below(tree.len() as u64 + 1) as usize;
                    let u = unknown_node(&top.known, &mut rng, &mut label);
                    tree.insert(at, u);
                } else {
                    let mut target = pick;
                    if insert_in_frame(&mut tree, &mut target, &mut rng, &mut label) == Some('n') {
                        in_named = true;
                    }
                }
            }
            let bytes = ser(&tree);
            let req = format!("proto unpack {} | {}", schs, hex(&bytes));
            let (b1, b2) = (original.clone(), bytes.clone());
            let r0 = guarded(move || T::unpack_obs(&b1));
            let r = guarded(move || T::unpack_obs(&b2));
            rec.count(&format!("unknown.{}", label));
            if in_named {
                rec.count("unknown.in_named_variant_body");
            }
            rec.count(&format!("{}.unknown_inserted", T::NAME));
            let verdict = match (&r0, &r) {
                (_, Err(m)) => fail(if nested_trailing(&sch, &bytes) { "nested-enum-trailing-bytes" } else { "panic" }, format!("unpack panicked: {}", m)),
                (Ok(a), Ok(b)) if a == b && a.is_ok() => Verdict::Ok,
                (a, b) => fail(
                    if sch.has_float() {
                        "float-wire-type"
                    } else if in_named {
                        "named-variant-unknown-field"
                    } else {
                        "unknown-field-disturbs"
                    },
                    format!("without the unknown fields: {}; with them: {}", show_unpack(a), show_unpack(b)),
                ),
            };
            let nt = if label == "no-frame" { None } else { Some(fnv(req.as_bytes())) };
            (req, show_unpack(&r), verdict, nt)
        });
    }
}

/// offsets in `b` after 0, 1, 2, … complete top-level fields, as far as the field iterator reads
/// complete fields (independent splitter; the tag must be one `Tag::unpack` accepts)
fn field_boundaries(b: &[u8]) -> Vec<usize> {
    let mut at = 0usize;
    let mut out = vec![0usize];
    while at < b.len() {
        match split_field(&b[at..]) {
            Some((num, _wt, _, total)) if num >= 1 && num <= (1 << 29) - 1 && !(19000..=19999).contains(&num) => {
                at += total;
                out.push(at);
            }
            _ => break,
        }
    }
    out
}

/// `unknown_fields_skipped_anywhere` on the implementation: a hostile (mutated, possibly truncated
/// or garbage-tailed) buffer of a struct type, an unknown field inserted at one of the field
/// boundaries of the iterator's own reading of it — the result (value or error) must not change
fn unknown_anywhere_stream<T: Fam + std::panic::RefUnwindSafe>(rec: &mut Recorder, seed: u64, stream: u64, n: u64) {
    let sch = T::sch();
    let top = frame_of(&sch);
    if top.kind != 's' {
        return;
    }
    let schs = sch.show();
    for i in 0..n {
        put(rec, |rec| {
            let v: T = gen_value::<T>(seed, stream, i, false);
            let mut rng = Rng::for_case(seed, stream + 1000, i);
            let mut tree = enc_msg(&sch, &v.mval());
            let mut labels = vec![];
            for _ in 0..rng.below(3) {
                let nn = count_nodes(&tree);
                if nn == 0 {
                    break;
                }
                let mut target = rng.below(nn as u64) as usize;
                let kind = rng.below(10);
                if let Some(l) = mutate_at(&mut tree, &mut target, kind, &mut rng) {
                    labels.push(l);
                }
            }
            let mut original = ser(&tree);
            if rng.chance(1, 2) {
                labels.push(post_mutate(&mut rng, &mut original));
            }
            let bounds = field_boundaries(&original);
            let p = bounds[rng.below(bounds.len() as u64) as usize];
            let mut label = "";
            let mut u = unknown_node(&top.known, &mut rng, &mut label);
            if rng.chance(1, 4) {
                // the inserted field itself non-minimally encoded (tag, or varint value / length prefix)
                if rng.chance(1, 2) {
                    u.tag_pad = gen_pad(&mut rng);
                    if u.tag_pad.extra >= 9 {
                        u.tag_pad.extra = 4;
                    }
                    u.tag_pad.junk = 0;
                } else if let Body::Varint(_, pad) = &mut u.body {
                    *pad = Pad { extra: 1 + rng.below(3) as usize, junk: 0 };
                }
                label = "unknown-non-minimal";
            }
            let mut ub = ser(&[u.clone()]);
            if field_boundaries(&ub) != vec![0, ub.len()] {
                // the padding pushed a varint beyond ten bytes: not a field any more; insert it minimal
                u.tag_pad = NOPAD;
                if let Body::Varint(_, pad) = &mut u.body {
                    *pad = NOPAD;
                }
                ub = ser(&[u]);
                label = "unknown-number";
            }
            let mut bytes = original[..p].to_vec();
            bytes.extend_from_slice(&ub);
            bytes.extend_from_slice(&original[p..]);
            let req = format!("proto unpack {} | {}", schs, hex(&bytes));
            let (b1, b2) = (original.clone(), bytes.clone());
            let r0 = guarded(move || T::unpack_obs(&b1));
            let r = guarded(move || T::unpack_obs(&b2));
            rec.count(&format!("unknown_anywhere.{}", label));
            rec.count(&format!("unknown_anywhere.base_{}", outcome_key(&r0)));
            rec.count(if p == original.len() { "unknown_anywhere.at_end" } else if p == 0 { "unknown_anywhere.at_start" } else { "unknown_anywhere.inside" });
            if bounds.last() != Some(&original.len()) {
                rec.count("unknown_anywhere.tail_is_not_complete_fields");
            }
            let verdict = match (&r0, &r) {
                (_, Err(m)) | (Err(m), _) => fail(
                    if nested_trailing(&sch, &bytes) || nested_trailing(&sch, &original) { "nested-enum-trailing-bytes" } else { "panic" },
                    format!("unpack panicked: {}", m),
                ),
                (Ok(a), Ok(b)) if a == b => Verdict::Ok,
                (a, b) => fail(
                    "unknown-field-disturbs",
                    format!("at offset {} of {}: without the unknown field: {}; with it: {}", p, hex(&original), show_unpack(a), show_unpack(b)),
                ),
            };
            let nt = Some(fnv(req.as_bytes()));
            (req, show_unpack(&r), verdict, nt)
        });
    }
}

/// every byte string `prefix ++ [b]`, b = 0..=255, as one batch case
fn exhaustive_batch<T: Fam + std::panic::RefUnwindSafe>(rec: &mut Recorder, schs: &str, sch: &Sch, prefix: &[u8]) {
    put(rec, |rec| {
        let req = format!("proto unpackx {} | {}", schs, hex(prefix));
        let mut outs = vec![];
        let mut verdict = Verdict::Ok;
        for b in 0..=255u8 {
            let mut buf = prefix.to_vec();
            buf.push(b);
            let b2 = buf.clone();
            let r = guarded(move || T::unpack_obs(&b2));
            if let Verdict::Fail { .. } = hostile_verdict(sch, &buf, &r) {
                if let Verdict::Ok = verdict {
                    verdict = hostile_verdict(sch, &buf, &r);
                }
            }
            outs.push(show_unpack(&r));
        }
        rec.add(&format!("{}.exhaustive_strings", T::NAME), 256);
        rec.add("exhaustive.byte_strings", 256);
        let nt = Some(fnv(req.as_bytes()));
        (req, rle(&outs), verdict, nt)
    });
}

const ALPHABET: [u8; 24] = [
    0x00, 0x01, 0x02, 0x03, 0x05, 0x07, 0x08, 0x09, 0x0a, 0x0d, 0x10, 0x12, 0x1a, 0x22, 0x2a, 0x32, 0x52, 0x7f, 0x80, 0x81, 0x8a, 0xc0,
    0xf8, 0xff,
];

fn exhaustive_stream<T: Fam + std::panic::RefUnwindSafe>(rec: &mut Recorder, three: u8) {
    let sch = T::sch();
    let schs = sch.show();
    // the empty string
    put(rec, |rec| {
        let req = format!("proto unpack {} | -", schs);
        let r = guarded(|| T::unpack_obs(&[]));
        rec.add("exhaustive.byte_strings", 1);
        (req, show_unpack(&r), hostile_verdict(&sch, &[], &r), None)
    });
    // all strings of length 1 and 2
    exhaustive_batch::<T>(rec, &schs, &sch, &[]);
    for a in 0..=255u8 {
        exhaustive_batch::<T>(rec, &schs, &sch, &[a]);
    }
    // length 3: 0 = none, 1 = first two bytes from the alphabet, 2 = all
    match three {
        1 => {
            for a in ALPHABET {
                for b in ALPHABET {
                    exhaustive_batch::<T>(rec, &schs, &sch, &[a, b]);
                }
            }
        }
        2 => {
            for a in 0..=255u8 {
                for b in 0..=255u8 {
                    exhaustive_batch::<T>(rec, &schs, &sch, &[a, b]);
                }
            }
        }
        _ => {}
    }
}

// ------------------------------------------------------------------------------------------------
// wire level: varints, zig-zag, tags, field types, the field iterator
// ------------------------------------------------------------------------------------------------

fn real_varint_dec(b: &[u8]) -> Result<(u64, usize), String> {
    match <v64 as Unpackable>::unpack(b) {
        Ok((v, rest)) => Ok((v.into(), b.len() - rest.len())),
        Err(e) => Err(code_of(&e)),
    }
}

fn show_dec(r: &Result<Result<(u64, usize), String>, String>) -> String {
    match r {
        Err(_) => "panic".into(),
        Ok(Err(c)) => format!("err {}", c),
        Ok(Ok((v, n))) => format!("ok {} {}", v, n),
    }
}

fn boundaries_u64() -> Vec<u64> {
    let mut v = vec![0u64, 1, u64::MAX, u64::MAX - 1];
    for k in 0..64 {
        let p = 1u64 << k;
        v.push(p.wrapping_sub(1));
        v.push(p);
        v.push(p.wrapping_add(1));
    }
    v.sort();
    v.dedup();
    v
}

fn canonical(v: u64) -> Vec<u8> {
    let mut o = vec![];
    put_varint(&mut o, v, &NOPAD);
    o
}

fn wire_varints(rec: &mut Recorder, args: &Args) {
    // encode
    let mut vals = boundaries_u64();
    let n_rand = if args.thorough { 3000 } else { 300 };
    let mut rng = Rng::for_case(args.seed, 10, 0);
    for _ in 0..n_rand {
        let k = rng.below(64);
        vals.push(rng.next() >> k);
    }
    for v in vals.iter().cloned() {
        put(rec, |rec| {
            let req = format!("wire enc {}", v);
            let r = guarded(move || {
                let x = v64::from(v);
                (stack_pack(x).to_vec(), x.pack_sz())
            });
            rec.count("varint.enc");
            match r {
                Err(m) => (req, "panic".into(), fail("panic", m), None),
                Ok((b, sz)) => {
                    let bits = 64 - v.leading_zeros() as usize;
                    let want = std::cmp::max(1, (bits + 6) / 7);
                    let back = guarded({
                        let b = b.clone();
                        move || real_varint_dec(&b)
                    });
                    let mut fails = vec![];
                    if sz != b.len() || b.len() != want {
                        fails.push(format!("size {} / {} bytes, expected {}", sz, b.len(), want));
                    }
                    if back != Ok(Ok((v, b.len()))) {
                        fails.push(format!("decodes to {:?}", back));
                    }
                    if b != canonical(v) {
                        fails.push("not the standard encoding".into());
                    }
                    let verdict = if fails.is_empty() { Verdict::Ok } else { fail("varint-roundtrip", fails.join("; ")) };
                    let nt = Some(fnv(req.as_bytes()));
                    (req, format!("{} {}", hex(&b), sz), verdict, nt)
                }
            }
        });
    }
    // decode: bodies of 0..=11 bytes, each raw (slow path below ten bytes) and padded (fast path)
    let mut bodies: Vec<Vec<u8>> = vec![vec![]];
    for b in 0..=255u8 {
        bodies.push(vec![b]);
    }
    let two: Vec<u8> = if args.thorough { (0..=255u8).collect() } else { vec![0x00, 0x01, 0x02, 0x7e, 0x7f, 0x80, 0x81, 0xfe, 0xff] };
    for a in &two {
        for b in &two {
            bodies.push(vec![*a, *b]);
        }
    }
    for len in 1..=11usize {
        for lead in [0x80u8, 0xff, 0x81] {
            for last in [0x00u8, 0x01, 0x02, 0x03, 0x7e, 0x7f, 0x80, 0xff] {
                let mut b = vec![lead; len - 1];
                b.push(last);
                bodies.push(b);
            }
        }
    }
    for v in boundaries_u64() {
        let c = canonical(v);
        // canonical, truncated by one, and every non-minimal extension up to 11 bytes
        if c.len() > 1 {
            bodies.push(c[..c.len() - 1].to_vec());
        }
        for extra in 1..=(11 - c.len()) {
            let mut o = vec![];
            put_varint(&mut o, v, &Pad { extra, junk: 0 });
            bodies.push(o);
        }
        bodies.push(c);
    }
    let n_rand = if args.thorough { 5000 } else { 500 };
    for _ in 0..n_rand {
        let len = rng.range(1, 11) as usize;
        let mut b: Vec<u8> = (0..len).map(|_| (rng.next() as u8) | 0x80).collect();
        if rng.chance(3, 4) {
            b[len - 1] &= 0x7f;
        }
        if rng.chance(1, 4) {
            let k = rng.below(len as u64) as usize;
            b[k] &= 0x7f;
        }
        bodies.push(b);
    }
    for (bi, body) in bodies.iter().enumerate() {
        let mut prng = Rng::for_case(args.seed, 11, bi as u64);
        let pad: Vec<u8> = match prng.below(4) {
            0 => vec![0x00; 10],
            1 => vec![0xff; 10],
            2 => vec![0x80; 10],
            _ => prng.bytes(10),
        };
        let raw = guarded({
            let b = body.clone();
            move || real_varint_dec(&b)
        });
        put(rec, |rec| {
            let req = format!("wire dec {}", hex(body));
            rec.count(if body.len() < 10 { "varint.dec.slow_path" } else { "varint.dec.fast_path" });
            let verdict = match &raw {
                Err(m) => fail("panic", m.clone()),
                Ok(_) => Verdict::Ok,
            };
            let nt = Some(fnv(req.as_bytes()));
            (req, show_dec(&raw), verdict, nt)
        });
        put(rec, |rec| {
            let mut padded = body.clone();
            padded.extend_from_slice(&pad);
            let req = format!("wire dec {}", hex(&padded));
            let fast = guarded({
                let b = padded.clone();
                move || real_varint_dec(&b)
            });
            rec.count("varint.dec.fast_path");
            // oracle on the implementation alone: when the body holds a complete varint, the
            // unrolled decoder and the byte-at-a-time decoder agree on value and length
            let complete = body.iter().take(10).any(|b| *b < 0x80);
            let verdict = match (&raw, &fast) {
                (_, Err(m)) => fail("panic", m.clone()),
                (Ok(a), Ok(b)) if complete && body.len() < 10 && a != b => fail("varint-fast-slow", format!("slow path {:?}, fast path {:?}", a, b)),
                _ => Verdict::Ok,
            };
            if complete && body.len() < 10 {
                rec.count("varint.dec.fast_vs_slow_compared");
            }
            let nt = Some(fnv(req.as_bytes()));
            (req, show_dec(&fast), verdict, nt)
        });
    }
}

fn boundaries_i64() -> Vec<i64> {
    let mut v = vec![0i64, 1, -1, i64::MIN, i64::MAX, i64::MIN + 1, i64::MAX - 1];
    for k in 0..63 {
        let p = 1i64 << k;
        for d in [-1i64, 0, 1] {
            v.push(p.wrapping_add(d));
            v.push(p.wrapping_add(d).wrapping_neg());
        }
    }
    v.sort();
    v.dedup();
    v
}

fn wire_zigzag(rec: &mut Recorder, _args: &Args) {
    for i in boundaries_i64() {
        put(rec, |rec| {
            let req = format!("wire zz {}", i);
            let r = guarded(move || prototk::zigzag(i));
            rec.count("zigzag.enc");
            match r {
                Err(m) => (req, "panic".into(), fail("panic", m), None),
                Ok(u) => {
                    let want: i128 = if i >= 0 { 2 * i as i128 } else { -2 * (i as i128) - 1 };
                    let back = guarded(move || prototk::unzigzag(u));
                    let verdict = if u as i128 == want && back == Ok(i) { Verdict::Ok } else { fail("zigzag", format!("zigzag({}) = {}, back {:?}", i, u, back)) };
                    let nt = Some(fnv(req.as_bytes()));
                    (req, u.to_string(), verdict, nt)
                }
            }
        });
    }
    for u in boundaries_u64() {
        put(rec, |rec| {
            let req = format!("wire unzz {}", u);
            let r = guarded(move || prototk::unzigzag(u));
            rec.count("zigzag.dec");
            match r {
                Err(m) => (req, "panic".into(), fail("panic", m), None),
                Ok(i) => {
                    let back = guarded(move || prototk::zigzag(i));
                    let verdict = if back == Ok(u) { Verdict::Ok } else { fail("zigzag", format!("unzigzag({}) = {}, back {:?}", u, i, back)) };
                    let nt = Some(fnv(req.as_bytes()));
                    (req, i.to_string(), verdict, nt)
                }
            }
        });
    }
}

fn wt_of(bits: u32) -> Option<&'static str> {
    match bits {
        0 | 1 | 2 | 5 => Some("ok"),
        _ => None,
    }
}

fn wire_tags(rec: &mut Recorder, args: &Args) {
    let nums: Vec<u64> = vec![
        0, 1, 2, 15, 16, 17, 127, 128, 2047, 2048, 16383, 16384, 18999, 19000, 19001, 19500, 19999, 20000, 262143, 262144, (1 << 28) - 1,
        1 << 28, (1 << 29) - 2, (1 << 29) - 1, 1 << 29, (1 << 29) + 1, (1 << 32) - 1,
    ];
    // every power of two +-1 (the tag varint grows a byte at field numbers 2^4, 2^11, 2^18, 2^25), and
    // seeded field numbers of every bit length in between
    let mut nums = nums;
    for k in 0..=32u32 {
        let p = 1u64 << k;
        for v in [p.wrapping_sub(1), p, p + 1] {
            if v <= (1 << 32) - 1 && !nums.contains(&v) {
                nums.push(v);
            }
        }
    }
    {
        let mut rng = Rng::for_case(args.seed, 0x7a6, 0);
        for k in 1..=29u32 {
            for _ in 0..2 {
                let v = (1u64 << (k - 1)) + rng.below(1u64 << (k - 1));
                if !nums.contains(&v) {
                    nums.push(v);
                }
            }
        }
    }
    for num in nums.iter().cloned() {
        for wt in 0..8u32 {
            put(rec, |rec| {
                let req = format!("wire tagenc {} {}", num, wt);
                let r = guarded(move || {
                    let f = prototk::FieldNumber::new(num as u32).map_err(|e| code_of(&e))?;
                    let w = prototk::WireType::new(wt).map_err(|e| code_of(&e))?;
                    let t = prototk::Tag { field_number: f, wire_type: w };
                    let b = stack_pack(t).to_vec();
                    let sz = t.pack_sz();
                    let back = <prototk::Tag as Unpackable>::unpack(&b).map(|(t, rest)| (t.field_number.get(), t.wire_type.tag_bits(), rest.len()));
                    Ok::<_, String>((b, sz, back.map_err(|e| code_of(&e))))
                });
                rec.count("tag.enc");
                let valid_num = num >= 1 && num <= (1 << 29) - 1 && !(19000..=19999).contains(&num);
                let nt = Some(fnv(req.as_bytes()));
                match r {
                    Err(m) => (req, "panic".into(), fail("panic", m), nt),
                    Ok(Err(code)) => {
                        let expected = if !valid_num { "invalid-field-number" } else { "unhandled-wire-type" };
                        let verdict = if (!valid_num || wt_of(wt).is_none()) && code == expected { Verdict::Ok } else { fail("tag-rejection", format!("got {}", code)) };
                        (req, format!("err {}", code), verdict, nt)
                    }
                    Ok(Ok((b, sz, back))) => {
                        let verdict = if valid_num && wt_of(wt).is_some() && back == Ok((num as u32, wt, 0)) && b == canonical((num << 3) | wt as u64) && sz == b.len() {
                            Verdict::Ok
                        } else {
                            fail("tag-roundtrip", format!("bytes {} pack_sz {} decode {:?}", hex(&b), sz, back))
                        };
                        (req, format!("{} {}", hex(&b), sz), verdict, nt)
                    }
                }
            });
        }
    }
    // decode: every (number, wire type) above as a raw varint, also beyond 32 bits, non-minimal, truncated
    let mut bufs: Vec<Vec<u8>> = vec![vec![]];
    let mut nums2 = nums.clone();
    nums2.extend_from_slice(&[1 << 32, (1 << 32) + 1, 1 << 40, (1 << 61) - 1]);
    for num in nums2 {
        for wt in 0..8u64 {
            let t = (num << 3) | wt;
            let c = canonical(t);
            if wt < 2 && c.len() > 1 {
                bufs.push(c[..c.len() - 1].to_vec());
            }
            if wt == 2 || wt == 3 {
                let mut o = vec![];
                put_varint(&mut o, t, &Pad { extra: 1 + (num % 3) as usize, junk: 0 });
                bufs.push(o);
            }
            let mut with_rest = c.clone();
            with_rest.extend_from_slice(&[0x01, 0x02]);
            bufs.push(c);
            if wt == 0 {
                bufs.push(with_rest);
            }
        }
    }
    bufs.push(vec![0xff; 10]);
    bufs.push(vec![0xff, 0xff, 0xff, 0xff, 0xff, 0xff, 0xff, 0xff, 0xff, 0x01]);
    bufs.push(vec![0x80; 11]);
    let mut rng = Rng::for_case(args.seed, 12, 0);
    for _ in 0..(if args.thorough { 2000 } else { 200 }) {
        let n = rng.range(1, 6) as usize;
        bufs.push(rng.bytes(n));
    }
    for b in bufs {
        put(rec, |rec| {
            let req = format!("wire tagdec {}", hex(&b));
            let r = guarded({
                let b = b.clone();
                move || <prototk::Tag as Unpackable>::unpack(&b).map(|(t, rest)| (t.field_number.get(), t.wire_type.tag_bits(), b.len() - rest.len())).map_err(|e| code_of(&e))
            });
            rec.count("tag.dec");
            // independent expectation
            let expect: Result<(u32, u32, usize), &str> = match get_varint(&b) {
                None => Err("varint-overflow"),
                Some((t, n)) => {
                    let (num, wt) = (t >> 3, (t & 7) as u32);
                    if t > u32::MAX as u64 {
                        Err("tag-too-large")
                    } else if num < 1 || num > (1 << 29) - 1 || (19000..=19999).contains(&num) {
                        Err("invalid-field-number")
                    } else if wt_of(wt).is_none() {
                        Err("unhandled-wire-type")
                    } else {
                        Ok((num as u32, wt, n))
                    }
                }
            };
            let nt = Some(fnv(req.as_bytes()));
            match r {
                Err(m) => (req, "panic".into(), fail("panic", m), nt),
                Ok(got) => {
                    let same = match (&got, &expect) {
                        (Ok(a), Ok(b)) => a == b,
                        (Err(a), Err(b)) => a == b,
                        _ => false,
                    };
                    let obs = match &got {
                        Ok((n, w, k)) => format!("ok {} {} {}", n, w, k),
                        Err(c) => format!("err {}", c),
                    };
                    let verdict = if same { Verdict::Ok } else { fail("tag-decode", format!("got {:?}, the wire format says {:?}", got, expect)) };
                    (req, obs, verdict, nt)
                }
            }
        });
    }
}

fn sdec_real(name: &str, b: &[u8]) -> Result<(V, usize), String> {
    use prototk::field_types as ft;
    macro_rules! go {
        ($t:ty, $conv:expr) => {
            match <$t as Unpackable>::unpack(b) {
                Ok((x, rest)) => Ok(($conv(x), rest.len())),
                Err(e) => Err(code_of(&e)),
            }
        };
    }
    match name {
        "int32" => go!(ft::int32, |x: ft::int32| V::I(x.0 as i128)),
        "int64" => go!(ft::int64, |x: ft::int64| V::I(x.0 as i128)),
        "uint32" => go!(ft::uint32, |x: ft::uint32| V::I(x.0 as i128)),
        "uint64" => go!(ft::uint64, |x: ft::uint64| V::I(x.0 as i128)),
        "sint32" => go!(ft::sint32, |x: ft::sint32| V::I(x.0 as i128)),
        "sint64" => go!(ft::sint64, |x: ft::sint64| V::I(x.0 as i128)),
        "Bool" => go!(ft::Bool, |x: ft::Bool| V::I(x.0 as i128)),
        "fixed32" => go!(ft::fixed32, |x: ft::fixed32| V::I(x.0 as i128)),
        "fixed64" => go!(ft::fixed64, |x: ft::fixed64| V::I(x.0 as i128)),
        "sfixed32" => go!(ft::sfixed32, |x: ft::sfixed32| V::I(x.0 as i128)),
        "sfixed64" => go!(ft::sfixed64, |x: ft::sfixed64| V::I(x.0 as i128)),
        "float" => go!(ft::float, |x: ft::float| V::I(x.0.to_bits() as i128)),
        "double" => go!(ft::double, |x: ft::double| V::I(x.0.to_bits() as i128)),
        "bytes" => go!(ft::bytes, |x: ft::bytes| V::X(x.0.to_vec())),
        "bytes16" => go!(ft::bytes16, |x: ft::bytes16| V::X(x.0.to_vec())),
        "bytes32" => go!(ft::bytes32, |x: ft::bytes32| V::X(x.0.to_vec())),
        "bytes64" => go!(ft::bytes64, |x: ft::bytes64| V::X(x.0.to_vec())),
        "string" => go!(ft::string, |x: ft::string| V::X(x.0.as_bytes().to_vec())),
        _ => Err("no-such-type".into()),
    }
}

const UTF8_PROBES: [&[u8]; 22] = [
    b"", b"a", &[0x7f], &[0x80], &[0xbf], &[0xc0, 0x80], &[0xc1, 0xbf], &[0xc2, 0x80], &[0xc2], &[0xdf, 0xbf], &[0xe0, 0x9f, 0xbf],
    &[0xe0, 0xa0, 0x80], &[0xed, 0x9f, 0xbf], &[0xed, 0xa0, 0x80], &[0xef, 0xbf, 0xbf], &[0xe1, 0x80], &[0xf0, 0x8f, 0xbf, 0xbf],
    &[0xf0, 0x90, 0x80, 0x80], &[0xf4, 0x8f, 0xbf, 0xbf], &[0xf4, 0x90, 0x80, 0x80], &[0xf5, 0x80, 0x80, 0x80], &[0x61, 0xf0, 0x9f, 0x98, 0x80, 0x62],
];

fn wire_scalars(rec: &mut Recorder, args: &Args) {
    let varint_types = ["int32", "int64", "uint32", "uint64", "sint32", "sint64", "Bool"];
    let fixed_types = ["fixed32", "fixed64", "sfixed32", "sfixed64", "float", "double"];
    let ld_types = ["bytes", "bytes16", "bytes32", "bytes64", "string"];
    let mut inputs: Vec<(&'static str, Vec<u8>)> = vec![];
    let mut rng = Rng::for_case(args.seed, 13, 0);
    for t in varint_types {
        inputs.push((t, vec![]));
        for v in boundaries_u64() {
            inputs.push((t, canonical(v)));
            if v.count_ones() == 1 {
                let mut o = vec![];
                put_varint(&mut o, v, &Pad { extra: 1, junk: 0 });
                o.push(0x55);
                inputs.push((t, o));
            }
        }
        inputs.push((t, vec![0xff; 10]));
        inputs.push((t, vec![0x80, 0x80]));
    }
    for t in fixed_types {
        for len in 0..=9usize {
            inputs.push((t, vec![0xff; len]));
            inputs.push((t, (1..=len as u8).collect()));
            inputs.push((t, rng.bytes(len)));
        }
        inputs.push((t, vec![0, 0, 0, 0x80, 0, 0, 0, 0x80]));
    }
    for t in ld_types {
        inputs.push((t, vec![]));
        for n in [0usize, 1, 15, 16, 17, 31, 32, 33, 63, 64, 65, 127, 128] {
            let content = match rng.below(3) {
                0 => vec![b'a'; n],
                1 => vec![0u8; n],
                _ => rng.bytes(n),
            };
            for (delta, pad) in [(0i64, 0usize), (1, 0), (-1, 0), (0, 1), (0, 9), (3, 0)] {
                let mut o = vec![];
                put_varint(&mut o, (n as i64 + delta).max(0) as u64, &Pad { extra: pad, junk: 0 });
                o.extend_from_slice(&content);
                if delta == 3 {
                    o.extend_from_slice(&[1, 2, 3, 4, 5]);
                }
                inputs.push((t, o));
            }
        }
        inputs.push((t, vec![0xff, 0xff, 0xff, 0xff, 0xff, 0xff, 0xff, 0xff, 0xff, 0x01]));
    }
    for p in UTF8_PROBES {
        let mut o = vec![p.len() as u8];
        o.extend_from_slice(p);
        inputs.push(("string", o));
    }
    for _ in 0..(if args.thorough { 3000 } else { 300 }) {
        // random short strings through the UTF-8 validator
        let n = rng.below(6) as usize;
        let alphabet = [0x00u8, 0x41, 0x7f, 0x80, 0x8f, 0x90, 0x9f, 0xa0, 0xbf, 0xc0, 0xc1, 0xc2, 0xdf, 0xe0, 0xe1, 0xec, 0xed, 0xee, 0xef, 0xf0, 0xf1, 0xf3, 0xf4, 0xf5, 0xff];
        let mut o = vec![n as u8];
        for _ in 0..n {
            o.push(*rng.pick(&alphabet));
        }
        inputs.push(("string", o));
    }
    for (t, b) in inputs {
        put(rec, |rec| {
            let req = format!("wire sdec {} {}", t, hex(&b));
            let r = guarded({
                let b = b.clone();
                move || sdec_real(t, &b)
            });
            rec.count(&format!("scalar.{}", t));
            let mut verdict = match &r {
                Err(m) => fail("panic", m.clone()),
                Ok(_) => Verdict::Ok,
            };
            // strings: the accepted ones are exactly the valid UTF-8 ones (std as reference)
            if t == "string" {
                if let (Ok(res), Some((len, k))) = (&r, get_varint(&b)) {
                    let rest = &b[k..];
                    if (rest.len() as u64) >= len {
                        let valid = std::str::from_utf8(&rest[..len as usize]).is_ok();
                        if valid != res.is_ok() {
                            verdict = fail("string-utf8", format!("valid={} but result {:?}", valid, res));
                        }
                    }
                }
            }
            let nt = Some(fnv(req.as_bytes()));
            (req, show_unpack(&r), verdict, nt)
        });
    }
}

fn real_fields(b: &[u8]) -> String {
    let mut err: Option<SError> = None;
    let mut items: Vec<String> = vec![];
    {
        let it = prototk::FieldIterator::new(b, &mut err);
        for (tag, slice) in it {
            items.push(format!("{}:{}:{}", tag.field_number.get(), tag.wire_type.tag_bits(), hex(slice)));
        }
    }
    match err {
        None => items.push("end".into()),
        Some(e) => items.push(format!("err {}", code_of(&e))),
    }
    items.join(" ")
}

fn wire_fields(rec: &mut Recorder, args: &Args) {
    let n = if args.thorough { 6000 } else { 600 };
    for i in 0..n {
        put(rec, |rec| {
            let mut rng = Rng::for_case(args.seed, 14, i);
            let bytes: Vec<u8> = match rng.below(4) {
                0 => {
                    let k = rng.below(8) as usize;
                    rng.bytes(k)
                }
                1 => {
                    let k = rng.below(8) as usize;
                    (0..k).map(|_| *rng.pick(&ALPHABET)).collect()
                }
                _ => {
                    let v: Outer = gen_value::<Outer>(args.seed, 14, i, false);
                    let mut tree = enc_msg(&Outer::sch(), &v.mval());
                    let n = count_nodes(&tree);
                    if n > 0 && rng.chance(2, 3) {
                        let mut target = rng.below(n as u64) as usize;
                        let kind = rng.below(10);
                        mutate_at(&mut tree, &mut target, kind, &mut rng);
                    }
                    let mut b = ser(&tree);
                    post_mutate(&mut rng, &mut b);
                    b
                }
            };
            let req = format!("wire fields {}", hex(&bytes));
            let r = guarded({
                let b = bytes.clone();
                move || real_fields(&b)
            });
            rec.count("field_iterator");
            let nt = Some(fnv(req.as_bytes()));
            match r {
                Err(m) => (req, "panic".into(), fail("panic", format!("FieldIterator panicked: {}", m)), nt),
                Ok(s) => (req, s, Verdict::Ok, nt),
            }
        });
    }
}

// ------------------------------------------------------------------------------------------------
// v64::unpack as the code has it: slow decoder below ten bytes, unrolled dispatch from ten on
// (model: Blue.Varint.unpack, with the `bytes` field of the overflow error)
// ------------------------------------------------------------------------------------------------

/// the `bytes` atom of `varint_overflow(bytes)`, read from the S-expression text of the error
fn bytes_field(e: &SError) -> String {
    let t = e.to_string();
    match t.find("(bytes ") {
        Some(i) => t[i + 7..].chars().take_while(|c| c.is_ascii_digit()).collect(),
        None => "?".into(),
    }
}

fn real_varint_unpack(b: &[u8]) -> Result<(u64, usize), (String, String)> {
    match <v64 as Unpackable>::unpack(b) {
        Ok((v, rest)) => Ok((v.into(), b.len() - rest.len())),
        Err(e) => Err((code_of(&e), bytes_field(&e))),
    }
}

fn show_varint_unpack(r: &Result<Result<(u64, usize), (String, String)>, String>) -> String {
    match r {
        Err(_) => "panic".into(),
        Ok(Err((c, b))) => format!("err {} bytes={}", c, b),
        Ok(Ok((v, n))) => format!("ok {} {}", v, n),
    }
}

fn wire_unpack_paths(rec: &mut Recorder, args: &Args) {
    let mut bufs: Vec<(Vec<u8>, &'static str)> = vec![];
    // every length around the boundary, every position of the terminating byte, several fills
    for len in 0..=13usize {
        for fill in [0x80u8, 0xff, 0x81, 0xaa] {
            bufs.push((vec![fill; len], "all-continuation"));
            for k in 0..len {
                for last in [0x00u8, 0x01, 0x02, 0x03, 0x40, 0x7e, 0x7f] {
                    if fill != 0x80 && fill != 0xff && !(last == 0x01 || last == 0x7f) {
                        continue;
                    }
                    let mut b = vec![fill; len];
                    b[k] = last;
                    bufs.push((b, if k == 9 { "tenth-byte-terminates" } else if k > 9 { "eleventh-or-later" } else { "terminator-at-k" }));
                }
            }
        }
    }
    // nine continuation bytes and a tenth byte of every value, followed by 0, 1, 2 more bytes
    for tenth in 0..=255u8 {
        for extra in 0..=2usize {
            for fill in [0x80u8, 0xff] {
                if extra > 0 && fill == 0xff && tenth % 16 != 1 {
                    continue;
                }
                let mut b = vec![fill; 9];
                b.push(tenth);
                b.extend(std::iter::repeat(0x55u8).take(extra));
                bufs.push((b, if tenth >= 0x80 { "continuation-in-byte-9" } else if tenth > 1 { "tenth-byte-above-1" } else { "tenth-byte-0-or-1" }));
            }
        }
    }
    // canonical encodings of boundary values (all >= 2^63 included) with trailers that straddle ten bytes
    let mut rng = Rng::for_case(args.seed, 14, 0);
    for v in boundaries_u64() {
        let c = canonical(v);
        for total in [c.len(), c.len() + 1, 9, 10, 11, 12, 20] {
            if total < c.len() {
                continue;
            }
            let mut b = c.clone();
            let fill = *rng.pick(&[0x00u8, 0x80, 0xff, 0x01]);
            b.extend(std::iter::repeat(fill).take(total - c.len()));
            bufs.push((b, if v >= 1 << 63 { "value-at-least-2^63" } else { "canonical-with-trailer" }));
        }
        // non-minimal forms padded out to exactly 9, 10, 11 bytes
        for total in [9usize, 10, 11] {
            if total > c.len() {
                let mut o = vec![];
                put_varint(&mut o, v, &Pad { extra: total - c.len(), junk: 0 });
                bufs.push((o, "non-minimal-to-boundary"));
            }
        }
    }
    let n_rand = if args.thorough { 20000 } else { 1500 };
    for _ in 0..n_rand {
        let len = rng.range(0, 13) as usize;
        let mut b: Vec<u8> = (0..len).map(|_| (rng.next() as u8) | 0x80).collect();
        if len > 0 && rng.chance(2, 3) {
            let k = rng.below(len as u64) as usize;
            b[k] &= 0x7f;
        }
        if len > 9 && rng.chance(1, 3) {
            b[9] = *rng.pick(&[0x00u8, 0x01, 0x02, 0x7f, 0x80, 0xff]);
        }
        bufs.push((b, "random"));
    }
    for (b, label) in bufs {
        put(rec, |rec| {
            let req = format!("wire unpack {}", hex(&b));
            let r = guarded({
                let b = b.clone();
                move || real_varint_unpack(&b)
            });
            rec.count(&format!("varint.unpack.{}", if b.len() < 10 { "slow_path" } else { "fast_path" }));
            rec.count(&format!("varint.unpack.len{:02}", b.len()));
            rec.count(&format!("varint.unpack.{}", label));
            // oracle 1 (independent decoder, protobuf encoding document + the ten-byte limit + u64
            // wrap-around): value and length, or an overflow error carrying the buffer length
            let reference = get_varint(&b);
            let mut fails = vec![];
            let mut class = "varint-unpack";
            match (&r, reference) {
                (Err(m), _) => {
                    class = "panic";
                    fails.push(format!("panicked: {}", m.replace('\n', " ")));
                }
                (Ok(Ok(got)), Some(want)) if *got == want => {}
                (Ok(Err((c, n))), None) if c == "varint-overflow" && *n == b.len().to_string() => {}
                (Ok(other), want) => fails.push(format!("got {:?}, reference {:?} (len {})", other, want, b.len())),
            }
            // oracle 2 (implementation against itself): the other decoder on the same varint.  A
            // long buffer whose varint ends within nine bytes is cut to nine bytes (slow decoder);
            // a short buffer is padded with zeros to ten bytes (unrolled dispatch)
            if let Ok(Ok((v, n))) = &r {
                let other: Vec<u8> = if b.len() >= 10 && *n <= 9 {
                    b[..9].to_vec()
                } else if b.len() < 10 {
                    let mut o = b.clone();
                    o.resize(10, 0);
                    o
                } else {
                    vec![]
                };
                if !other.is_empty() {
                    rec.count("varint.unpack.fast_vs_slow_compared");
                    let o2 = guarded(move || real_varint_unpack(&other));
                    if o2 != Ok(Ok((*v, *n))) {
                        if class != "panic" {
                            class = "varint-fast-slow";
                        }
                        fails.push(format!("the other decoder gives {:?}", o2));
                    }
                }
            }
            let verdict = if fails.is_empty() { Verdict::Ok } else { fail(class, fails.join("; ")) };
            let nt = Some(fnv(req.as_bytes()));
            (req, show_varint_unpack(&r), verdict, nt)
        });
    }
}

// ------------------------------------------------------------------------------------------------
// pack_sz of every field type (model: Blue.ProtoMsg.szScalar — the sum the code adds up)
// ------------------------------------------------------------------------------------------------

fn ssz_real(name: &str, v: &V) -> Option<(Vec<u8>, usize)> {
    use prototk::field_types as ft;
    macro_rules! go {
        ($e:expr) => {{
            let x = $e;
            Some((stack_pack(&x).to_vec(), x.pack_sz()))
        }};
    }
    match (name, v) {
        ("int32", V::I(i)) => go!(ft::int32(*i as i32)),
        ("int64", V::I(i)) => go!(ft::int64(*i as i64)),
        ("uint32", V::I(i)) => go!(ft::uint32(*i as u32)),
        ("uint64", V::I(i)) => go!(ft::uint64(*i as u64)),
        ("sint32", V::I(i)) => go!(ft::sint32(*i as i32)),
        ("sint64", V::I(i)) => go!(ft::sint64(*i as i64)),
        ("Bool", V::I(i)) => go!(ft::Bool(*i != 0)),
        ("fixed32", V::I(i)) => go!(ft::fixed32(*i as u32)),
        ("fixed64", V::I(i)) => go!(ft::fixed64(*i as u64)),
        ("sfixed32", V::I(i)) => go!(ft::sfixed32(*i as i32)),
        ("sfixed64", V::I(i)) => go!(ft::sfixed64(*i as i64)),
        ("float", V::I(i)) => go!(ft::float(f32::from_bits(*i as u32))),
        ("double", V::I(i)) => go!(ft::double(f64::from_bits(*i as u64))),
        ("bytes", V::X(b)) => go!(ft::bytes(b)),
        ("bytes16", V::X(b)) => go!(ft::bytes16(b.as_slice().try_into().ok()?)),
        ("bytes32", V::X(b)) => go!(ft::bytes32(b.as_slice().try_into().ok()?)),
        ("bytes64", V::X(b)) => go!(ft::bytes64(b.as_slice().try_into().ok()?)),
        ("string", V::X(b)) => go!(ft::string(std::str::from_utf8(b).ok()?)),
        _ => None,
    }
}

fn wire_sizes(rec: &mut Recorder, args: &Args) {
    let mut inputs: Vec<(&'static str, V)> = vec![];
    for v in boundaries_u64() {
        inputs.push(("uint64", V::I(v as i128)));
        inputs.push(("fixed64", V::I(v as i128)));
        inputs.push(("double", V::I(v as i128)));
        if v <= u32::MAX as u64 {
            inputs.push(("uint32", V::I(v as i128)));
            inputs.push(("fixed32", V::I(v as i128)));
            inputs.push(("float", V::I(v as i128)));
        }
        if v <= 1 {
            inputs.push(("Bool", V::I(v as i128)));
        }
    }
    for v in boundaries_i64() {
        inputs.push(("int64", V::I(v as i128)));
        inputs.push(("sint64", V::I(v as i128)));
        inputs.push(("sfixed64", V::I(v as i128)));
        if v >= i32::MIN as i64 && v <= i32::MAX as i64 {
            inputs.push(("int32", V::I(v as i128)));
            inputs.push(("sint32", V::I(v as i128)));
            inputs.push(("sfixed32", V::I(v as i128)));
        }
    }
    let mut rng = Rng::for_case(args.seed, 15, 0);
    for n in [0usize, 1, 2, 126, 127, 128, 129, 255, 256, 16383, 16384, 16385, 70000] {
        inputs.push(("bytes", V::X(rng.bytes(n))));
        inputs.push(("string", V::X(vec![b'a' + (n % 26) as u8; n])));
    }
    inputs.push(("bytes16", V::X(rng.bytes(16))));
    inputs.push(("bytes32", V::X(rng.bytes(32))));
    inputs.push(("bytes64", V::X(rng.bytes(64))));
    for (t, v) in inputs {
        put(rec, |rec| {
            let req = format!("wire ssz {} {}", t, v.show());
            let r = guarded({
                let v = v.clone();
                move || ssz_real(t, &v)
            });
            rec.count(&format!("scalar_size.{}", t));
            let nt = Some(fnv(req.as_bytes()));
            match r {
                Err(m) => (req, "panic".into(), fail("panic", m), nt),
                Ok(None) => (req, "bad-value".into(), fail("harness", "value does not fit the field type".into()), nt),
                Ok(Some((b, sz))) => {
                    let verdict = if sz == b.len() { Verdict::Ok } else { fail("pack-sz", format!("pack_sz {} but {} bytes written", sz, b.len())) };
                    (req, format!("{} {}", hex(&b), sz), verdict, nt)
                }
            }
        });
    }
}

// ------------------------------------------------------------------------------------------------

fn one_type<T: Fam + std::panic::RefUnwindSafe>(rec: &mut Recorder, args: &Args, stream: u64, sweep: bool, t: &Tier, exhaustive: Option<u8>) {
    let n = if sweep { t.n_round + 209 } else { t.n_round };
    roundtrip_stream::<T>(rec, args.seed, stream, n, sweep);
    hostile_stream::<T>(rec, args.seed, stream + 1, t);
    unknown_stream::<T>(rec, args.seed, stream + 2, t.n_unknown);
    unknown_anywhere_stream::<T>(rec, args.seed, stream + 3, t.n_unknown);
    if let Some(three) = exhaustive {
        exhaustive_stream::<T>(rec, three);
    }
}

/// the minimal reproduction of D-21, as a fixed case
fn d21_minimal(rec: &mut Recorder) {
    fam_struct!(Wrap { 1 message e: [Choice2] });
    let sch = Wrap::sch();
    for bytes in [vec![0x0au8, 0x03, 0x0a, 0x00, 0x00], vec![0x0a, 0x04, 0x10, 0x05, 0x10, 0x06], vec![0x0a, 0x02, 0x0a, 0x00]] {
        put(rec, |rec| {
            let req = format!("proto unpack {} | {}", sch.show(), hex(&bytes));
            let b2 = bytes.clone();
            let r = guarded(move || Wrap::unpack_obs(&b2));
            rec.count("d21.fixed_case");
            let verdict = hostile_verdict(&sch, &bytes, &r);
            let nt = Some(fnv(req.as_bytes()));
            (req, show_unpack(&r), verdict, nt)
        });
    }
}

pub fn run(args: &Args) {
    let mut rec = Recorder::new(&args.out, args.only_case);
    let t = if args.thorough {
        Tier { n_round: 1500, n_mut: 4000, n_unknown: 1000, n_prefix: 20 }
    } else {
        Tier { n_round: 120, n_mut: 350, n_unknown: 100, n_prefix: 3 }
    };
    wire_varints(&mut rec, args);
    wire_zigzag(&mut rec, args);
    wire_tags(&mut rec, args);
    wire_scalars(&mut rec, args);
    wire_fields(&mut rec, args);
    wire_unpack_paths(&mut rec, args);
    wire_sizes(&mut rec, args);
    d21_minimal(&mut rec);
    let three: u8 = if args.thorough { 2 } else { 1 };
    one_type::<Ints>(&mut rec, args, 100, true, &t, Some(three));
    one_type::<Doubles>(&mut rec, args, 110, true, &t, None);
    one_type::<Floats>(&mut rec, args, 120, true, &t, None);
    one_type::<Blobs>(&mut rec, args, 130, false, &t, Some(0));
    one_type::<Inner>(&mut rec, args, 140, false, &t, None);
    one_type::<Choice2>(&mut rec, args, 150, false, &t, None);
    one_type::<Choice>(&mut rec, args, 160, false, &t, Some(three));
    one_type::<Opts>(&mut rec, args, 170, false, &t, None);
    one_type::<Reps>(&mut rec, args, 180, false, &t, None);
    one_type::<Mid>(&mut rec, args, 190, false, &t, None);
    one_type::<Outer>(&mut rec, args, 200, false, &t, Some(1));
    one_type::<BigNums>(&mut rec, args, 210, false, &t, None);
    one_type::<Empty>(&mut rec, args, 220, false, &Tier { n_round: 1, n_mut: 30, n_unknown: 30, n_prefix: 0 }, None);
    one_type::<Res>(&mut rec, args, 230, false, &t, Some(0));
    one_type::<ResEnum>(&mut rec, args, 240, false, &t, None);
    one_type::<TopRes>(&mut rec, args, 250, false, &t, Some(0));
    one_type::<TopResEnum>(&mut rec, args, 260, false, &t, None);
    rec.finish(
        "wire level: v64 pack at every power of two +-1 and unpack of 0..11-byte bodies (all 1-byte, boundary and non-minimal forms, over-long) each raw (slow path) and padded to >= 10 bytes (fast path); v64::unpack against the two-decoder model (Blue.Varint.unpack, with the bytes field of the overflow error) on buffers of 0..13 bytes with the terminating byte at every position, nine continuation bytes followed by every tenth byte, boundary values (all >= 2^63) with trailers straddling ten bytes, non-minimal forms of exactly 9/10/11 bytes, random continuation-heavy buffers; pack_sz of every field type at the integer boundaries and at length-prefix boundaries against the model's szScalar; zig-zag, tags (field-number and wire-type boundaries), every field type's unpack on boundary / truncated / non-minimal inputs, FieldIterator on valid and mutated buffers. messages: 17 derived types covering every field type and container; per type seeded values (integer fields swept over every power of two +-1, floats over 14 special bit patterns) packed and unpacked, structure-aware mutations of valid encodings, every prefix of valid encodings, unknown fields inserted into struct frames of valid encodings, unknown fields (also non-minimally encoded) inserted at a field boundary of MUTATED / truncated / garbage-tailed buffers of struct types with the result compared against the buffer without them, and all byte strings up to length 2 (plus length 3 per tier) for selected types. non-trivial = a wire case with a non-empty request, a message case whose encoding is non-empty; distinct by request text",
        &[],
    );
}
