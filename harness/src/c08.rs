//! C08 — no needed file is ever removed; clean-up removes only unreferenced files.
//!
//! Store histories as in C01 with verifier passes and reopens.  Observed after every operation:
//! the names in sst/, trash/, mani/, verify/ and the logs.
//!  * oracle: every SST of the current version is in sst/; a verifier pass removes only names that
//!    were in trash/ (or fully processed manifest fragments, never the newest two, never MANIFEST)
//!    and leaves sst/ untouched; after every verifier pass the store is reopened and every key
//!    reads back unchanged (point reads and a full scan).
//!  * correspondence: the reference-counting model (`Blue.FileRefs.step`: install_version /
//!    explicit_ref / explicit_unref and the move to trash/) fed with the versions the store
//!    installed predicts exactly which names are in sst/ and which have left it.
//!
//! Added: the offline verifier and the reopen-time orphan clean-up are *modelled*
//! (`Blue.Verifier`, `Blue.Orphans`).  Before every real verifier pass and every real reopen the
//! directory (names in sst/ and trash/, every manifest fragment with its edits, the verifier's own
//! manifest) is dumped and handed to the model, which predicts the status of the pass, what it
//! unlinks and the state of the verifier's manifest afterwards (`vfy pass`), respectively what
//! `cleanup_orphans` renames and what the manifest lists (`orph`).  Traced passes run in a child
//! under strace on a copy of the directory: the order of the unlinks and of the two edits of
//! verify/MANIFEST is compared with the model's action list (`vfy trace`), the directory after
//! every prefix of the traced system calls with the model's crash states (`vfy prefixes`), and
//! every distinct crash image (completed calls persist / unsynced bytes lost) is restarted with
//! the real verifier (compared with the model's pass from that state), then reopened with the
//! real store and read back.  Directed images: the last trash moves undone (orphans), an
//! interrupted rollover of the store manifest, a logged file not yet in trash/ (backoff), files
//! removed and re-created under the same name within one edit, across edits and across fragments.
//!
//! Added (the two newest manifest entries; the live MANIFEST at the time of the orphan scan):
//!  * `directed_newest` (histories n0..n3): D-28's history cut short, so that at the FIRST verifier
//!    pass the second removal of the re-created files is still in MANIFEST or in the newest
//!    numbered fragment — the two entries `LsmVerifier::verify` pops and never processes, but over
//!    which `last_removals` ranges — while the first removal and the edit that adds the files back
//!    are in processable fragments; then the passes that come to the second removal.  Oracle
//!    classes as input predicates: `NEWEST2` (a pass unlinked, or stopped with NotFound on, the
//!    trash copy of a file whose LAST removal is in the two newest entries).  The run fails
//!    (`machinery`) if a history does not reach the situation.
//!  * `relisted_case` (images relisted0, relisted1): the crash that catches the flush thread between
//!    the ingest of X2 and the move of its log to trash/ and the compaction thread between the
//!    manifest edit `-X1 -X2 +Y` and the install of the version; on reopen log recovery lists X2
//!    again in the LIVE MANIFEST, before `cleanup_orphans` scans it.  The `orph` request carries the
//!    fragments of the directory after the open, MANIFEST (with the recovery edits) last.  Oracle
//!    class `RELISTED`: clean-up moved a file that an edit of the live MANIFEST written during this
//!    open lists again.
use crate::common::*;
use crate::fstrace::{self, FsOp, SimFs};
use crate::store::*;
use std::collections::{BTreeMap, BTreeSet};

fn tainted(v: Verdict, taint: &Option<String>) -> Verdict {
    match (v, taint) {
        (Verdict::Ok, Some(c)) => Verdict::Taint { class: c.clone() },
        (v, _) => v,
    }
}

fn version_files(d: &StateDump) -> Vec<String> {
    let mut v: Vec<String> = d.levels.iter().flat_map(|l| l.iter().map(|f| hex(&f.setsum)[..12].to_string())).collect();
    v.sort();
    v
}

fn short(names: &[String]) -> BTreeSet<String> {
    names.iter().filter(|n| n.ends_with(".sst")).map(|n| n[..12].to_string()).collect()
}

fn plus(v: &[String]) -> String {
    if v.is_empty() {
        "-".into()
    } else {
        v.join("+")
    }
}

struct Incarnation {
    v0: Vec<String>,
    events: Vec<String>,
    observed: Vec<String>,
    sst_at_start: BTreeSet<String>,
    left: BTreeSet<String>,
}

fn flush_incarnation(rec: &mut Recorder, inc: &Incarnation, taint: &Option<String>) {
    if inc.events.is_empty() {
        return;
    }
    let req = format!("refs run {} :: {}", plus(&inc.v0), inc.events.join(" "));
    rec.count("incarnations");
    rec.add("installs", inc.events.len() as u64);
    rec.case(&req, &inc.observed.join(" | "), tainted(Verdict::Ok, taint), if inc.events.len() >= 3 { Some(fnv(req.as_bytes())) } else { None });
}

/// what a history is made of here: the store operations of C01 plus reopen with other options,
/// traced verifier passes and the directed images
#[derive(Clone, Debug)]
pub enum XOp {
    S(Op),
    /// reopen with different options (e.g. another target file size: merges then splits re-create
    /// files under the names of files removed earlier)
    ReopenCfg(Cfg),
    /// a verifier pass traced on a copy (action order, crash images), then the pass for real
    TracedVerify,
    /// on a copy: some of the trash moves of the last manifest edit undone, then reopen
    OrphanImage,
    /// on a copy: MANIFEST hard-linked to the next backup name (rollover died before its rename),
    /// then a verifier pass, then reopen
    RolloverImage,
    /// on a copy: one logged file not yet in trash/ (still in sst/), verifier pass (backoff), the
    /// file arrives, second pass, reopen
    BackoffImage,
}

impl XOp {
    fn render(&self) -> String {
        match self {
            XOp::S(o) => o.render(),
            XOp::ReopenCfg(c) => format!("reopen[{}]", cfg_arg(c)),
            XOp::TracedVerify => "verify-traced".into(),
            XOp::OrphanImage => "orphan-image".into(),
            XOp::RolloverImage => "rollover-image".into(),
            XOp::BackoffImage => "backoff-image".into(),
        }
    }
}

fn ctr(rec: &Recorder, key: &str) -> u64 {
    rec.counters.get(key).copied().unwrap_or(0)
}

fn find_file(dir: &str, short_name: &str) -> Option<String> {
    list_dir(dir, "").into_iter().find(|n| sh(n) == short_name)
}

fn orphan_image(rec: &mut Recorder, tag: &str, sim: &Sim, keys: &[Vec<u8>], taint: &Option<String>, rng: &mut Rng) {
    let img = scratch_dir(&format!("c08o.{}", fnv(tag.as_bytes())));
    if copy_tree(&sim.root, &img).is_err() {
        return;
    }
    let d = abs_dir(&img);
    // the newest edit that removes something
    let mut edits: Vec<&AEdit> = vec![];
    for (_, es) in &d.frags {
        edits.extend(es.iter().skip(1));
    }
    edits.extend(d.live.iter().skip(1));
    let cands: Vec<String> = match edits.iter().rev().find(|e| !e.rm.is_empty()) {
        Some(e) => e.rm.iter().filter(|x| !e.add.contains(x) && d.trash.contains(&format!("{}.sst", x)) && !d.sst.contains(x)).cloned().collect(),
        None => vec![],
    };
    if cands.is_empty() {
        rec.count("orphan_image.nothing_to_undo");
        let _ = std::fs::remove_dir_all(&img);
        return;
    }
    let mut moved = 0;
    for (i, x) in cands.iter().enumerate() {
        if i == 0 || rng.chance(1, 2) {
            if let Some(full) = find_file(&format!("{}/trash", img), &format!("{}.sst", x)) {
                if std::fs::rename(format!("{}/trash/{}", img, full), format!("{}/sst/{}", img, full)).is_ok() {
                    moved += 1;
                }
            }
        }
    }
    rec.count("orphan_image.images");
    rec.add("orphan_image.trash_moves_undone", moved);
    reopen_image(rec, tag, &img, &sim.cfg, keys, &sim.oracle, taint);
}

fn rollover_image(rec: &mut Recorder, tag: &str, sim: &Sim, keys: &[Vec<u8>], taint: &Option<String>, rng: &mut Rng) {
    let img = scratch_dir(&format!("c08r.{}", fnv(tag.as_bytes())));
    if copy_tree(&sim.root, &img).is_err() {
        return;
    }
    let next = list_dir(&img, "mani").iter().filter_map(|n| mani::extract_backup(std::path::Path::new(n))).max().unwrap_or(0) + 1;
    if std::fs::hard_link(format!("{}/mani/MANIFEST", img), format!("{}/mani/MANIFEST.{}", img, next)).is_err() {
        let _ = std::fs::remove_dir_all(&img);
        return;
    }
    if rng.chance(1, 2) {
        // the temporary the rollover was writing: an unfinished edit
        let _ = std::fs::write(format!("{}/mani/MANIFEST.tmp", img), b"0badc0de+deadbeef\n");
    }
    rec.count("rollover_image.images");
    pass_on_image(rec, &format!("{} verify", tag), &img, &sim.cfg, taint);
    reopen_image(rec, tag, &img, &sim.cfg, keys, &sim.oracle, taint);
}

fn backoff_image(rec: &mut Recorder, tag: &str, sim: &Sim, keys: &[Vec<u8>], taint: &Option<String>, rng: &mut Rng) {
    let img = scratch_dir(&format!("c08b.{}", fnv(tag.as_bytes())));
    if copy_tree(&sim.root, &img).is_err() {
        return;
    }
    let d = abs_dir(&img);
    let cands: Vec<String> = d.recorded(u64::MAX).into_iter().filter(|x| x.ends_with(".sst") && d.trash.contains(x) && !d.sst.contains(&x[..x.len() - 4].to_string())).collect();
    if cands.is_empty() {
        rec.count("backoff_image.nothing_logged");
        let _ = std::fs::remove_dir_all(&img);
        return;
    }
    let x = rng.pick(&cands).clone();
    let Some(full) = find_file(&format!("{}/trash", img), &x) else {
        let _ = std::fs::remove_dir_all(&img);
        return;
    };
    let (t, s) = (format!("{}/trash/{}", img, full), format!("{}/sst/{}", img, full));
    if std::fs::rename(&t, &s).is_err() {
        let _ = std::fs::remove_dir_all(&img);
        return;
    }
    rec.count("backoff_image.images");
    let (_, _, st) = pass_on_image(rec, &format!("{} first pass", tag), &img, &sim.cfg, taint);
    if st.starts_with("backoff") {
        rec.count("backoff_image.backed_off");
    }
    // the file arrives in trash/
    let _ = std::fs::rename(&s, &t);
    pass_on_image(rec, &format!("{} second pass", tag), &img, &sim.cfg, taint);
    reopen_image(rec, tag, &img, &sim.cfg, keys, &sim.oracle, taint);
}

pub fn run_history(rec: &mut Recorder, seed: u64, hidx: u64, len: usize, nkeys: usize, budget: &mut TraceBudget) {
    let mut rng = Rng::for_case(seed, 108, hidx);
    let cfg = Cfg::gen(&mut rng);
    let mode = hidx % 4 % 3;
    let mut ops = gen_history(&mut rng, if mode == 1 { len * 2 } else { len }, nkeys, mode);
    // more verifier passes than the common generator gives
    let extra = ops.len() / 12;
    for _ in 0..extra {
        let at = rng.below(ops.len() as u64) as usize;
        ops.insert(at, Op::Verify);
    }
    let mut xops: Vec<XOp> = vec![];
    for op in ops {
        match op {
            Op::Verify => {
                match rng.below(10) {
                    0 => xops.push(XOp::RolloverImage),
                    1 | 2 => xops.push(XOp::BackoffImage),
                    _ => {}
                }
                if rng.chance(1, 3) {
                    xops.push(XOp::TracedVerify);
                } else {
                    xops.push(XOp::S(Op::Verify));
                }
                if rng.chance(1, 5) {
                    // the verifier run twice in a row
                    xops.push(XOp::S(Op::Verify));
                }
            }
            Op::Reopen if rng.chance(1, 3) => {
                // the same store under other options
                // (the garbage-collection policy stays: the verifier re-runs every collection under
                // the policy it is given, and rejects one made under a policy that kept less)
                let mut c = Cfg::gen(&mut rng);
                c.mani_ratio = cfg.mani_ratio;
                c.gc_versions = cfg.gc_versions;
                xops.push(XOp::ReopenCfg(c));
            }
            o => xops.push(XOp::S(o)),
        }
    }
    run_ops(rec, &format!("h{}", hidx), &cfg, &xops, nkeys, &mut rng, budget);
}

pub fn run_ops(rec: &mut Recorder, hname: &str, cfg: &Cfg, xops: &[XOp], nkeys: usize, rng: &mut Rng, budget: &mut TraceBudget) {
    let root = scratch_dir(&format!("c08.{}", hname));
    rec.aux(&format!("history {} cfg {} ops {}", hname, cfg.render(), xops.iter().map(|o| o.render()).collect::<Vec<_>>().join(" ")));
    let mut sim = match Sim::open(&root, cfg) {
        Ok(s) => s,
        Err(e) => {
            rec.case(&format!("# history {} open", hname), "#", Verdict::Fail { class: "open-error".into(), detail: e }, None);
            return;
        }
    };
    let keys: Vec<Vec<u8>> = ALPHABET[..nkeys].iter().map(|k| k.to_vec()).collect();
    let mut taint: Option<String> = None;
    let new_inc = |sim: &Sim| -> Option<Incarnation> {
        let d = sim.dump().ok()?;
        let l = sim.listing();
        let sst = short(l.get("sst")?);
        Some(Incarnation { v0: version_files(&d), events: vec![], observed: vec![], sst_at_start: sst, left: BTreeSet::new() })
    };
    let mut inc = match new_inc(&sim) {
        Some(i) => i,
        None => return,
    };
    let mut prev_files = inc.v0.clone();
    let mut prev_levels: Vec<Vec<String>> = vec![];
    'ops: for (step, xop) in xops.iter().enumerate() {
        let tag = format!("{}s{}:{}", hname, step, xop.render());
        let op: Op = match xop {
            XOp::S(o) => o.clone(),
            XOp::ReopenCfg(c) => {
                sim.cfg = c.clone();
                rec.count("reopens_with_other_options");
                Op::Reopen
            }
            XOp::TracedVerify => {
                if budget.passes > 0 {
                    budget.passes -= 1;
                    traced_pass(rec, &tag, &sim.root, &sim.cfg, &keys, &sim.oracle, &taint, budget.images_per_pass);
                }
                Op::Verify
            }
            XOp::OrphanImage => {
                orphan_image(rec, &tag, &sim, &keys, &taint, rng);
                continue;
            }
            XOp::RolloverImage => {
                rollover_image(rec, &tag, &sim, &keys, &taint, rng);
                continue;
            }
            XOp::BackoffImage => {
                backoff_image(rec, &tag, &sim, &keys, &taint, rng);
                continue;
            }
        };
        let op = &op;
        if let Op::Reopen = op {
            if taint.is_none() {
                if let Ok(d) = sim.dump() {
                    if crate::c01::d9_trigger(&d) {
                        taint = Some("reopen-with-key-and-timestamp-overlapping-files".to_string());
                        rec.count("histories_tainted_by_D9_trigger");
                    }
                }
            }
        }
        let before = sim.listing();
        let abs_before = if matches!(op, Op::Verify | Op::Reopen) { Some(abs_dir(&sim.root)) } else { None };
        let res = match guarded(std::panic::AssertUnwindSafe(|| sim.apply(op))) {
            Ok(r) => r,
            Err(p) => Err(format!("panic:{}", p)),
        };
        if let Err(e) = res {
            rec.case(&format!("# {}", tag), "#", Verdict::Fail { class: taint.clone().unwrap_or_else(|| "fault-free-op-error".to_string()), detail: format!("{} -> {}", tag, e) }, None);
            break;
        }
        let pf = std::mem::take(&mut sim.probe_failures);
        if !pf.is_empty() {
            rec.case(&format!("# {} inside", tag), "#", Verdict::Fail { class: taint.clone().unwrap_or_else(|| "needed-file-removed".to_string()), detail: format!("{} {}", tag, pf.iter().take(3).cloned().collect::<Vec<_>>().join("; ")) }, None);
        }
        sim.chosen.clear();
        let after = sim.listing();
        let d = match sim.dump() {
            Ok(d) => d,
            Err(e) => {
                rec.case(&format!("# {}", tag), "#", Verdict::Fail { class: "dump-error".into(), detail: e }, None);
                break;
            }
        };
        // a compaction or flush that retired files: the crash image in which (some of) the moves to
        // trash/ have not happened yet, reopened
        if matches!(op, Op::Compact(_) | Op::Flush | Op::Put(..) | Op::Del(..) | Op::Batch(..)) {
            let grew = after.get("trash").unwrap().iter().any(|n| n.ends_with(".sst") && !before.get("trash").unwrap().contains(n));
            if grew && rng.chance(1, 3) {
                orphan_image(rec, &format!("{} orphan-image", tag), &sim, &keys, &taint, rng);
            }
        }
        // the verifier / the orphan clean-up against their models
        if let Some(ab) = &abs_before {
            let aa = abs_dir(&sim.root);
            match op {
                Op::Verify => emit_pass(rec, &tag, ab, &aa, &sim.last_verify, &sim.last_verify_full, &taint),
                _ => {
                    let listed = sim.kvs().verif_tree().verif_manifest().0;
                    emit_orph(rec, &tag, ab, &aa, &listed, &taint);
                }
            }
        }
        if std::env::var("BLUE_DEBUG").is_ok() {
            eprintln!("{} -> levels {:?}", tag.chars().take(40).collect::<String>(), d.levels.iter().enumerate().filter(|(_, l)| !l.is_empty()).map(|(i, l)| (i, l.iter().map(|f| hex(&f.setsum)[..6].to_string()).collect::<Vec<_>>())).collect::<Vec<_>>());
        }
        let files = version_files(&d);
        let sst_now = short(after.get("sst").unwrap());
        let mut bad = vec![];
        // (a) every file of the current version is in sst/
        for f in &files {
            if !sst_now.contains(f) {
                bad.push(format!("live file {} is not in sst/", f));
            }
        }
        // (b) what a verifier pass may touch
        if let Op::Verify = op {
            rec.count(if sim.last_verify == "ok" { "verifier.ok" } else if sim.last_verify.starts_with("backoff") { "verifier.backoff" } else { "verifier.error" });
            let gone = |dir: &str| -> Vec<String> { before.get(dir).unwrap().iter().filter(|n| !after.get(dir).unwrap().contains(n)).cloned().collect() };
            let appeared = |dir: &str| -> Vec<String> { after.get(dir).unwrap().iter().filter(|n| !before.get(dir).unwrap().contains(n)).cloned().collect() };
            if !gone("sst").is_empty() || !appeared("sst").is_empty() {
                bad.push(format!("verifier changed sst/: gone {:?} new {:?}", gone("sst"), appeared("sst")));
            }
            if !gone("logs").is_empty() {
                bad.push(format!("verifier removed logs {:?}", gone("logs")));
            }
            let mani_before = before.get("mani").unwrap();
            let mut nums: Vec<u64> = mani_before.iter().filter_map(|n| n.strip_prefix("MANIFEST.").and_then(|x| x.parse().ok())).collect();
            nums.sort();
            let newest = nums.last().copied();
            for g in gone("mani") {
                if g == "MANIFEST" || g == "LOCKFILE" || Some(g.clone()) == newest.map(|n| format!("MANIFEST.{}", n)) {
                    bad.push(format!("verifier removed {}", g));
                }
            }
            rec.add("verifier.unlinked_trash", gone("trash").len() as u64);
            rec.add("verifier.unlinked_fragments", gone("mani").len() as u64);
            if !appeared("trash").is_empty() {
                bad.push(format!("verifier put {:?} into trash/", appeared("trash")));
            }
        }
        let v = if bad.is_empty() { Verdict::Ok } else { Verdict::Fail { class: taint.clone().unwrap_or_else(|| "needed-file-removed".to_string()), detail: format!("{} {}", tag, bad.join("; ")) } };
        rec.count("listing_checks");
        if !bad.is_empty() || matches!(op, Op::Verify) {
            rec.case(&format!("# {}", tag), "#", tainted(v, &taint), None);
        }
        // model events: a version install whenever the file set or its placement changed
        let levels: Vec<Vec<String>> = d.levels.iter().map(|l| l.iter().map(|f| hex(&f.setsum)[..12].to_string()).collect()).collect();
        match op {
            Op::Reopen => {
                flush_incarnation(rec, &inc, &taint);
                inc = match new_inc(&sim) {
                    Some(i) => i,
                    None => break 'ops,
                };
            }
            Op::Verify => {}
            _ => {
                if levels != prev_levels || files != prev_files {
                    for f in inc.sst_at_start.iter().chain(prev_files.iter()) {
                        if !sst_now.contains(f) {
                            inc.left.insert(f.clone());
                        }
                    }
                    // names in sst/ that the model knows about: those of installed versions
                    let known: BTreeSet<String> = inc.v0.iter().cloned().chain(inc.events.iter().flat_map(|e| e[2..].split('+').map(|x| x.to_string()))).chain(files.iter().cloned()).collect();
                    let sst_known: Vec<String> = sst_now.iter().filter(|n| known.contains(*n)).cloned().collect();
                    let left_known: Vec<String> = inc.left.iter().filter(|n| known.contains(*n)).cloned().collect();
                    inc.events.push(format!("I:{}", plus(&files)));
                    inc.observed.push(format!("sst={} trash={}", plus(&sst_known), plus(&left_known)));
                }
            }
        }
        prev_files = files;
        prev_levels = levels;
        // (c) after a verifier pass: reopen and read everything back
        if let Op::Verify = op {
            flush_incarnation(rec, &inc, &taint);
            if taint.is_none() && crate::c01::d9_trigger(&d) {
                taint = Some("reopen-with-key-and-timestamp-overlapping-files".to_string());
                rec.count("histories_tainted_by_D9_trigger");
            }
            let ab = abs_dir(&sim.root);
            let r = sim.apply(&Op::Reopen);
            let mut bad = vec![];
            match r {
                Err(e) => bad.push(format!("reopen after verifier pass failed: {}", e)),
                Ok(()) => {
                    let aa = abs_dir(&sim.root);
                    let listed = sim.kvs().verif_tree().verif_manifest().0;
                    emit_orph(rec, &format!("{} reopen", tag), &ab, &aa, &listed, &taint);
                    for k in &keys {
                        let want = sim.oracle.get(k).cloned().flatten();
                        match sim.get(k) {
                            Ok(got) if got == want => {}
                            Ok(got) => bad.push(format!("key {} reads {:?} want {:?}", hex(k), got.map(|v| hex(&v)), want.map(|v| hex(&v)))),
                            Err(e) => bad.push(format!("key {} load error {}", hex(k), e)),
                        }
                    }
                    let live: Vec<(Vec<u8>, Vec<u8>)> = sim.oracle.iter().filter_map(|(k, v)| v.as_ref().map(|v| (k.clone(), v.clone()))).collect();
                    match sim.scan_all() {
                        Ok(s) if s == live => {}
                        Ok(s) => bad.push(format!("full scan differs after verifier pass + reopen: got {:?} want {:?}", s.iter().map(|(k, v)| format!("{}={}", hex(k), hex(v))).collect::<Vec<_>>(), live.iter().map(|(k, v)| format!("{}={}", hex(k), hex(v))).collect::<Vec<_>>())),
                        Err(e) => bad.push(format!("scan error {}", e)),
                    }
                }
            }
            let v = if bad.is_empty() { Verdict::Ok } else { Verdict::Fail { class: taint.clone().unwrap_or_else(|| "contents-changed-after-verifier-pass".to_string()), detail: format!("{} {}", tag, bad.join("; ")) } };
            rec.count("readback_after_verify");
            rec.case(&format!("# {} readback", tag), "#", tainted(v, &taint), None);
            if sim.kvs.is_none() {
                break;
            }
            inc = match new_inc(&sim) {
                Some(i) => i,
                None => break 'ops,
            };
            if let Ok(d) = sim.dump() {
                prev_files = version_files(&d);
                prev_levels = d.levels.iter().map(|l| l.iter().map(|f| hex(&f.setsum)[..12].to_string()).collect()).collect();
            }
        }
    }
    flush_incarnation(rec, &inc, &taint);
    // how often a file came back under the name of a removed one
    for (_, evs) in sim.sst_events.iter() {
        let mut removed_at: Option<u64> = None;
        for (ord, c) in evs {
            match c {
                '-' => removed_at = Some(*ord),
                _ => {
                    if let Some(r) = removed_at {
                        rec.count(if r == *ord { "same_name.removed_and_added_in_one_edit" } else { "same_name.re-added_by_a_later_edit" });
                        removed_at = None;
                    }
                }
            }
        }
    }
    rec.add("flushes", sim.flushes);
    rec.add("compactions", sim.compactions);
    rec.add("reopens", sim.reopens);
    rec.add("observations_inside_flush_or_compaction", sim.probes_run);
    sim.close();
}

/// directed histories: files that come back under the name of a removed file (within one edit,
/// in a later edit, in a later fragment), a garbage collection that drops everything, the
/// verifier run twice, on an interrupted rollover, with a logged file not yet in trash/
fn directed(rec: &mut Recorder, seed: u64, budget: &mut TraceBudget) {
    let big = |tag: u8, n: usize| -> Vec<u8> { std::iter::repeat(tag).take(n).collect() };
    let put = |k: &[u8], v: Vec<u8>| XOp::S(Op::Put(k.to_vec(), v));
    let del = |k: &[u8]| XOp::S(Op::Del(k.to_vec()));
    let fl = || XOp::S(Op::Flush);
    let co = || XOp::S(Op::Compact(1));
    let re = || XOp::S(Op::Reopen);
    let base = Cfg { memtable_bytes: 1 << 20, target_file: 1 << 22, min_file: 64, target_block: 256, l0_mandatory_files: 1, l0_stall_files: 12, max_compaction_files: 16, gc_versions: 3, mani_ratio: 1 };
    for (i, mr) in [1u64, 2, 10].iter().enumerate() {
        let wide = Cfg { mani_ratio: *mr, ..base.clone() };
        let narrow = Cfg { target_file: 128, min_file: 64, ..wide.clone() };
        let mut rng = Rng::for_case(seed, 208, i as u64);
        // A file sinks one level per compaction step (trivial moves) until it sits on top of an
        // overlapping file; merges start when the stack of files of one key reaches level 1.
        // 1. versions of one key, one file each, stacked and then merged under a large target file
        //    size; 2. under a small one every merge writes one file per version: outputs carry the
        //    names of files removed by earlier edits (re-added by a later edit, in a later fragment:
        //    every reopen rolls the manifest over) or reproduce inputs of the same compaction
        //    (removed and added in one edit); 3. a garbage collection that drops everything it reads.
        let images = || vec![XOp::OrphanImage, XOp::BackoffImage, XOp::RolloverImage, XOp::TracedVerify, XOp::S(Op::Verify)];
        let mut ops = vec![];
        for v in 0..5u8 {
            ops.extend(vec![put(b"a", big(b'A' + v, 150)), fl()]);
            ops.extend((0..18).map(|_| co()));
        }
        ops.extend(images());
        ops.push(XOp::ReopenCfg(narrow.clone()));
        for v in 0..2u8 {
            ops.extend(vec![put(b"a", big(b'a' + v, 150)), fl()]);
            ops.extend((0..120).map(|_| co()));
            ops.extend(images());
        }
        ops.push(re());
        ops.extend(vec![XOp::ReopenCfg(Cfg { gc_versions: 1, ..wide.clone() }), del(b"a"), fl()]);
        ops.extend((0..130).map(|_| co()));
        ops.extend(images());
        ops.extend(vec![re(), XOp::TracedVerify, re()]);
        let saved = budget.passes;
        budget.passes = usize::MAX;
        run_ops(rec, &format!("d{}", i), &wide, &ops, 12, &mut rng, budget);
        // 4. known finding D-28: removed, written again under the same name, removed again, then the
        //    first verifier passes (one traced: crash images inside it), the store reopened
        let mut ops = d28_history(*mr);
        ops.extend(vec![if i == 0 { XOp::TracedVerify } else { XOp::S(Op::Verify) }, XOp::S(Op::Verify), re()]);
        run_ops(rec, &format!("r{}", i), &wide, &ops, 12, &mut rng, budget);
        budget.passes = saved;
    }
}

/// Directed histories for the RANGE of `last_removals` (all entries, the newest numbered fragment
/// and MANIFEST included): D-28's history without its last reopens, so that at the first verifier
/// pass the second removal of the re-created files is still in MANIFEST (`trailing` = 0) or in the
/// newest numbered fragment (`trailing` = 1) — the two entries no pass processes — while the first
/// removal and the edit that adds the files back are in fragments the pass does process.  Three
/// passes (the harness reopens the store after each, which rolls the manifest over): the first must
/// leave the copies alone, the second verifies the fragment that adds the files back, the third
/// comes to the second removal and unlinks them.  No strace needed.
fn directed_newest(rec: &mut Recorder, seed: u64, budget: &mut TraceBudget, have_strace: bool) {
    let saved = budget.passes;
    // (rollover ratio, trailing reopens, the second removal is in MANIFEST at the first pass)
    for (i, (mr, trailing, in_live)) in [(10u64, 0usize, true), (10, 1, false), (2, 0, false), (1, 0, false)].iter().enumerate() {
        let (wide, _, _) = d28_cfgs(*mr);
        let mut rng = Rng::for_case(seed, 308, i as u64);
        let mut ops = d28_history(*mr);
        ops.truncate(ops.len() - 2);
        for _ in 0..*trailing {
            ops.push(XOp::S(Op::Reopen));
        }
        // the first pass traced once (crash images inside the pass that must leave the copy alone)
        budget.passes = if have_strace && i == 1 { 1 } else { 0 };
        ops.extend(vec![XOp::TracedVerify, XOp::S(Op::Verify), XOp::S(Op::Verify), XOp::S(Op::Verify), XOp::S(Op::Reopen)]);
        let before = (ctr(rec, "vfy.pass.trash_copy_last_removed_by_newest_fragment"), ctr(rec, "vfy.pass.trash_copy_last_removed_by_MANIFEST"));
        run_ops(rec, &format!("n{}", i), &wide, &ops, 12, &mut rng, budget);
        let after = (ctr(rec, "vfy.pass.trash_copy_last_removed_by_newest_fragment"), ctr(rec, "vfy.pass.trash_copy_last_removed_by_MANIFEST"));
        // the situation must be reached on every run: a pass that meets a trash copy whose last
        // removal is in the newest two entries
        if std::env::var("BLUE_DEBUG").is_ok() {
            eprintln!("n{} mr={} trailing={}: newest-fragment {} MANIFEST {}", i, mr, trailing, after.0 - before.0, after.1 - before.1);
        }
        let reached = if *in_live { after.1 > before.1 } else { after.0 > before.0 };
        let v = if reached { Verdict::Ok } else { Verdict::Fail { class: "machinery".into(), detail: format!("directed history n{} (mr={} trailing reopens={}) did not reach a verifier pass over a trash copy whose last removal is in {}", i, mr, trailing, if *in_live { "MANIFEST" } else { "the newest numbered fragment" }) } };
        rec.case(&format!("# n{} reached", i), "#", v, None);
    }
    budget.passes = saved;
}

/// Directed crash image for the INPUT of the orphan scan: the live MANIFEST as it is when
/// `cleanup_orphans` runs, i.e. after the edits log recovery wrote during the same open.
///
/// The crash catches two threads mid-way: the flush thread has ingested X2 (manifest edit `+X2`,
/// `L` = n) and has not yet renamed log.n to trash/; the compaction thread has merged X2 (and X1)
/// into Y and written `-X1 -X2 +Y`, and has not installed the version (X1, X2 still in sst/).  The
/// single-stepped store cannot stop there, so the image is built from the state after both have
/// finished by undoing the renames the crash would have prevented.  On reopen `recover_one`
/// replays log.n, finds sst/X2 present and X2 not listed, and lists it again in the live MANIFEST;
/// the clean-up that follows must move X1 and must leave X2.
fn relisted_case(rec: &mut Recorder, variant: u64) {
    let debug = std::env::var("BLUE_DEBUG").is_ok();
    let cfg = Cfg { memtable_bytes: 1 << 20, target_file: 1 << 22, min_file: 64, target_block: 256, l0_mandatory_files: 0, l0_stall_files: 12, max_compaction_files: 16, gc_versions: 1, mani_ratio: if variant == 0 { 10 } else { 1 } };
    let root = scratch_dir(&format!("c08.relisted{}", variant));
    let tag = format!("relisted{}", variant);
    let mut sim = match Sim::open(&root, &cfg) {
        Ok(s) => s,
        Err(_) => return,
    };
    let keys: Vec<Vec<u8>> = vec![b"j".to_vec(), b"k".to_vec(), b"q".to_vec()];
    let mut ok = true;
    let mut go = |sim: &mut Sim, ops: &[Op]| {
        for op in ops {
            if sim.apply(op).is_err() {
                ok = false;
            }
        }
    };
    // the newest flush edit (`L`), a later edit that removes its file, all that edit removes
    let find = |d: &AbsDir| -> Option<(String, String, Vec<String>)> {
        let mut edits: Vec<&AEdit> = vec![];
        for (_, es) in &d.frags {
            edits.extend(es.iter().skip(1));
        }
        edits.extend(d.live.iter().skip(1));
        let (at, fl) = edits.iter().enumerate().rev().find(|(_, e)| e.info.iter().any(|(k, _)| *k == 'L'))?;
        let x2 = fl.add.first()?.clone();
        let log = fl.info.iter().find(|(k, _)| *k == 'L')?.1.clone();
        let rm = edits[at + 1..].iter().find(|e| e.rm.contains(&x2) && !e.add.contains(&x2))?;
        let inputs: Vec<String> = rm.rm.iter().filter(|x| !rm.add.contains(x)).cloned().collect();
        Some((x2, log, inputs))
    };
    let mut found = None;
    'rounds: for round in 0..6u8 {
        // X1 = {j, k}, then X2 = {k, q}, then more of the same until a compaction merges the file
        // of the newest flush
        let big: Vec<u8> = std::iter::repeat(b'q' + round).take(400).collect();
        if round == 0 {
            go(&mut sim, &[Op::Put(b"j".to_vec(), b"vj".to_vec()), Op::Put(b"k".to_vec(), b"vk1".to_vec()), Op::Flush]);
        } else {
            go(&mut sim, &[Op::Put(b"k".to_vec(), format!("vk{}", round + 1).into_bytes()), Op::Put(b"q".to_vec(), big), Op::Flush]);
        }
        for _ in 0..40 {
            go(&mut sim, &[Op::Compact(1)]);
            let d = abs_dir(&sim.root);
            if let Some(f) = find(&d) {
                if f.2.iter().all(|x| d.trash.contains(&format!("{}.sst", x)) && !d.sst.contains(x)) && d.trash.contains(&format!("log.{}", f.1)) {
                    found = Some(f);
                    break 'rounds;
                }
            }
        }
    }
    let Some((x2, log, inputs)) = found else {
        rec.case(&format!("# {} reached", tag), "#", Verdict::Fail { class: "machinery".into(), detail: format!("{}: no compaction merged the file of the newest flush (ops ok: {})", tag, ok) }, None);
        sim.close();
        return;
    };
    let img = scratch_dir(&format!("c08.relisted{}.img", variant));
    if !ok || copy_tree(&sim.root, &img).is_err() {
        rec.case(&format!("# {} reached", tag), "#", Verdict::Fail { class: "machinery".into(), detail: format!("{}: history or copy failed", tag) }, None);
        sim.close();
        return;
    }
    // take back the renames the crash prevented
    let mut undone = 0;
    for x in &inputs {
        if let Some(full) = find_file(&format!("{}/trash", img), &format!("{}.sst", x)) {
            if std::fs::rename(format!("{}/trash/{}", img, full), format!("{}/sst/{}", img, full)).is_ok() {
                undone += 1;
            }
        }
    }
    let log_ok = std::fs::rename(format!("{}/trash/log.{}", img, log), format!("{}/log.{}", img, log)).is_ok();
    if debug {
        eprintln!("{}: X2={} log={} inputs={:?} undone={} log_ok={}", tag, x2, log, inputs, undone, log_ok);
    }
    rec.count("relisted_image.images");
    rec.add("relisted_image.trash_moves_undone", undone);
    // variant 1 (rollover at every edit): the recovery edit is rolled into a fragment at once
    let key = if variant == 0 { "orph.reopens_with_file_relisted_by_recovery_in_live_MANIFEST" } else { "orph.reopens_with_file_relisted_by_recovery_in_newest_fragment" };
    let before = ctr(rec, key);
    reopen_image(rec, &tag, &img, &cfg, &keys, &sim.oracle, &None);
    let reached = ctr(rec, key) > before;
    let v = if reached && log_ok && undone == inputs.len() as u64 { Verdict::Ok } else { Verdict::Fail { class: "machinery".into(), detail: format!("{}: the reopen of the image did not list {} again (undone {} of {:?}, log moved back: {})", tag, x2, undone, inputs, log_ok) } };
    rec.case(&format!("# {} reached", tag), "#", v, None);
    sim.close();
}

// ------------------------------------------------------------------------------------------------
// the directory as the verifier / orphan models see it
// ------------------------------------------------------------------------------------------------

const D9: &str = "reopen-with-key-and-timestamp-overlapping-files";

#[derive(Clone, Debug, Default, PartialEq)]
pub struct AEdit {
    rm: Vec<String>,
    add: Vec<String>,
    info: Vec<(char, String)>,
}

#[derive(Clone, Debug, Default)]
pub struct AbsDir {
    sst: Vec<String>,
    trash: Vec<String>,
    frags: Vec<(u64, Vec<AEdit>)>,
    live: Vec<AEdit>,
    vstrs: Vec<String>,
    vm: Option<u64>,
    vo: String,
    /// a fragment or the verifier's manifest could not be read to the end
    unreadable: bool,
}

/// 64 hex digits -> the first 12 (digests, also as the stem of `<digest>.sst`)
fn sh(n: &str) -> String {
    let (stem, ext) = match n.strip_suffix(".sst") {
        Some(s) => (s, ".sst"),
        None => (n, ""),
    };
    if stem.len() == 64 && stem.bytes().all(|b| b.is_ascii_hexdigit()) {
        format!("{}{}", &stem[..12], ext)
    } else {
        n.to_string()
    }
}

fn read_edits(path: &std::path::Path, keys: &[char]) -> Result<Vec<AEdit>, String> {
    let it = mani::ManifestIterator::open(path).map_err(|e| format!("{:?}", e))?;
    let mut out = vec![];
    for ed in it {
        let ed = ed.map_err(|e| format!("{:?}", e))?;
        let mut a = AEdit { rm: ed.rmed().map(|x| sh(x)).collect(), add: ed.added().map(|x| sh(x)).collect(), info: vec![] };
        for k in keys {
            if let Some(v) = ed.get_info(*k) {
                a.info.push((*k, sh(v)));
            }
        }
        out.push(a);
    }
    Ok(out)
}

fn list_dir(root: &str, sub: &str) -> Vec<String> {
    let mut v: Vec<String> = std::fs::read_dir(format!("{}/{}", root, sub)).map(|rd| rd.flatten().map(|e| e.file_name().to_string_lossy().to_string()).collect()).unwrap_or_default();
    v.sort();
    v
}

pub fn abs_dir(root: &str) -> AbsDir {
    let mut d = AbsDir::default();
    d.sst = list_dir(root, "sst").iter().filter_map(|n| n.strip_suffix(".sst").map(|x| sh(x))).collect();
    d.trash = list_dir(root, "trash").iter().map(|n| sh(n)).collect();
    let mut nums: Vec<u64> = list_dir(root, "mani").iter().filter_map(|n| mani::extract_backup(std::path::Path::new(n))).collect();
    nums.sort();
    for n in nums {
        match read_edits(&std::path::PathBuf::from(format!("{}/mani/MANIFEST.{}", root, n)), &['I', 'O', 'D', 'L']) {
            Ok(es) => d.frags.push((n, es)),
            Err(_) => {
                d.unreadable = true;
                d.frags.push((n, vec![]));
            }
        }
    }
    match read_edits(&std::path::PathBuf::from(format!("{}/mani/MANIFEST", root)), &['I', 'O', 'D', 'L']) {
        Ok(es) => d.live = es,
        Err(_) => d.unreadable = true,
    }
    // the verifier's own manifest, replayed
    d.vo = "000000000000".to_string();
    match read_edits(&std::path::PathBuf::from(format!("{}/verify/MANIFEST", root)), &['M', 'O']) {
        Ok(es) => {
            let mut strs: BTreeSet<String> = BTreeSet::new();
            for e in es {
                for r in &e.rm {
                    strs.remove(r);
                }
                for a in &e.add {
                    strs.insert(a.clone());
                }
                for (k, v) in &e.info {
                    if *k == 'M' {
                        d.vm = mani::extract_backup(std::path::Path::new(v));
                    } else if *k == 'O' {
                        d.vo = v.clone();
                    }
                }
            }
            d.vstrs = strs.into_iter().collect();
        }
        Err(_) => d.unreadable = true,
    }
    d
}

fn render_edit(e: &AEdit) -> String {
    let mut items: Vec<String> = vec![];
    items.extend(e.rm.iter().map(|x| format!("-{}", x)));
    items.extend(e.add.iter().map(|x| format!("+{}", x)));
    items.extend(e.info.iter().map(|(k, v)| format!("{}{}", k, v)));
    if items.is_empty() {
        ".".into()
    } else {
        items.join(",")
    }
}

fn render_edits(es: &[AEdit]) -> String {
    if es.is_empty() {
        "-".into()
    } else {
        es.iter().map(render_edit).collect::<Vec<_>>().join(";")
    }
}

fn sorted_plus<'a>(it: impl Iterator<Item = &'a String>) -> String {
    let s: BTreeSet<&String> = it.collect();
    if s.is_empty() {
        "-".into()
    } else {
        s.into_iter().cloned().collect::<Vec<_>>().join("+")
    }
}

fn nums_plus(v: &[u64]) -> String {
    if v.is_empty() {
        "-".into()
    } else {
        v.iter().map(|n| n.to_string()).collect::<Vec<_>>().join("+")
    }
}

impl AbsDir {
    /// the `<directory>` of a `vfy` request
    pub fn request(&self) -> String {
        let frags = if self.frags.is_empty() { "-".to_string() } else { self.frags.iter().map(|(n, es)| format!("{}:{}", n, render_edits(es))).collect::<Vec<_>>().join("|") };
        format!(
            "{}sst={} trash={} vM={} vO={} vstrs={} frags={} live={}",
            if plan_is_old() { "plan=old " } else { "" },
            sorted_plus(self.sst.iter()),
            sorted_plus(self.trash.iter()),
            self.vm.map(|n| n.to_string()).unwrap_or_else(|| "-".into()),
            self.vo,
            sorted_plus(self.vstrs.iter()),
            frags,
            render_edits(&self.live)
        )
    }
    fn render_v(&self) -> String {
        format!("vM={} vO={} vstrs={}", self.vm.map(|n| n.to_string()).unwrap_or_else(|| "-".into()), self.vo, sorted_plus(self.vstrs.iter()))
    }
    /// as the model's `renderState`
    pub fn state(&self) -> String {
        format!("sst={} trash={} frags={} {}", sorted_plus(self.sst.iter()), sorted_plus(self.trash.iter()), nums_plus(&self.frags.iter().map(|f| f.0).collect::<Vec<_>>()), self.render_v())
    }
    /// the names the manifest state lists: the replay of MANIFEST
    pub fn listed(&self) -> BTreeSet<String> {
        let mut s = BTreeSet::new();
        for e in &self.live {
            for r in &e.rm {
                s.remove(r);
            }
            for a in &e.add {
                s.insert(a.clone());
            }
        }
        s
    }
    /// every trash basename a fragment numbered <= `upto` (the newest excluded) records as removed
    fn recorded(&self, upto: u64) -> BTreeSet<String> {
        let mut s = BTreeSet::new();
        let top = self.frags.last().map(|f| f.0);
        for (n, es) in &self.frags {
            if Some(*n) == top || *n > upto {
                continue;
            }
            for (i, e) in es.iter().enumerate() {
                for r in &e.rm {
                    if !e.add.contains(r) {
                        s.insert(format!("{}.sst", r));
                    }
                }
                if i > 0 {
                    for (k, v) in &e.info {
                        if *k == 'L' {
                            s.insert(format!("log.{}", v));
                        }
                    }
                }
            }
        }
        s
    }
}

fn status_token(last_verify: &str) -> String {
    if last_verify == "ok" {
        "ok".into()
    } else if let Some(p) = last_verify.strip_prefix("backoff:") {
        format!("backoff:{}", sh(p))
    } else if last_verify.starts_with("panic") {
        "panic".into()
    } else {
        "corrupt".into()
    }
}

/// what one pass did, rendered as the model's `vfy pass` answer
fn observed_pass(before: &AbsDir, after: &AbsDir, status: &str) -> String {
    let a_trash: BTreeSet<&String> = after.trash.iter().collect();
    let gone_t: Vec<String> = before.trash.iter().filter(|x| !a_trash.contains(x)).cloned().collect();
    let a_frags: BTreeSet<u64> = after.frags.iter().map(|f| f.0).collect();
    let gone_f: Vec<u64> = before.frags.iter().map(|f| f.0).filter(|n| !a_frags.contains(n)).collect();
    let mut s0 = before.sst.clone();
    let mut s1 = after.sst.clone();
    s0.sort();
    s1.sort();
    format!("st={} sst={} trash-={} frags-={} {}", status, if s0 == s1 { "same" } else { "changed" }, sorted_plus(gone_t.iter()), nums_plus(&gone_f), after.render_v())
}

/// The verifier's protocol read off two directory states (before a pass / after it, or before a
/// pass / at a crash point inside it), with no reference to the model: it leaves sst/, MANIFEST and
/// the newest fragment alone, puts nothing anywhere, and whatever left trash/ or mani/ is covered
/// by an intent that is durable in verify/ (or was pending before) and by a fragment that recorded
/// the removal.
fn protocol_complaints(pre: &AbsDir, post: &AbsDir) -> Vec<String> {
    let mut bad = vec![];
    let set = |v: &Vec<String>| -> BTreeSet<String> { v.iter().cloned().collect() };
    if set(&pre.sst) != set(&post.sst) {
        bad.push(format!("sst/ changed: {:?} -> {:?}", pre.sst, post.sst));
    }
    if pre.live != post.live {
        bad.push("MANIFEST changed".to_string());
    }
    for x in set(&post.trash).difference(&set(&pre.trash)) {
        bad.push(format!("{} appeared in trash/", x));
    }
    let post_frags: BTreeSet<u64> = post.frags.iter().map(|f| f.0).collect();
    let top = pre.frags.last().map(|f| f.0);
    for (n, _) in &pre.frags {
        if !post_frags.contains(n) {
            if Some(*n) == top {
                bad.push(format!("the newest fragment MANIFEST.{} was unlinked", n));
            }
            if !(post.vm.map(|m| m >= *n).unwrap_or(false)) {
                bad.push(format!("MANIFEST.{} was unlinked but verify/ records M={:?}", n, post.vm));
            }
        }
    }
    for n in post_frags.iter() {
        if !pre.frags.iter().any(|f| f.0 == *n) {
            bad.push(format!("MANIFEST.{} appeared", n));
        }
    }
    let pending: BTreeSet<String> = set(&pre.vstrs);
    let recorded = pre.recorded(post.vm.unwrap_or(0));
    for x in set(&pre.trash).difference(&set(&post.trash)) {
        if !pending.contains(x) && !recorded.contains(x) {
            bad.push(format!("trash/{} was unlinked, but no fragment up to M={:?} records its removal and it was not logged before", x, post.vm));
        }
    }
    // what the crash-safety theorem assumes of a directory: no `M`, nothing logged
    if post.vm.is_none() && !post.vstrs.is_empty() {
        bad.push(format!("verify/ logs {:?} without an M", post.vstrs));
    }
    let post_sst = set(&post.sst);
    for x in post.listed() {
        if !post_sst.contains(&x) && set(&pre.sst).contains(&x) {
            bad.push(format!("listed file {} left sst/", x));
        }
    }
    bad
}

/// Known finding D-28 read off two directory states: a `<digest>.sst` left trash/ although a
/// fragment the verifier has not processed yet (numbered above the `M` in verify/, the newest one
/// included) or MANIFEST removes that file again — files are named after their contents, the one
/// copy in trash/ is the one the checks of those fragments read.
fn d28_complaints(pre: &AbsDir, post: &AbsDir) -> Vec<String> {
    let upto = post.vm.unwrap_or(0);
    let mut later: BTreeMap<String, String> = BTreeMap::new();
    let mut note = |es: &Vec<AEdit>, wher: String| {
        for e in es {
            for r in &e.rm {
                if !e.add.contains(r) {
                    later.entry(r.clone()).or_insert_with(|| wher.clone());
                }
            }
        }
    };
    for (n, es) in &pre.frags {
        if *n > upto {
            note(es, format!("MANIFEST.{}", n));
        }
    }
    note(&pre.live, "MANIFEST".to_string());
    let post_trash: BTreeSet<&String> = post.trash.iter().collect();
    let mut bad = vec![];
    for x in &pre.trash {
        if post_trash.contains(x) {
            continue;
        }
        if let Some(d) = x.strip_suffix(".sst") {
            if let Some(w) = later.get(d) {
                bad.push(format!("trash/{} was unlinked with M={:?} in verify/, and {} (not processed yet) removes that file again: its check reads the copy", x, post.vm, w));
            }
        }
    }
    bad
}

/// class of the oracle complaints about the two newest manifest entries (an input predicate: the
/// directory holds a `<digest>.sst` in trash/ — or had it — whose LAST removal is recorded by the
/// newest numbered fragment or by MANIFEST, the two entries `LsmVerifier::verify` pops and never
/// processes, while an older fragment also records a removal of that digest)
const NEWEST2: &str = "verifier-trash-copy-whose-last-removal-is-in-the-two-newest-manifest-entries";

/// for every digest the entry that removes it LAST, as `last_removals` is to compute it: over every
/// numbered fragment (index into `frags`) and MANIFEST (index `frags.len()`), every edit of each
fn last_removal_places(d: &AbsDir) -> BTreeMap<String, usize> {
    let mut m = BTreeMap::new();
    for (i, (_, es)) in d.frags.iter().enumerate() {
        for e in es {
            for r in &e.rm {
                if !e.add.contains(r) {
                    m.insert(r.clone(), i);
                }
            }
        }
    }
    for e in &d.live {
        for r in &e.rm {
            if !e.add.contains(r) {
                m.insert(r.clone(), d.frags.len());
            }
        }
    }
    m
}

fn entry_name(d: &AbsDir, place: usize) -> String {
    match d.frags.get(place) {
        Some((n, _)) => format!("MANIFEST.{}", n),
        None => "MANIFEST".to_string(),
    }
}

/// the digests with a copy in trash/ whose last removal is in one of the two newest entries and
/// which a fragment the pass may process (any but the newest) removes, too: the inputs on which
/// the range of `last_removals` matters
fn newest_two_inputs(d: &AbsDir) -> Vec<(String, usize)> {
    if d.frags.is_empty() {
        return vec![];
    }
    let places = last_removal_places(d);
    let mut out = vec![];
    for (x, p) in places {
        if p + 1 < d.frags.len() || !d.trash.contains(&format!("{}.sst", x)) {
            continue;
        }
        let earlier = d.frags[..d.frags.len() - 1].iter().any(|(_, es)| es.iter().any(|e| e.rm.contains(&x) && !e.add.contains(&x)));
        if earlier {
            out.push((x, p));
        }
    }
    out
}

/// A `<digest>.sst` left trash/ between the two states although the LAST edit that removes that
/// digest is in the newest numbered fragment or in MANIFEST: no pass processes those two, so no
/// pass may hand out the copy that belongs to them (names already logged in verify/ before are
/// an earlier pass's decision and are left to the protocol check).
fn newest_two_complaints(pre: &AbsDir, post: &AbsDir) -> Vec<String> {
    if pre.frags.is_empty() {
        return vec![];
    }
    let places = last_removal_places(pre);
    let post_trash: BTreeSet<&String> = post.trash.iter().collect();
    let mut bad = vec![];
    for x in &pre.trash {
        if post_trash.contains(x) || pre.vstrs.contains(x) {
            continue;
        }
        if let Some(d) = x.strip_suffix(".sst") {
            if let Some(p) = places.get(d) {
                if *p + 1 >= pre.frags.len() {
                    bad.push(format!("trash/{} was unlinked (M={:?} in verify/), and the last edit that removes that file is in {}, one of the two newest manifest entries, which no pass processes: the copy belongs to that removal", x, post.vm, entry_name(pre, *p)));
                }
            }
        }
    }
    bad
}

/// A pass that stopped with NotFound for `trash/<digest>.sst` where the last removal of that digest
/// is in the two newest entries: an earlier removal was given the one copy (in this pass or in a
/// pass before it), and the fragment that adds the file back cannot be verified any more.
fn newest_two_wedged(pre: &AbsDir, err_text: &str) -> Vec<String> {
    if pre.frags.is_empty() || !err_text.contains("NotFound") {
        return vec![];
    }
    let Some(i) = err_text.find("trash/") else { return vec![] };
    let name: String = err_text[i + 6..].chars().take_while(|c| c.is_ascii_hexdigit()).collect();
    if name.len() != 64 || !err_text[i + 6 + 64..].starts_with(".sst") {
        return vec![];
    }
    let x = sh(&name);
    match last_removal_places(pre).get(&x) {
        Some(p) if *p + 1 >= pre.frags.len() => vec![format!("the pass stopped with NotFound for trash/{}.sst; the last edit that removes that file is in {} (one of the two newest manifest entries, not processed by any pass): the copy was handed to an earlier removal and the fragment that adds the file back cannot be verified", x, entry_name(pre, *p))],
        _ => vec![],
    }
}

/// the verdict on the verifier's protocol between two directory states
fn protocol_verdict(tag: &str, pre: &AbsDir, post: &AbsDir, extra: Vec<String>, taint: &Option<String>) -> Verdict {
    let d28 = d28_complaints(pre, post);
    let mut bad = protocol_complaints(pre, post);
    let mut newest = newest_two_complaints(pre, post);
    newest.extend(extra.iter().filter(|x| x.starts_with("the pass stopped with NotFound for trash/")).cloned());
    bad.extend(extra.into_iter().filter(|x| !x.starts_with("the pass stopped with NotFound for trash/")));
    if !newest.is_empty() {
        // a predicate on the two directory states (and the error text) alone: not attributed to
        // the trigger of another finding
        Verdict::Fail { class: NEWEST2.to_string(), detail: format!("{} {}", tag, newest.into_iter().chain(bad).collect::<Vec<_>>().join("; ")) }
    } else if !d28.is_empty() {
        Verdict::Fail { class: fail_class(taint, D28), detail: format!("{} {}", tag, d28.into_iter().chain(bad).collect::<Vec<_>>().join("; ")) }
    } else if !bad.is_empty() {
        Verdict::Fail { class: fail_class(taint, "verifier-removed-unlogged-or-needed-file"), detail: format!("{} {}", tag, bad.join("; ")) }
    } else {
        Verdict::Ok
    }
}

fn d28_cfgs(mr: u64) -> (Cfg, Cfg, Cfg) {
    let wide = Cfg { memtable_bytes: 1 << 20, target_file: 1 << 22, min_file: 64, target_block: 256, l0_mandatory_files: 1, l0_stall_files: 12, max_compaction_files: 16, gc_versions: 3, mani_ratio: mr };
    let narrow = Cfg { target_file: 128, min_file: 64, ..wide.clone() };
    let gc1 = Cfg { gc_versions: 1, ..wide.clone() };
    (wide, narrow, gc1)
}

/// (D-28) no verifier pass until a file has been removed, re-created under the same name and removed
/// again, each in a fragment of its own (the reopens roll the manifest over): the merge under the
/// large target file removes the single-version files, the merge under the small one writes them
/// again, the garbage collection under versions = 1 removes them again; one copy of such a file is
/// in trash/ when the verifier comes to the first removal
fn d28_history(mr: u64) -> Vec<XOp> {
    let (_wide, narrow, gc1) = d28_cfgs(mr);
    let big = |tag: u8, n: usize| -> Vec<u8> { std::iter::repeat(tag).take(n).collect() };
    let put = |k: &[u8], v: Vec<u8>| XOp::S(Op::Put(k.to_vec(), v));
    let co = || XOp::S(Op::Compact(1));
    let mut ops = vec![];
    for v in 0..5u8 {
        ops.extend(vec![put(b"a", big(b'A' + v, 150)), XOp::S(Op::Flush)]);
        ops.extend((0..18).map(|_| co()));
    }
    ops.push(XOp::ReopenCfg(narrow));
    for v in 0..2u8 {
        ops.extend(vec![put(b"a", big(b'a' + v, 150)), XOp::S(Op::Flush)]);
        ops.extend((0..120).map(|_| co()));
    }
    ops.extend(vec![XOp::ReopenCfg(gc1), XOp::S(Op::Del(b"a".to_vec())), XOp::S(Op::Flush)]);
    ops.extend((0..130).map(|_| co()));
    ops.extend(vec![XOp::S(Op::Reopen), XOp::S(Op::Reopen)]);
    ops
}

/// Which plan does the code under test follow?  Decided on D-28's directed history (as C11 does
/// for its as-is models): the verifier that stops with an error on it is the one from before the
/// repair, and the model is asked for that plan (`plan=old`).
fn plan_is_old() -> bool {
    static OLD: std::sync::OnceLock<bool> = std::sync::OnceLock::new();
    *OLD.get_or_init(|| {
        let (wide, _, _) = d28_cfgs(2);
        let root = scratch_dir("c08.detect");
        let mut sim = match Sim::open(&root, &wide) {
            Ok(s) => s,
            Err(_) => return false,
        };
        for x in d28_history(2) {
            let op = match x {
                XOp::S(o) => o,
                XOp::ReopenCfg(c) => {
                    sim.cfg = c;
                    Op::Reopen
                }
                _ => continue,
            };
            if sim.apply(&op).is_err() {
                break;
            }
        }
        sim.verify_pass();
        let old = sim.last_verify.starts_with("error") && sim.verifier_reject_class() == D28;
        sim.close();
        old
    })
}

fn parse_cfg(s: &str) -> Cfg {
    let mut m = BTreeMap::new();
    for t in s.split(',') {
        if let Some((k, v)) = t.split_once('=') {
            m.insert(k.to_string(), v.parse::<u64>().unwrap_or(0));
        }
    }
    Cfg { memtable_bytes: m["mem"], target_file: m["tf"], min_file: m["mf"], target_block: m["tb"], l0_mandatory_files: m["l0m"], l0_stall_files: m["l0s"], max_compaction_files: m["mcf"], gc_versions: m["gc"], mani_ratio: m["mr"] }
}

fn cfg_arg(c: &Cfg) -> String {
    c.render().replace(' ', ",")
}

/// one verifier pass on `root` in this process: "ok" | "backoff:<name>" | "error:…" | "panic:…"
fn real_pass(root: &str, cfg: &Cfg) -> String {
    let opts = cfg.options(root);
    let r = guarded(std::panic::AssertUnwindSafe(|| match lsmtk::LsmVerifier::open(opts) {
        Ok(mut v) => v.verify(),
        Err(e) => Err(e),
    }));
    match r {
        Ok(Ok(())) => "ok".to_string(),
        Ok(Err(e)) => match lsmtk::backoff_path(&e) {
            Some(p) => format!("backoff:{}", p),
            None => format!("error:{}", format!("{:?}", e).replace(char::is_whitespace, "_").chars().take(4000).collect::<String>()),
        },
        Err(p) => format!("panic:{}", p),
    }
}

/// child process of a traced pass: one `LsmVerifier::verify` on `root`, status on stdout
pub fn child_run(rest: &[String]) -> ! {
    let cfg = parse_cfg(&rest[1]);
    println!("{}", real_pass(&rest[0], &cfg));
    std::process::exit(0);
}

/// copy a directory tree, keeping hard links between files of the tree
fn copy_tree(from: &str, to: &str) -> std::io::Result<()> {
    use std::os::unix::fs::MetadataExt;
    let _ = std::fs::remove_dir_all(to);
    let mut seen: BTreeMap<(u64, u64), std::path::PathBuf> = BTreeMap::new();
    fn walk(from: &std::path::Path, to: &std::path::Path, seen: &mut BTreeMap<(u64, u64), std::path::PathBuf>) -> std::io::Result<()> {
        std::fs::create_dir_all(to)?;
        let mut ents: Vec<_> = std::fs::read_dir(from)?.flatten().collect();
        ents.sort_by_key(|e| e.file_name());
        for e in ents {
            let md = e.metadata()?;
            let dst = to.join(e.file_name());
            if md.is_dir() {
                walk(&e.path(), &dst, seen)?;
            } else {
                let key = (md.dev(), md.ino());
                if md.nlink() > 1 {
                    if let Some(first) = seen.get(&key) {
                        std::fs::hard_link(first, &dst)?;
                        continue;
                    }
                    seen.insert(key, dst.clone());
                }
                std::fs::copy(e.path(), &dst)?;
            }
        }
        Ok(())
    }
    walk(std::path::Path::new(from), std::path::Path::new(to), &mut seen)
}

/// a directory tree as a simulated file system whose every byte is durable
fn simfs_of(root: &str) -> std::io::Result<SimFs> {
    use std::os::unix::fs::MetadataExt;
    let mut fs = SimFs::default();
    let mut seen: BTreeMap<(u64, u64), usize> = BTreeMap::new();
    fn walk(root: &std::path::Path, rel: &str, fs: &mut SimFs, seen: &mut BTreeMap<(u64, u64), usize>) -> std::io::Result<()> {
        let here = if rel.is_empty() { root.to_path_buf() } else { root.join(rel) };
        let mut ents: Vec<_> = std::fs::read_dir(&here)?.flatten().collect();
        ents.sort_by_key(|e| e.file_name());
        for e in ents {
            let name = e.file_name().to_string_lossy().to_string();
            let r = if rel.is_empty() { name.clone() } else { format!("{}/{}", rel, name) };
            let md = e.metadata()?;
            if md.is_dir() {
                fs.dirs.insert(r.clone());
                walk(root, &r, fs, seen)?;
            } else {
                let key = (md.dev(), md.ino());
                let idx = match seen.get(&key) {
                    Some(i) if md.nlink() > 1 => *i,
                    _ => {
                        let b = std::fs::read(e.path())?;
                        fs.inodes.push(fstrace::Inode { data: b.clone(), durable: Some(b) });
                        seen.insert(key, fs.inodes.len() - 1);
                        fs.inodes.len() - 1
                    }
                };
                fs.files.insert(r, idx);
            }
        }
        Ok(())
    }
    walk(std::path::Path::new(root), "", &mut fs, &mut seen)?;
    Ok(fs)
}

fn image_hash(fs: &SimFs, model_b: bool) -> u64 {
    let mut hsh: u64 = 0xcbf29ce484222325;
    for (path, &i) in &fs.files {
        hsh = hsh.wrapping_mul(0x100000001b3) ^ fnv(path.as_bytes());
        let ino = &fs.inodes[i];
        let c: &[u8] = if model_b { ino.durable.as_deref().unwrap_or(&[]) } else { &ino.data };
        hsh = hsh.wrapping_mul(0x100000001b3) ^ fnv(c);
        hsh = hsh.wrapping_mul(0x100000001b3) ^ (i as u64);
    }
    for d in &fs.dirs {
        hsh = hsh.wrapping_mul(0x100000001b3) ^ fnv(d.as_bytes());
    }
    hsh
}

/// the durable actions of a traced pass, in the model's rendering: `F<n>` unlink of a fragment,
/// `T<name>` unlink in trash/, and per synced edit of verify/MANIFEST `I<n>:<names>` (it adds
/// names) or `C` (it does not)
fn canonical_acts(ops: &[FsOp]) -> Vec<String> {
    let mut out = vec![];
    let mut buf: Vec<u8> = vec![];
    for op in ops {
        match op {
            FsOp::Unlink { path } => {
                if let Some(n) = path.strip_prefix("mani/MANIFEST.") {
                    if n.chars().all(|c| c.is_ascii_digit()) {
                        out.push(format!("F{}", n));
                    } else {
                        out.push(format!("U{}", path));
                    }
                } else if let Some(x) = path.strip_prefix("trash/") {
                    out.push(format!("T{}", sh(x)));
                } else if !path.starts_with("verify/") {
                    out.push(format!("U{}", path));
                }
            }
            FsOp::Rename { from, to } => {
                if !from.starts_with("verify/") {
                    out.push(format!("R{}>{}", from, to));
                }
            }
            FsOp::Link { from, to } => {
                if !from.starts_with("verify/") {
                    out.push(format!("L{}>{}", from, to));
                }
            }
            FsOp::Create { path, .. } | FsOp::Truncate { path } => {
                if !path.starts_with("verify/") {
                    out.push(format!("W{}", path));
                }
            }
            FsOp::Write { path, data, .. } => {
                if path == "verify/MANIFEST" {
                    buf.extend_from_slice(data);
                } else if !path.starts_with("verify/") {
                    out.push(format!("W{}", path));
                }
            }
            FsOp::Sync { path } => {
                if path == "verify/MANIFEST" && !buf.is_empty() {
                    let text = String::from_utf8_lossy(&buf).to_string();
                    let mut adds: Vec<String> = vec![];
                    let mut m: Option<u64> = None;
                    for l in text.lines() {
                        if l.len() > 9 {
                            let (act, val) = (&l[8..9], &l[9..]);
                            if act == "+" {
                                adds.push(sh(val));
                            } else if act == "M" {
                                m = mani::extract_backup(std::path::Path::new(val));
                            }
                        }
                    }
                    if m.is_some() || !adds.is_empty() {
                        out.push(format!("I{}:{}", m.map(|x| x.to_string()).unwrap_or_else(|| "?".into()), sorted_plus(adds.iter())));
                    } else {
                        out.push("C".to_string());
                    }
                    buf.clear();
                }
            }
            _ => {}
        }
    }
    out
}

// ------------------------------------------------------------------------------------------------
// checks built on the abstraction
// ------------------------------------------------------------------------------------------------

fn fail_class(taint: &Option<String>, class: &str) -> String {
    taint.clone().unwrap_or_else(|| class.to_string())
}

/// one real verifier pass against the model's `vfy pass`, plus the protocol oracle
fn emit_pass(rec: &mut Recorder, tag: &str, before: &AbsDir, after: &AbsDir, last_verify: &str, err_text: &str, taint: &Option<String>) {
    if before.unreadable || after.unreadable {
        rec.count("vfy.pass.skipped_unreadable_fragment");
        return;
    }
    let st = status_token(last_verify);
    let mut extra = if st == "panic" { vec![format!("verifier panicked: {}", last_verify)] } else { vec![] };
    if st == "corrupt" {
        extra.extend(newest_two_wedged(before, err_text));
    }
    // how often a pass meets the inputs on which the range of `last_removals` matters
    for (_, p) in newest_two_inputs(before) {
        rec.count(if p < before.frags.len() { "vfy.pass.trash_copy_last_removed_by_newest_fragment" } else { "vfy.pass.trash_copy_last_removed_by_MANIFEST" });
    }
    let v = protocol_verdict(tag, before, after, extra, taint);
    rec.count(&format!("vfy.pass.{}", st.split(':').next().unwrap_or("")));
    let req = format!("vfy pass {}", before.request());
    let nontrivial = if after.frags.len() < before.frags.len() || st.starts_with("backoff") || !before.vstrs.is_empty() { Some(fnv(req.as_bytes())) } else { None };
    rec.case(&req, &observed_pass(before, after, &st), tainted(v, taint), nontrivial);
}

/// class of the oracle complaint about the live MANIFEST (input predicate: see `emit_orph`)
const RELISTED: &str = "cleanup-moved-file-relisted-in-live-manifest-by-log-recovery";

/// one real reopen against the model's `orph`, plus the oracle: nothing listed leaves sst/.
/// The fragments handed to the model are those of the directory AFTER the open, MANIFEST last:
/// the live MANIFEST as `cleanup_orphans` scans it, with the edits `recover_one` wrote during
/// this very open (nothing writes to the manifest between the clean-up and the end of the open).
fn emit_orph(rec: &mut Recorder, tag: &str, before: &AbsDir, after: &AbsDir, listed_real: &[String], taint: &Option<String>) {
    if after.unreadable {
        rec.count("orph.skipped_unreadable_fragment");
        return;
    }
    let b_sst: BTreeSet<String> = before.sst.iter().cloned().collect();
    let a_sst: BTreeSet<String> = after.sst.iter().cloned().collect();
    let a_trash: BTreeSet<String> = after.trash.iter().cloned().collect();
    let left: Vec<String> = b_sst.difference(&a_sst).cloned().collect();
    let moved: Vec<String> = left.iter().filter(|x| a_trash.contains(&format!("{}.sst", x))).cloned().collect();
    let listed: BTreeSet<String> = listed_real.iter().map(|x| sh(x)).collect();
    let mut bad = vec![];
    // Files that an edit of MANIFEST written DURING this open lists again (log recovery,
    // `recover_one`: the edits after the roll-up in the live MANIFEST as it is when the clean-up
    // scans it) after an edit of an older fragment removed them: an input predicate on the
    // fragments the scan reads.
    let relisted: BTreeSet<String> = after.live.iter().skip(1).flat_map(|e| e.add.iter().cloned()).filter(|x| after.frags.iter().any(|(_, es)| es.iter().skip(1).any(|e| e.rm.contains(x) && !e.add.contains(x)))).collect();
    if !relisted.is_empty() {
        rec.count("orph.reopens_with_file_relisted_by_recovery_in_live_MANIFEST");
    }
    // the same when the recovery edit has already been rolled into a fragment of its own (small
    // rollover ratio): counted, not a class of its own (every scan reads that fragment)
    if let Some((n, es)) = after.frags.last() {
        if !before.frags.iter().any(|f| f.0 == *n) {
            let older = &after.frags[..after.frags.len() - 1];
            if es.iter().skip(1).flat_map(|e| e.add.iter()).any(|x| older.iter().any(|(_, es)| es.iter().skip(1).any(|e| e.rm.contains(x) && !e.add.contains(x)))) {
                rec.count("orph.reopens_with_file_relisted_by_recovery_in_newest_fragment");
            }
        }
    }
    let mut relisted_moved = vec![];
    for x in &left {
        if listed.contains(x) && relisted.contains(x) {
            relisted_moved.push(format!("clean-up moved {} out of sst/ although the live MANIFEST lists it: an edit written during this open (log recovery) adds it back after an older fragment removed it", x));
        }
    }
    for x in &left {
        if listed.contains(x) {
            bad.push(format!("listed file {} left sst/ during the reopen", x));
        }
        if !moved.contains(x) {
            bad.push(format!("{} left sst/ and is not in trash/", x));
        }
    }
    for x in &listed {
        if !a_sst.contains(x) {
            bad.push(format!("listed file {} is not in sst/ after the reopen", x));
        }
    }
    let all_sst: BTreeSet<String> = b_sst.union(&a_sst).cloned().collect();
    let mut frs: Vec<String> = after.frags.iter().map(|(_, es)| render_edits(es)).collect();
    frs.push(render_edits(&after.live));
    let req = format!("orph sst={} trash={} frags={}", sorted_plus(all_sst.iter()), sorted_plus(before.trash.iter()), frs.join("|"));
    let obs = format!("moved={} listed={}", sorted_plus(moved.iter()), sorted_plus(listed.iter()));
    rec.count("orph.reopens");
    rec.add("orph.moved", moved.len() as u64);
    let v = if !relisted_moved.is_empty() {
        // decided by the fragments and the two listings alone: not attributed to another finding
        Verdict::Fail { class: RELISTED.to_string(), detail: format!("{} {}", tag, relisted_moved.into_iter().chain(bad).collect::<Vec<_>>().join("; ")) }
    } else if bad.is_empty() {
        Verdict::Ok
    } else {
        Verdict::Fail { class: fail_class(taint, "cleanup-removed-listed-file"), detail: format!("{} {}", tag, bad.join("; ")) }
    };
    rec.case(&req, &obs, tainted(v, taint), if !moved.is_empty() || !relisted.is_empty() { Some(fnv(req.as_bytes())) } else { None });
}

/// open the real store on `root` (an image), compare the clean-up with the model, read everything
/// back; the image is removed afterwards
fn reopen_image(rec: &mut Recorder, tag: &str, root: &str, cfg: &Cfg, keys: &[Vec<u8>], expect: &BTreeMap<Vec<u8>, Option<Vec<u8>>>, taint: &Option<String>) {
    let before = abs_dir(root);
    let r = guarded(std::panic::AssertUnwindSafe(|| Sim::open(root, cfg)));
    let mut taint = taint.clone();
    let mut bad = vec![];
    match r {
        Err(p) => bad.push(format!("reopen panicked: {}", p)),
        Ok(Err(e)) => bad.push(format!("reopen failed: {}", e)),
        Ok(Ok(sim)) => {
            match sim.dump() {
                Ok(d) => {
                    if taint.is_none() && crate::c01::d9_trigger(&d) {
                        taint = Some(D9.to_string());
                        rec.count("images_tainted_by_D9_trigger");
                    }
                }
                Err(e) => bad.push(format!("a file of the reopened version cannot be read: {}", e)),
            }
            let after = abs_dir(root);
            let listed = sim.kvs().verif_tree().verif_manifest().0;
            emit_orph(rec, tag, &before, &after, &listed, &taint);
            for k in keys {
                let want = expect.get(k).cloned().flatten();
                match sim.get(k) {
                    Ok(got) if got == want => {}
                    Ok(got) => bad.push(format!("key {} reads {:?} want {:?}", hex(k), got.map(|v| hex(&v)), want.map(|v| hex(&v)))),
                    Err(e) => bad.push(format!("key {} load error {}", hex(k), e)),
                }
            }
            let live: Vec<(Vec<u8>, Vec<u8>)> = expect.iter().filter_map(|(k, v)| v.as_ref().map(|v| (k.clone(), v.clone()))).collect();
            match sim.scan_all() {
                Ok(s) if s == live => {}
                Ok(s) => bad.push(format!("full scan shows {} entries, want {}", s.len(), live.len())),
                Err(e) => bad.push(format!("scan error {}", e)),
            }
            sim.close();
        }
    }
    rec.count("images.reopened_and_read_back");
    let v = if bad.is_empty() { Verdict::Ok } else { Verdict::Fail { class: fail_class(&taint, "contents-changed-after-verifier-pass"), detail: format!("{} {}", tag, bad.iter().take(4).cloned().collect::<Vec<_>>().join("; ")) } };
    rec.case(&format!("# {} reopen+readback", tag), "#", tainted(v, &taint), Some(fnv(tag.as_bytes())));
    let _ = std::fs::remove_dir_all(root);
}

/// a verifier pass on an image in this process, compared with the model; returns the states
fn pass_on_image(rec: &mut Recorder, tag: &str, root: &str, cfg: &Cfg, taint: &Option<String>) -> (AbsDir, AbsDir, String) {
    let before = abs_dir(root);
    let st = real_pass(root, cfg);
    let after = abs_dir(root);
    emit_pass(rec, tag, &before, &after, &st, &st, taint);
    (before, after, st)
}

pub struct TraceBudget {
    pub passes: usize,
    pub images_per_pass: usize,
}

/// One verifier pass on a copy of `root`, in a child under strace; the order of its durable
/// actions, the directory after every prefix of its system calls, and every distinct crash image
/// restarted, reopened and read back.
fn traced_pass(rec: &mut Recorder, tag: &str, root: &str, cfg: &Cfg, keys: &[Vec<u8>], expect: &BTreeMap<Vec<u8>, Option<Vec<u8>>>, taint: &Option<String>, max_images: usize) {
    let work = scratch_dir(&format!("c08t.{}", fnv(tag.as_bytes())));
    let _ = std::fs::create_dir_all(&work);
    let pre = format!("{}/pre", work);
    let runr = format!("{}/run", work);
    let img = format!("{}/img", work);
    let cleanup = |w: &str| {
        let _ = std::fs::remove_dir_all(w);
    };
    if copy_tree(root, &pre).is_err() || copy_tree(&pre, &runr).is_err() {
        rec.count("traced.copy_failed");
        cleanup(&work);
        return;
    }
    let d0 = abs_dir(&pre);
    if d0.unreadable {
        rec.count("traced.skipped_unreadable_fragment");
        cleanup(&work);
        return;
    }
    let trace = format!("{}/trace", work);
    let exe = std::env::current_exe().unwrap();
    let out = std::process::Command::new("strace")
        .args(["-f", "-o", &trace, "-s", "4000000", "-xx", "-y", "-e", "trace=openat,open,creat,write,pwrite64,fsync,fdatasync,link,linkat,rename,renameat,renameat2,unlink,unlinkat,mkdir,mkdirat,rmdir"])
        .arg(&exe)
        .args(["C08child", &runr, &cfg_arg(cfg)])
        .stderr(std::process::Stdio::null())
        .output();
    let (okrun, status) = match out {
        Ok(o) => (o.status.success(), String::from_utf8_lossy(&o.stdout).trim().to_string()),
        Err(e) => (false, format!("spawn:{}", e)),
    };
    let text = std::fs::read_to_string(&trace).unwrap_or_default();
    if !okrun || text.is_empty() {
        rec.case(&format!("# {} traced run", tag), "#", Verdict::Fail { class: "machinery".into(), detail: format!("{} traced child failed: {}", tag, status) }, None);
        cleanup(&work);
        return;
    }
    let ops = fstrace::parse(&text, &runr, "/nonexistent-marker");
    // ---- order of the durable actions
    let acts = canonical_acts(&ops);
    let req = format!("vfy trace {}", d0.request());
    rec.count("traced.passes");
    rec.add("traced.actions", acts.len() as u64);
    rec.corr(&req, &format!("st={} acts={}", status_token(&status), if acts.is_empty() { "-".to_string() } else { acts.join(",") }), if acts.len() >= 3 { Some(fnv(req.as_bytes())) } else { None });
    // the traced run as a whole is a pass, too
    let dend = abs_dir(&runr);
    emit_pass(rec, &format!("{} (traced)", tag), &d0, &dend, &status, &status, taint);
    // ---- crash points
    let mutating: Vec<usize> = ops.iter().enumerate().filter(|(_, o)| o.mutating()).map(|(i, _)| i).collect();
    let mut fs = match simfs_of(&pre) {
        Ok(f) => f,
        Err(_) => {
            cleanup(&work);
            return;
        }
    };
    let mut applied = 0usize;
    let mut seen: BTreeSet<(bool, u64)> = BTreeSet::new();
    let mut states_a: Vec<String> = vec![];
    let mut capped = false;
    let mut n_images = 0usize;
    for p in 0..=mutating.len() {
        let upto = if p < mutating.len() { mutating[p] } else { ops.len() };
        while applied < upto {
            fs.apply(&ops[applied]);
            applied += 1;
        }
        let next_call = if p < mutating.len() { format!("{:?}", ops[mutating[p]]).chars().take(70).collect::<String>() } else { "end".to_string() };
        for model_b in [false, true] {
            let h = image_hash(&fs, model_b);
            if !seen.insert((model_b, h)) {
                rec.count("traced.crash_points_with_image_already_explored");
                continue;
            }
            if n_images >= max_images {
                capped = true;
                rec.count("traced.images_not_explored(cap)");
                continue;
            }
            n_images += 1;
            if fs.materialize(&img, model_b).is_err() {
                rec.count("traced.materialize_failed");
                continue;
            }
            let itag = format!("{} crash-before-call {} ({}) model {}", tag, p, next_call, if model_b { "b" } else { "a" });
            let di = abs_dir(&img);
            if !model_b && states_a.last() != Some(&di.state()) {
                states_a.push(di.state());
            }
            // the crash state itself obeys the protocol (log before unlink)
            let v = if di.unreadable { Verdict::Fail { class: fail_class(taint, "verifier-removed-unlogged-or-needed-file"), detail: format!("{} verify/MANIFEST or a fragment unreadable in the image", itag) } } else { protocol_verdict(&itag, &d0, &di, vec![], taint) };
            rec.count(if model_b { "traced.images.model_b" } else { "traced.images.model_a" });
            rec.case(&format!("# {} image", itag), "#", tainted(v, taint), Some(fnv(format!("{}:{}:{}", tag, model_b, h).as_bytes())));
            // restart: the real verifier on the image against the model's pass from that state
            let (_b, _a, st) = pass_on_image(rec, &format!("{} restart", itag), &img, cfg, taint);
            rec.count(&format!("traced.restart.{}", status_token(&st).split(':').next().unwrap_or("")));
            // then the real store: reopen (clean-up compared with the model) and read back
            reopen_image(rec, &itag, &img, cfg, keys, expect, taint);
        }
    }
    if !capped {
        let req = format!("vfy prefixes {}", d0.request());
        rec.count("traced.prefix_sequences");
        rec.corr(&req, &states_a.join(" | "), if states_a.len() >= 3 { Some(fnv(req.as_bytes())) } else { None });
    }
    cleanup(&work);
}

pub fn run(args: &Args) {
    let mut rec = Recorder::new(&args.out, args.only_case);
    let (nh, len) = if args.thorough { (300, 100) } else { (80, 60) };
    let have_strace = std::process::Command::new("strace").arg("-V").output().map(|o| o.status.success()).unwrap_or(false);
    if !have_strace {
        rec.case("# strace unavailable", "#", Verdict::Fail { class: "machinery".into(), detail: "strace not found".into() }, None);
    }
    let mut budget = if !have_strace { TraceBudget { passes: 0, images_per_pass: 0 } } else if args.thorough { TraceBudget { passes: 120, images_per_pass: 400 } } else { TraceBudget { passes: 10, images_per_pass: 160 } };
    // debugging aid: BLUE_C08_ONLY=<history index> runs that history alone
    let only: Option<u64> = std::env::var("BLUE_C08_ONLY").ok().and_then(|x| x.parse().ok());
    if only.is_none() {
        pinned_output_case(&mut rec);
    }
    if only.is_none() {
        let t0 = std::time::Instant::now();
        relisted_case(&mut rec, 0);
        relisted_case(&mut rec, 1);
        directed_newest(&mut rec, args.seed, &mut budget, have_strace);
        if std::env::var("BLUE_TIMING").is_ok() {
            eprintln!("relisted images + newest-two histories took {} ms", t0.elapsed().as_millis());
        }
    }
    if have_strace && only.is_none() {
        directed(&mut rec, args.seed, &mut budget);
    }
    // BLUE_C08_ONLY=directed: the directed cases alone
    let nh = if std::env::var("BLUE_C08_ONLY").map(|x| x == "directed").unwrap_or(false) { 0 } else { nh };
    for h in 0..nh {
        if only.map(|o| o != h).unwrap_or(false) {
            continue;
        }
        let nkeys = if h % 3 == 0 { 4 } else if h % 3 == 1 { 7 } else { 12 };
        run_history(&mut rec, args.seed, h, len, nkeys, &mut budget);
    }
    rec.finish(
        "directed first: two crash images in which log recovery lists a just-compacted file again (in the live MANIFEST; under rollover ratio 1 in a fragment of its own) before the orphan clean-up scans the manifest, and four cuts of the D-28 history in which the first verifier pass meets trash copies whose last removal is still in MANIFEST or in the newest numbered fragment (each followed by the passes that come to that removal; the run fails if the situation is not reached). Then store histories as in C01 with verifier passes (about one op in ten, some twice in a row), reopens (a third of them under other options) and directed images; after every op the directory listing is checked against the current version; every verifier pass and every reopen is compared with the verifier / orphan clean-up model on the dumped directory (names, every fragment's edits, verify/ manifest) and followed by a reopen and a full read-back; traced passes (strace, child on a copy): action order, the directory after every prefix of the system calls, every distinct crash image (completed calls persist / unsynced bytes lost) restarted with the real verifier, reopened and read back; per store incarnation the sequence of installed versions is replayed through the reference-counting model; non-trivial = an incarnation with >= 3 version installs, a pass that unlinks a fragment / backs off / finds a pending intent, a reopen that moves an orphan, a traced pass with >= 3 actions, every distinct crash image; distinct by request",
        &[],
    );
}

/// Directed schedule: a reader's snapshot pins a file X that a compaction has already removed from
/// the manifest (a key inside X's range was inserted); the key is deleted again and a later garbage
/// collection writes what X held — an output of the same name, for which `hard_link` answers
/// AlreadyExists (accepted by `compaction_finish`); the reader lets go of its snapshot between that
/// link and the manifest edit (at the `compaction.before_manifest` hook).
///  * oracle: afterwards every file the manifest lists is in sst/, the store reopens and reads back;
///  * correspondence: `flink` (`Blue.FileLink`): per-file reference counts, sst/ and trash/ under
///    the link / reference / release events of that compaction, in the protocol the code under test
///    shows on this input (`asis`: the link takes no reference; `pin`: it does).
fn pinned_output_case(rec: &mut Recorder) {
    use std::ops::Bound;
    let debug = std::env::var("BLUE_DEBUG").is_ok();
    let class = "snapshot-released-between-output-link-and-install";
    let cfg = Cfg { memtable_bytes: 1 << 20, target_file: 1 << 22, min_file: 64, target_block: 256, l0_mandatory_files: 1, l0_stall_files: 12, max_compaction_files: 16, gc_versions: 1, mani_ratio: 10 };
    let root = scratch_dir("c08.pinned");
    let mut sim = match Sim::open(&root, &cfg) {
        Ok(s) => s,
        Err(_) => return,
    };
    let listed_now = |sim: &Sim| -> Vec<String> { sim.kvs().verif_tree().verif_manifest().0.iter().map(|x| sh(x)).collect() };
    let dirs_now = |sim: &Sim| -> (Vec<String>, Vec<String>) {
        let l = sim.listing();
        (l["sst"].iter().filter_map(|x| x.strip_suffix(".sst").map(|y| sh(y))).collect(), l["trash"].iter().filter_map(|x| x.strip_suffix(".sst").map(|y| sh(y))).collect())
    };
    let okc = std::cell::Cell::new(true);
    let go = |sim: &mut Sim, ops: &[Op]| {
        for op in ops {
            if sim.apply(op).is_err() {
                okc.set(false);
            }
        }
    };
    go(&mut sim, &[Op::Put(b"b".to_vec(), b"v1".to_vec()), Op::Put(b"d".to_vec(), b"v2".to_vec()), Op::Flush]);
    go(&mut sim, &vec![Op::Compact(1); 20]);
    let x_name = listed_now(&sim).first().cloned().unwrap_or_default();
    // the reader: a scan opened now keeps the version that holds X referenced
    let cursor = match sim.kvs().range_scan::<&[u8]>(&Bound::Unbounded, &Bound::Unbounded) {
        Ok(c) => c,
        Err(_) => return,
    };
    let cursor: Box<dyn sst::Cursor + '_> = Box::new(cursor);
    // SAFETY: the cursor is dropped (inside the hook below, or right after the loop) before `sim`
    let cursor: Box<dyn sst::Cursor + 'static> = unsafe { std::mem::transmute(cursor) };
    let held = std::rc::Rc::new(std::cell::RefCell::new(Some(cursor)));
    go(&mut sim, &[Op::Put(b"c".to_vec(), b"v3".to_vec()), Op::Flush]);
    go(&mut sim, &vec![Op::Compact(1); 20]);
    go(&mut sim, &[Op::Put(b"c".to_vec(), b"v4".to_vec()), Op::Flush]);
    for _ in 0..60 {
        go(&mut sim, &[Op::Compact(1)]);
        if !listed_now(&sim).contains(&x_name) {
            break;
        }
    }
    go(&mut sim, &[Op::Del(b"c".to_vec()), Op::Flush]);
    go(&mut sim, &vec![Op::Compact(1); 20]);
    go(&mut sim, &[Op::Del(b"c".to_vec()), Op::Flush]);
    let pinned_unlisted = !listed_now(&sim).contains(&x_name) && dirs_now(&sim).0.contains(&x_name);
    let mut released = false;
    let mut before = (listed_now(&sim), dirs_now(&sim));
    if okc.get() && pinned_unlisted {
        let flag = std::rc::Rc::new(std::cell::Cell::new(false));
        for step in 0..200u64 {
            if step > 0 && step % 40 == 0 {
                // another tombstone on top of the stack (a level is merged into the next when a
                // third file sits on the two)
                go(&mut sim, &[Op::Del(b"c".to_vec()), Op::Flush]);
            }
            before = (listed_now(&sim), dirs_now(&sim));
            let h = held.clone();
            let f = flag.clone();
            lsmtk::verif::set_single_step(Some(1));
            lsmtk::verif::set_probe(Some(Box::new(move |tag: &'static str| {
                if tag == "compaction.before_manifest" && h.borrow().is_some() {
                    // the outputs are linked into sst/, the manifest edit is not written yet
                    *h.borrow_mut() = None;
                    f.set(true);
                }
            })));
            let res = sim.kvs().compaction_thread();
            lsmtk::verif::set_probe(None);
            lsmtk::verif::set_single_step(None);
            let _ = lsmtk::verif::take_chosen();
            if res.is_err() {
                okc.set(false);
                break;
            }
            if flag.get() {
                released = true;
                break;
            }
        }
    }
    *held.borrow_mut() = None;
    if !(okc.get() && pinned_unlisted && released) {
        rec.count("pinned_output.schedule_not_reached");
        sim.close();
        return;
    }
    rec.count("pinned_output.schedules");
    let after = (listed_now(&sim), dirs_now(&sim));
    let (w0, w1) = (&before.0, &after.0);
    let outputs: Vec<&String> = w1.iter().filter(|f| !w0.contains(f)).collect();
    let missing: Vec<&String> = w1.iter().filter(|f| !after.1 .0.contains(f)).collect();
    let protocol = if missing.is_empty() { "pin" } else { "asis" };
    rec.count(&format!("pinned_output.protocol_{}", protocol));
    // the events of that compaction, file by file
    let mut evs: Vec<String> = outputs.iter().map(|o| format!("L:{}", o)).collect();
    evs.push(format!("U:{}", x_name)); // the reader lets go of the version that held X
    evs.extend(w1.iter().map(|f| format!("R:{}", f))); // explicit_ref of the new version
    evs.extend(w0.iter().map(|f| format!("U:{}", f))); // explicit_unref of the replaced one
    if protocol == "pin" {
        evs.extend(outputs.iter().map(|o| format!("U:{}", o)));
    }
    let mut refs0: Vec<String> = w0.iter().map(|f| format!("{}:1", f)).collect();
    refs0.push(format!("{}:1", x_name));
    let req = format!("flink {} refs={} sst={} trash={} :: {}", protocol, refs0.join(","), sorted_plus(before.1 .0.iter()), sorted_plus(before.1 .1.iter()), evs.join(" "));
    let obs = format!("sst={} trash={}", sorted_plus(after.1 .0.iter()), sorted_plus(after.1 .1.iter()));
    if debug {
        eprintln!("pinned: X={} before listed={:?} sst={:?}; after listed={:?} sst={:?} trash={:?}", x_name, before.0, before.1 .0, after.0, after.1 .0, after.1 .1);
    }
    let mut bad: Vec<String> = missing.iter().map(|f| format!("the manifest lists {} and it is not in sst/", f)).collect();
    // the store must reopen and hold what was written
    match sim.apply(&Op::Reopen) {
        Err(e) => bad.push(format!("reopen failed: {}", e.chars().take(160).collect::<String>())),
        Ok(()) => {
            for (k, want) in [(b"b".to_vec(), Some(b"v1".to_vec())), (b"c".to_vec(), None), (b"d".to_vec(), Some(b"v2".to_vec()))] {
                match sim.get(&k) {
                    Ok(got) if got == want => {}
                    other => bad.push(format!("key {} reads {:?}", hex(&k), other)),
                }
            }
        }
    }
    let v = if bad.is_empty() { Verdict::Ok } else { Verdict::Fail { class: class.into(), detail: format!("put b,d; flush; SCAN OPENED; put c; flush; put c; flush; compactions (X={} leaves the manifest, stays in sst/); del c; flush; del c; flush; compactions, the scan dropped at compaction.before_manifest of the one whose output is X: {}", x_name, bad.join("; ")) } };
    rec.case(&req, &obs, v, Some(fnv(req.as_bytes())));
    if sim.kvs.is_some() {
        sim.close();
    } else {
        let _ = std::fs::remove_dir_all(&root);
    }
}
