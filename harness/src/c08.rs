//! C08 — no needed file is ever removed; clean-up removes only unreferenced files.
//!
//! Store histories as in C01 with verifier passes and reopens.  Observed after every operation:
//! the names in sst/, trash/, mani/, verify/ and the logs.
//!  * oracle: every SST of the current version is in sst/; a verifier pass removes only names that
//!    were in trash/ (or fully processed manifest fragments, never the newest two, never MANIFEST)
//!    and leaves sst/ untouched; after every verifier pass the store is reopened and every key
//!    reads back unchanged (point reads and a full scan).
//!  * correspondence: the reference-counting model (`Blue.FileRefs.step`: install_version /
//!    explicit_ref / explicit_unref and the move to trash/) fed with the versions the store
//!    installed predicts exactly which names are in sst/ and which have left it.
use crate::common::*;
use crate::store::*;
use std::collections::BTreeSet;

fn tainted(v: Verdict, taint: &Option<String>) -> Verdict {
    match (v, taint) {
        (Verdict::Ok, Some(c)) => Verdict::Taint { class: c.clone() },
        (v, _) => v,
    }
}

fn version_files(d: &StateDump) -> Vec<String> {
    let mut v: Vec<String> = d.levels.iter().flat_map(|l| l.iter().map(|f| hex(&f.setsum)[..12].to_string())).collect();
    v.sort();
    v
}

fn short(names: &[String]) -> BTreeSet<String> {
    names.iter().filter(|n| n.ends_with(".sst")).map(|n| n[..12].to_string()).collect()
}

fn plus(v: &[String]) -> String {
    if v.is_empty() {
        "-".into()
    } else {
        v.join("+")
    }
}

struct Incarnation {
    v0: Vec<String>,
    events: Vec<String>,
    observed: Vec<String>,
    sst_at_start: BTreeSet<String>,
    left: BTreeSet<String>,
}

fn flush_incarnation(rec: &mut Recorder, inc: &Incarnation, taint: &Option<String>) {
    if inc.events.is_empty() {
        return;
    }
    let req = format!("refs run {} :: {}", plus(&inc.v0), inc.events.join(" "));
    rec.count("incarnations");
    rec.add("installs", inc.events.len() as u64);
    rec.case(&req, &inc.observed.join(" | "), tainted(Verdict::Ok, taint), if inc.events.len() >= 3 { Some(fnv(req.as_bytes())) } else { None });
}

pub fn run_history(rec: &mut Recorder, seed: u64, hidx: u64, len: usize, nkeys: usize) {
    let mut rng = Rng::for_case(seed, 108, hidx);
    let cfg = Cfg::gen(&mut rng);
    let mode = hidx % 4 % 3;
    let mut ops = gen_history(&mut rng, if mode == 1 { len * 2 } else { len }, nkeys, mode);
    // more verifier passes than the common generator gives
    let extra = ops.len() / 12;
    for _ in 0..extra {
        let at = rng.below(ops.len() as u64) as usize;
        ops.insert(at, Op::Verify);
    }
    let root = scratch_dir(&format!("c08.{}", hidx));
    rec.aux(&format!("history {} cfg {} ops {}", hidx, cfg.render(), ops.iter().map(|o| o.render()).collect::<Vec<_>>().join(" ")));
    let mut sim = match Sim::open(&root, &cfg) {
        Ok(s) => s,
        Err(e) => {
            rec.case(&format!("# history {} open", hidx), "#", Verdict::Fail { class: "open-error".into(), detail: e }, None);
            return;
        }
    };
    let keys: Vec<Vec<u8>> = ALPHABET[..nkeys].iter().map(|k| k.to_vec()).collect();
    let mut taint: Option<String> = None;
    let new_inc = |sim: &Sim| -> Option<Incarnation> {
        let d = sim.dump().ok()?;
        let l = sim.listing();
        let sst = short(l.get("sst")?);
        Some(Incarnation { v0: version_files(&d), events: vec![], observed: vec![], sst_at_start: sst, left: BTreeSet::new() })
    };
    let mut inc = match new_inc(&sim) {
        Some(i) => i,
        None => return,
    };
    let mut prev_files = inc.v0.clone();
    let mut prev_levels: Vec<Vec<String>> = vec![];
    'ops: for (step, op) in ops.iter().enumerate() {
        let tag = format!("h{}s{}:{}", hidx, step, op.render());
        if let Op::Reopen = op {
            if taint.is_none() {
                if let Ok(d) = sim.dump() {
                    if crate::c01::d9_trigger(&d) {
                        taint = Some("reopen-with-key-and-timestamp-overlapping-files".to_string());
                        rec.count("histories_tainted_by_D9_trigger");
                    }
                }
            }
        }
        let before = sim.listing();
        let res = match guarded(std::panic::AssertUnwindSafe(|| sim.apply(op))) {
            Ok(r) => r,
            Err(p) => Err(format!("panic:{}", p)),
        };
        if let Err(e) = res {
            rec.case(&format!("# {}", tag), "#", Verdict::Fail { class: taint.clone().unwrap_or_else(|| "fault-free-op-error".to_string()), detail: format!("{} -> {}", tag, e) }, None);
            break;
        }
        let pf = std::mem::take(&mut sim.probe_failures);
        if !pf.is_empty() {
            rec.case(&format!("# {} inside", tag), "#", Verdict::Fail { class: taint.clone().unwrap_or_else(|| "needed-file-removed".to_string()), detail: format!("{} {}", tag, pf.iter().take(3).cloned().collect::<Vec<_>>().join("; ")) }, None);
        }
        sim.chosen.clear();
        let after = sim.listing();
        let d = match sim.dump() {
            Ok(d) => d,
            Err(e) => {
                rec.case(&format!("# {}", tag), "#", Verdict::Fail { class: "dump-error".into(), detail: e }, None);
                break;
            }
        };
        let files = version_files(&d);
        let sst_now = short(after.get("sst").unwrap());
        let mut bad = vec![];
        // (a) every file of the current version is in sst/
        for f in &files {
            if !sst_now.contains(f) {
                bad.push(format!("live file {} is not in sst/", f));
            }
        }
        // (b) what a verifier pass may touch
        if let Op::Verify = op {
            rec.count(if sim.last_verify == "ok" { "verifier.ok" } else if sim.last_verify.starts_with("backoff") { "verifier.backoff" } else { "verifier.error" });
            let gone = |dir: &str| -> Vec<String> { before.get(dir).unwrap().iter().filter(|n| !after.get(dir).unwrap().contains(n)).cloned().collect() };
            let appeared = |dir: &str| -> Vec<String> { after.get(dir).unwrap().iter().filter(|n| !before.get(dir).unwrap().contains(n)).cloned().collect() };
            if !gone("sst").is_empty() || !appeared("sst").is_empty() {
                bad.push(format!("verifier changed sst/: gone {:?} new {:?}", gone("sst"), appeared("sst")));
            }
            if !gone("logs").is_empty() {
                bad.push(format!("verifier removed logs {:?}", gone("logs")));
            }
            let mani_before = before.get("mani").unwrap();
            let mut nums: Vec<u64> = mani_before.iter().filter_map(|n| n.strip_prefix("MANIFEST.").and_then(|x| x.parse().ok())).collect();
            nums.sort();
            let newest = nums.last().copied();
            for g in gone("mani") {
                if g == "MANIFEST" || g == "LOCKFILE" || Some(g.clone()) == newest.map(|n| format!("MANIFEST.{}", n)) {
                    bad.push(format!("verifier removed {}", g));
                }
            }
            rec.add("verifier.unlinked_trash", gone("trash").len() as u64);
            rec.add("verifier.unlinked_fragments", gone("mani").len() as u64);
            if !appeared("trash").is_empty() {
                bad.push(format!("verifier put {:?} into trash/", appeared("trash")));
            }
        }
        let v = if bad.is_empty() { Verdict::Ok } else { Verdict::Fail { class: taint.clone().unwrap_or_else(|| "needed-file-removed".to_string()), detail: format!("{} {}", tag, bad.join("; ")) } };
        rec.count("listing_checks");
        if !bad.is_empty() || matches!(op, Op::Verify) {
            rec.case(&format!("# {}", tag), "#", tainted(v, &taint), None);
        }
        // model events: a version install whenever the file set or its placement changed
        let levels: Vec<Vec<String>> = d.levels.iter().map(|l| l.iter().map(|f| hex(&f.setsum)[..12].to_string()).collect()).collect();
        match op {
            Op::Reopen => {
                flush_incarnation(rec, &inc, &taint);
                inc = match new_inc(&sim) {
                    Some(i) => i,
                    None => break 'ops,
                };
            }
            Op::Verify => {}
            _ => {
                if levels != prev_levels || files != prev_files {
                    for f in inc.sst_at_start.iter().chain(prev_files.iter()) {
                        if !sst_now.contains(f) {
                            inc.left.insert(f.clone());
                        }
                    }
                    // names in sst/ that the model knows about: those of installed versions
                    let known: BTreeSet<String> = inc.v0.iter().cloned().chain(inc.events.iter().flat_map(|e| e[2..].split('+').map(|x| x.to_string()))).chain(files.iter().cloned()).collect();
                    let sst_known: Vec<String> = sst_now.iter().filter(|n| known.contains(*n)).cloned().collect();
                    let left_known: Vec<String> = inc.left.iter().filter(|n| known.contains(*n)).cloned().collect();
                    inc.events.push(format!("I:{}", plus(&files)));
                    inc.observed.push(format!("sst={} trash={}", plus(&sst_known), plus(&left_known)));
                }
            }
        }
        prev_files = files;
        prev_levels = levels;
        // (c) after a verifier pass: reopen and read everything back
        if let Op::Verify = op {
            flush_incarnation(rec, &inc, &taint);
            if taint.is_none() && crate::c01::d9_trigger(&d) {
                taint = Some("reopen-with-key-and-timestamp-overlapping-files".to_string());
                rec.count("histories_tainted_by_D9_trigger");
            }
            let r = sim.apply(&Op::Reopen);
            let mut bad = vec![];
            match r {
                Err(e) => bad.push(format!("reopen after verifier pass failed: {}", e)),
                Ok(()) => {
                    for k in &keys {
                        let want = sim.oracle.get(k).cloned().flatten();
                        match sim.get(k) {
                            Ok(got) if got == want => {}
                            Ok(got) => bad.push(format!("key {} reads {:?} want {:?}", hex(k), got.map(|v| hex(&v)), want.map(|v| hex(&v)))),
                            Err(e) => bad.push(format!("key {} load error {}", hex(k), e)),
                        }
                    }
                    let live: Vec<(Vec<u8>, Vec<u8>)> = sim.oracle.iter().filter_map(|(k, v)| v.as_ref().map(|v| (k.clone(), v.clone()))).collect();
                    match sim.scan_all() {
                        Ok(s) if s == live => {}
                        Ok(s) => bad.push(format!("full scan differs after verifier pass + reopen: got {:?} want {:?}", s.iter().map(|(k, v)| format!("{}={}", hex(k), hex(v))).collect::<Vec<_>>(), live.iter().map(|(k, v)| format!("{}={}", hex(k), hex(v))).collect::<Vec<_>>())),
                        Err(e) => bad.push(format!("scan error {}", e)),
                    }
                }
            }
            let v = if bad.is_empty() { Verdict::Ok } else { Verdict::Fail { class: taint.clone().unwrap_or_else(|| "contents-changed-after-verifier-pass".to_string()), detail: format!("{} {}", tag, bad.join("; ")) } };
            rec.count("readback_after_verify");
            rec.case(&format!("# {} readback", tag), "#", tainted(v, &taint), None);
            if sim.kvs.is_none() {
                break;
            }
            inc = match new_inc(&sim) {
                Some(i) => i,
                None => break 'ops,
            };
            if let Ok(d) = sim.dump() {
                prev_files = version_files(&d);
                prev_levels = d.levels.iter().map(|l| l.iter().map(|f| hex(&f.setsum)[..12].to_string()).collect()).collect();
            }
        }
    }
    flush_incarnation(rec, &inc, &taint);
    rec.add("flushes", sim.flushes);
    rec.add("compactions", sim.compactions);
    rec.add("reopens", sim.reopens);
    rec.add("observations_inside_flush_or_compaction", sim.probes_run);
    sim.close();
}

pub fn run(args: &Args) {
    let mut rec = Recorder::new(&args.out, args.only_case);
    let (nh, len) = if args.thorough { (300, 100) } else { (80, 60) };
    for h in 0..nh {
        let nkeys = if h % 3 == 0 { 4 } else if h % 3 == 1 { 7 } else { 12 };
        run_history(&mut rec, args.seed, h, len, nkeys);
    }
    rec.finish(
        "store histories as in C01 with verifier passes (about one op in ten) and reopens; after every op the directory listing is checked against the current version; every verifier pass is followed by a reopen and a full read-back; per store incarnation the sequence of installed versions is replayed through the reference-counting model; non-trivial = an incarnation with >= 3 version installs; distinct by request",
        &[],
    );
}
