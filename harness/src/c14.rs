//! C14 — setsum: correspondence with the Lean model + law oracle + published definition.
use crate::common::*;
use setsum::Setsum;
use sha3::{Digest, Sha3_256};

const PRIMES: [u64; 8] = [4294967291, 4294967279, 4294967231, 4294967197, 4294967189, 4294967161, 4294967143, 4294967111];

fn sha3(item: &[u8]) -> [u8; 32] {
    let mut h = Sha3_256::default();
    h.update(item);
    let out = h.finalize();
    let mut a = [0u8; 32];
    a.copy_from_slice(&out);
    a
}

/// the published definition, written independently of the crate: column-wise sums of LE words mod p
fn definition(items: &[Vec<u8>]) -> [u8; 32] {
    let mut cols = [0u64; 8];
    for it in items {
        let h = sha3(it);
        for c in 0..8 {
            let w = u32::from_le_bytes([h[4 * c], h[4 * c + 1], h[4 * c + 2], h[4 * c + 3]]) as u64;
            cols[c] = (cols[c] + w % PRIMES[c]) % PRIMES[c];
        }
    }
    let mut d = [0u8; 32];
    for c in 0..8 {
        d[4 * c..4 * c + 4].copy_from_slice(&(cols[c] as u32).to_le_bytes());
    }
    d
}

/// items whose SHA3-256 has a little-endian word in [p_i, 2^32) for some column i (found by a
/// search over "setsum-probe-<n>", about one item in five million): the only inputs on which the
/// per-item reduction of `hash_to_state` does anything
const NONCANONICAL_WORD_ITEMS: &[&str] = &[
    "setsum-probe-2292161", "setsum-probe-3007804", "setsum-probe-3111643", "setsum-probe-12375394", "setsum-probe-13232553", "setsum-probe-16786702",
    "setsum-probe-20729630", "setsum-probe-35755127", "setsum-probe-36098600", "setsum-probe-47665151", "setsum-probe-48249787", "setsum-probe-48560159",
];

fn gen_item(rng: &mut Rng) -> Vec<u8> {
    if rng.chance(1, 12) {
        return rng.pick(NONCANONICAL_WORD_ITEMS).as_bytes().to_vec();
    }
    match rng.below(6) {
        0 => vec![],
        1 => vec![rng.below(3) as u8],
        2 => b"a".to_vec(),
        3 => { let n = rng.below(5) as usize; rng.bytes(n) }
        4 => { let n = rng.range(30, 40) as usize; rng.bytes(n) }
        _ => { let n = rng.range(130, 140) as usize; rng.bytes(n) }
    }
}

fn insert_somehow(rng: &mut Rng, s: &mut Setsum, item: &[u8]) {
    if item.is_empty() && rng.chance(1, 2) {
        // the empty item written as no piece at all, or as empty pieces: the same item
        match rng.below(3) {
            0 => s.insert_vectored(&[]),
            1 => s.insert_vectored(&[&item[..]]),
            _ => s.insert_vectored(&[&item[..], &item[..]]),
        }
    } else if rng.chance(1, 2) || item.is_empty() {
        s.insert(item);
    } else {
        // vectored, split at a random position (and sometimes at two)
        let a = rng.below(item.len() as u64 + 1) as usize;
        if rng.chance(1, 2) {
            s.insert_vectored(&[&item[..a], &item[a..]]);
        } else {
            let b = a + rng.below((item.len() - a) as u64 + 1) as usize;
            s.insert_vectored(&[&item[..a], &item[a..b], &item[b..]]);
        }
    }
}

/// a digest whose columns are drawn from the boundary set {0,1,p-1,p,p+1,2^32-1,random}
fn gen_digest(rng: &mut Rng, allow_noncanonical: bool) -> ([u8; 32], bool) {
    let mut d = [0u8; 32];
    let mut noncanon = false;
    for c in 0..8 {
        let p = PRIMES[c];
        let v: u64 = match rng.below(if allow_noncanonical { 8 } else { 5 }) {
            0 => 0,
            1 => 1,
            2 => p - 1,
            3 => p - 2,
            4 => rng.below(p),
            5 => p,
            6 => p + 1,
            _ => 0xffff_ffff,
        };
        if v >= p {
            noncanon = true;
        }
        d[4 * c..4 * c + 4].copy_from_slice(&(v as u32).to_le_bytes());
    }
    (d, noncanon)
}

fn hexd(d: &[u8; 32]) -> String {
    hex(&d[..])
}

pub fn run(args: &Args) {
    let mut rec = Recorder::new(&args.out, args.only_case);
    let n_items = if args.thorough { 6000 } else { 600 };
    let n_prog = if args.thorough { 20000 } else { 2000 };
    let n_hex = if args.thorough { 5000 } else { 500 };

    // ---- stream 1: multisets of items --------------------------------------------------------
    for i in 0..n_items {
        if !rec.wants() {
            rec.skip();
            continue;
        }
        let mut rng = Rng::for_case(args.seed, 1, i);
        let n = match i {
            0 => 0,
            1 => 1,
            _ => rng.below(12) as usize,
        };
        let mut items: Vec<Vec<u8>> = (0..n).map(|_| gen_item(&mut rng)).collect();
        // repeats
        if n > 0 && rng.chance(1, 2) {
            let k = items[rng.below(n as u64) as usize].clone();
            items.push(k);
        }
        let req = format!("setsum items {}", items.iter().map(|it| hex(&sha3(it))).collect::<Vec<_>>().join(" "));
        for it in &items {
            rec.aux(&format!("sha3 {} {}", hex(it), hex(&sha3(it))));
        }
        let res = guarded(|| {
            let mut r2 = rng.clone();
            let mut s = Setsum::default();
            for it in &items {
                insert_somehow(&mut r2, &mut s, it);
            }
            // oracle on the implementation
            let mut fails: Vec<String> = vec![];
            let mut shuffled = items.clone();
            r2.shuffle(&mut shuffled);
            let mut t = Setsum::default();
            for it in &shuffled {
                t.insert(it);
            }
            if t != s {
                fails.push("order-dependent".into());
            }
            let cut = r2.below(items.len() as u64 + 1) as usize;
            let mut a = Setsum::default();
            let mut b = Setsum::default();
            for it in &items[..cut] {
                a.insert(it);
            }
            for it in &items[cut..] {
                b.insert(it);
            }
            if a + b != s {
                fails.push("union-not-sum".into());
            }
            if s - b != a {
                fails.push("sub-does-not-undo-add".into());
            }
            let mut u = s;
            for it in &items[cut..] {
                u.remove(it);
            }
            if u != a {
                fails.push("remove-does-not-undo-insert".into());
            }
            if Setsum::from_digest(s.digest()) != s {
                fails.push("digest-roundtrip".into());
            }
            if Setsum::from_hexdigest(&s.hexdigest()) != Some(s) {
                fails.push("hexdigest-roundtrip".into());
            }
            if s.digest() != definition(&items) {
                fails.push("differs-from-published-definition".into());
            }
            (s.hexdigest(), fails)
        });
        rec.count("items");
        rec.add("items.total_items", items.len() as u64);
        if items.iter().any(|x| x.is_empty()) {
            rec.count("items.with_empty_item");
        }
        let nt = if items.len() >= 2 { Some(fnv(req.as_bytes())) } else { None };
        match res {
            Ok((h, fails)) => {
                let v = if fails.is_empty() { Verdict::Ok } else { Verdict::Fail { class: "law".into(), detail: fails.join(",") } };
                rec.case(&req, &h, v, nt);
            }
            Err(m) => rec.case(&req, "panic", Verdict::Fail { class: "panic".into(), detail: m }, nt),
        }
    }

    // ---- stream 2: programs over values, including non-canonical digests ----------------------
    for i in 0..n_prog {
        if !rec.wants() {
            rec.skip();
            continue;
        }
        let mut rng = Rng::for_case(args.seed, 2, i);
        let allow_nc = rng.chance(1, 2);
        let (d0, mut any_nc) = gen_digest(&mut rng, allow_nc);
        let nops = rng.below(6) as usize;
        let mut toks: Vec<String> = vec![];
        #[derive(Clone)]
        enum Op {
            Ins(Vec<u8>),
            Rem(Vec<u8>),
            Add([u8; 32]),
            Sub([u8; 32]),
        }
        let mut ops: Vec<Op> = vec![];
        for _ in 0..nops {
            match rng.below(4) {
                0 => {
                    let it = gen_item(&mut rng);
                    toks.push(format!("i{}", hex(&sha3(&it))));
                    ops.push(Op::Ins(it));
                }
                1 => {
                    let it = gen_item(&mut rng);
                    toks.push(format!("r{}", hex(&sha3(&it))));
                    ops.push(Op::Rem(it));
                }
                2 => {
                    let (d, nc) = gen_digest(&mut rng, allow_nc);
                    any_nc |= nc;
                    toks.push(format!("a{}", hexd(&d)));
                    ops.push(Op::Add(d));
                }
                _ => {
                    let (d, nc) = gen_digest(&mut rng, allow_nc);
                    any_nc |= nc;
                    toks.push(format!("s{}", hexd(&d)));
                    ops.push(Op::Sub(d));
                }
            }
        }
        let req = format!("setsum prog {} {}", hexd(&d0), toks.join(" "));
        let ops2 = ops.clone();
        let res = guarded(move || {
            let mut s = Setsum::from_digest(d0);
            for op in &ops2 {
                match op {
                    Op::Ins(it) => s.insert(it),
                    Op::Rem(it) => s.remove(it),
                    Op::Add(d) => s += Setsum::from_digest(*d),
                    Op::Sub(d) => s -= Setsum::from_digest(*d),
                }
            }
            s.hexdigest()
        });
        // law oracle on the values that occur (property: "all pairs and triples of setsum values
        // including ... the non-canonical range reachable through from_digest")
        let vals: Vec<[u8; 32]> = std::iter::once(d0)
            .chain(ops.iter().filter_map(|o| match o {
                Op::Add(d) | Op::Sub(d) => Some(*d),
                _ => None,
            }))
            .collect();
        let law = guarded(move || {
            let mut fails: Vec<String> = vec![];
            let v: Vec<Setsum> = vals.iter().map(|d| Setsum::from_digest(*d)).collect();
            for x in &v {
                for y in &v {
                    if *x + *y != *y + *x {
                        fails.push("add-not-commutative".into());
                    }
                    if (*x + *y) - *y != *x {
                        fails.push("sub-does-not-undo-add".into());
                    }
                    for z in &v {
                        if (*x + *y) + *z != *x + (*y + *z) {
                            fails.push("add-not-associative".into());
                        }
                    }
                }
                if *x - *x != Setsum::default() {
                    fails.push("x-minus-x-not-zero".into());
                }
                if Setsum::from_digest(x.digest()) != *x {
                    fails.push("digest-roundtrip".into());
                }
            }
            fails.sort();
            fails.dedup();
            fails
        });
        rec.count("prog");
        if any_nc {
            rec.count("prog.noncanonical_digest");
        }
        let cls = if any_nc { "noncanonical-digest" } else { "canonical" };
        let verdict = match law {
            Ok(f) if f.is_empty() => Verdict::Ok,
            Ok(f) => Verdict::Fail { class: cls.into(), detail: f.join(",") },
            Err(m) => Verdict::Fail { class: cls.into(), detail: format!("panic: {}", m) },
        };
        let nt = if nops >= 1 { Some(fnv(req.as_bytes())) } else { None };
        match res {
            Ok(h) => rec.case(&req, &h, verdict, nt),
            Err(_) => rec.case(&req, "panic", verdict, nt),
        }
    }

    // ---- stream 3: hex digests (ASCII strings; non-ASCII is outside the property, D-17) --------
    for i in 0..n_hex {
        if !rec.wants() {
            rec.skip();
            continue;
        }
        let mut rng = Rng::for_case(args.seed, 3, i);
        let (d, _) = gen_digest(&mut rng, true);
        let mut s: Vec<u8> = Setsum::from_digest(d).hexdigest().into_bytes();
        let kind = rng.below(7);
        match kind {
            0 => {}
            6 => {
                // the digest as somebody else wrote it: columns that are not reduced
                s = hex(&d).into_bytes();
            }
            1 => {
                for c in s.iter_mut() {
                    if rng.chance(1, 3) {
                        *c = c.to_ascii_uppercase();
                    }
                }
            }
            2 => {
                let k = rng.below(64) as usize;
                s[k] = *rng.pick(&[b'g', b'+', b'-', b'x', b'G', b'/', b':', b'@', b'`', b'_']);
            }
            3 => {
                s.truncate(rng.below(64) as usize);
            }
            4 => {
                s.push(b'0');
                if rng.chance(1, 2) {
                    s.push(b'0');
                }
            }
            _ => {
                let k = rng.below(32) as usize;
                s[2 * k] = b'+';
            }
        }
        let st = String::from_utf8(s.clone()).unwrap();
        let req = format!("setsum hex {}", hex(&s));
        let r = guarded(move || Setsum::from_hexdigest(&st).map(|x| x.hexdigest()));
        rec.count(&format!("hex.kind{}", kind));
        let nt = Some(fnv(req.as_bytes()));
        match r {
            Ok(Some(h)) if kind == 6 && h != Setsum::from_digest(d).hexdigest() => rec.case(
                &req,
                &h,
                Verdict::Fail { class: "hexdigest-not-canonicalised".into(), detail: format!("from_hexdigest({}) gives {} but from_digest of the same bytes gives {}", hex(&s), h, Setsum::from_digest(d).hexdigest()) },
                nt,
            ),
            Ok(Some(h)) => rec.corr(&req, &h, nt),
            Ok(None) => rec.corr(&req, "none", nt),
            Err(m) => rec.case(&req, "panic", Verdict::Fail { class: "panic".into(), detail: m }, nt),
        }
    }
    rec.finish(
        "three seeded streams: multisets of byte-string items (empty, repeated, vectored splits), programs of insert/remove/add/sub over digests with columns in {0,1,p-2,p-1,random,p,p+1,2^32-1}, hex strings (valid, upper-case, bad digit, short, long, leading '+'); non-trivial = a multiset of >= 2 items, a program of >= 1 op, any hex string; distinct by request text",
        &[],
    );
}
