//! C20 — writes keep completing: ingest and compaction never wait on each other forever.
//!
//! Three streams, all on the real store (hooks `lsmtk::verif::{emit, take_events, park/unpark/
//! notify registry}`, `verif_parked`, `verif_shutdown`):
//!
//!  * `sel` (pure-function differential): histories run single-stepped (flush and compaction loops
//!    stepped through `set_single_step`); after every operation the real
//!    `should_stall_ingest()` / `next_compaction().is_some()` (`verif_status`, nothing in flight)
//!    are compared with the Lean selector model on the dumped tree, and the tree summary
//!    (|L0|, bytes, level-1 files under the hull, …), `sel` and the D-15 trigger computed here are
//!    compared with the model's.  Oracle: no state with `stall ∧ ¬selectable`.
//!  * `run` (trace validation): the real store with a flush thread, 1…K compaction threads and
//!    several writers (or several direct `LsmTree::ingest` callers) over an options grid; the
//!    event log (every event emitted under the mutex of the wait / notification it describes) is
//!    abstracted to the alphabet of `Blue.Stall` and replayed by the Lean driver.  The end of a run
//!    is decided exactly: writers done and every store thread listed as asleep with no
//!    notification issued for it (read under the `state` and `compaction` mutexes).  Oracle on the
//!    implementation's own observations: every call returns; a parked ingest is released by a
//!    compaction that shrinks level 0; while ingest is parked some compaction thread is awake;
//!    an installing ingest wakes every sleeping compaction thread, a finishing compaction every
//!    sleeping ingest; no store thread exits.
//!  * `fail`: one compaction fails once (sst/ out of reach while a compaction thread selects and
//!    starts it, at five depths), its thread returns the error, a fresh thread takes over and the
//!    store is driven to the stall threshold: the failed compaction must be off the `ongoing` list
//!    (every later `sched.select` that found nothing reports the list's length, `verif_status` at
//!    the end), every call returns.
//!  * `wl` (the wait list of `KeyValueStore::write`; /repo commit f09c928): the
//!    kvs real-thread grid with writers whose writes FAIL in 10..50% of their calls (the empty batch,
//!    a batch whose last key / value is over-long: refused by the log after the write has taken its
//!    place in the wait list), and a directed schedule in which one slow write is parked right after
//!    it linked while another client submits 65 536 + 8 empty batches (`sync42::MAX_CONCURRENCY`
//!    slots).  Oracle: every call returns (`client-call-never-returned` otherwise, decided from the
//!    event log: the head of the wait list sleeps and the ticket before it was a failed write that
//!    woke nobody; or `link` waits for a slot while it holds the store mutex).  The wait-list
//!    events of every such run are replayed through `Blue.KvsWake` (`stall wake`).
//!  * directed D-15 replays: trees in which the only relieving compaction exceeds
//!    `max_compaction_files` (found single-stepped, or grown by the threads themselves when no
//!    merge fits the limit), then real threads: everybody parks, decided by the accessor.
use crate::common::*;
use std::collections::{BTreeMap, BTreeSet, HashMap};
use std::panic::AssertUnwindSafe;
use std::sync::atomic::{AtomicU64, Ordering};
use std::sync::{mpsc, Arc};
use std::time::{Duration, Instant};

use lsmtk::{KeyValueStore, LsmTree, LsmtkOptions};
use sst::Builder;

pub const D15: &str = "l0-hull-compaction-exceeds-file-limit";
pub const SCRATCH: &str = "compaction-scratch-directory-reused-while-being-removed";
pub const TRASHED: &str = "live-sst-moved-to-trash-after-identical-recreation";
pub const D15B: &str = "stalled-below-mandatory-threshold-with-negative-score";

const DEF_STALL_BYTES: u64 = 1 << 28;
const DEF_MAND_BYTES: u64 = 1 << 26;
const DEF_MCB: u64 = 1 << 29;
const DEF_MOF: u64 = 1 << 19;
const DEF_CACHE: u64 = 1 << 26;

// ================================================================================ options ======

#[derive(Clone, Debug)]
pub struct Cfg {
    pub stall_files: u64,
    pub stall_bytes: u64,
    pub mand_files: u64,
    pub mand_bytes: u64,
    pub mcf: u64,
    pub mcb: u64,
    pub mof: u64,
    pub memtable: u64,
    pub target_file: u64,
    pub cache: u64,
}

impl Cfg {
    pub fn base() -> Cfg {
        Cfg { stall_files: 12, stall_bytes: DEF_STALL_BYTES, mand_files: 4, mand_bytes: DEF_MAND_BYTES, mcf: 64, mcb: DEF_MCB, mof: DEF_MOF, memtable: 256, target_file: 1 << 22, cache: DEF_CACHE }
    }
    pub fn render(&self) -> String {
        format!(
            "stall={}f/{}b mand={}f/{}b mcf={} mcb={} mof={} mem={} tf={} cache={}",
            self.stall_files, self.stall_bytes, self.mand_files, self.mand_bytes, self.mcf, self.mcb, self.mof, self.memtable, self.target_file, self.cache
        )
    }
    /// `<mof> <mcb> <mcf> <mandF> <mandB> <stallF> <stallB>` as the driver's `sel` verb takes them
    pub fn opts_line(&self) -> String {
        format!("{} {} {} {} {} {} {}", self.mof, self.mcb, self.mcf, self.mand_files, self.mand_bytes, self.stall_files, self.stall_bytes)
    }
    pub fn options(&self, path: &str) -> LsmtkOptions {
        use arrrg::CommandLine;
        let args: Vec<String> = vec![
            "--path".into(),
            path.into(),
            "--memtable-size-bytes".into(),
            self.memtable.to_string(),
            "--sst-target-file-size".into(),
            self.target_file.to_string(),
            "--sst-minimum-file-size".into(),
            "64".into(),
            "--sst-target-block-size".into(),
            "256".into(),
            "--l0-mandatory-compaction-threshold-files".into(),
            self.mand_files.to_string(),
            "--l0-mandatory-compaction-threshold-bytes".into(),
            self.mand_bytes.to_string(),
            "--l0-write-stall-threshold-files".into(),
            self.stall_files.to_string(),
            "--l0-write-stall-threshold-bytes".into(),
            self.stall_bytes.to_string(),
            "--max-compaction-files".into(),
            self.mcf.to_string(),
            "--max-compaction-bytes".into(),
            self.mcb.to_string(),
            "--max-open-files".into(),
            self.mof.to_string(),
            "--sst-cache-bytes".into(),
            self.cache.to_string(),
        ];
        let refs: Vec<&str> = args.iter().map(|s| s.as_str()).collect();
        let (opts, free) = LsmtkOptions::from_arguments_relaxed("blueharness", &refs);
        assert!(free.is_empty(), "free args: {:?}", free);
        opts
    }
}

fn err_class(e: &lsmtk::SError) -> String {
    let s = format!("{:?}", e);
    let mut out = String::new();
    for c in s.chars().take(700) {
        out.push(if c.is_whitespace() { '_' } else { c });
    }
    out
}

// =========================================================================== tree summary ======

#[derive(Clone, Debug, Default, PartialEq)]
pub struct Summary {
    pub l0: u64,
    pub l0b: u64,
    pub l1h: u64,
    pub l1hb: u64,
    pub full: bool,
}

/// the level-1 files under the hull of level 0: grow the window by every level-1 file it meets
/// until nothing changes (stated independently of `compute_bounds`' partition points)
pub fn summarize(levels: &[Vec<sst::SstMetadata>]) -> Summary {
    let l0 = &levels[0];
    let mut s = Summary { l0: l0.len() as u64, l0b: l0.iter().map(|f| f.file_size).fold(0, u64::saturating_add), l1h: 0, l1hb: 0, full: levels.iter().all(|l| !l.is_empty()) };
    if l0.is_empty() || levels.len() < 2 {
        return s;
    }
    let mut first: Vec<u8> = l0.iter().map(|f| f.first_key.clone()).min().unwrap();
    let mut last: Vec<u8> = l0.iter().map(|f| f.last_key.clone()).max().unwrap();
    loop {
        let under: Vec<&sst::SstMetadata> = levels[1].iter().filter(|f| f.first_key <= last && first <= f.last_key).collect();
        let mut changed = false;
        for f in &under {
            if f.first_key < first {
                first = f.first_key.clone();
                changed = true;
            }
            if f.last_key > last {
                last = f.last_key.clone();
                changed = true;
            }
        }
        if !changed {
            s.l1h = under.len() as u64;
            s.l1hb = under.iter().map(|f| f.file_size).fold(0, u64::saturating_add);
            return s;
        }
    }
}

pub fn sel(c: &Cfg, m: &Summary) -> bool {
    m.l0 > 0 && m.l0 + m.l1h <= c.mcf && m.l0 + m.l1h < c.mof && (c.mand_files <= m.l0 || c.mand_bytes <= m.l0b || m.full || m.l1hb <= m.l0b)
}

/// the D-15 trigger on (options, tree): the level-0 hull compaction exceeds a file limit
pub fn over_limit(c: &Cfg, m: &Summary) -> bool {
    m.l0 + m.l1h > c.mcf || m.l0 + m.l1h >= c.mof
}

/// the class of a permanently stalled tree, as a predicate on (options, tree)
pub fn stall_class(c: &Cfg, m: &Summary) -> &'static str {
    if over_limit(c, m) {
        D15
    } else if !(c.mand_files <= m.l0 || c.mand_bytes <= m.l0b || m.full) && m.l1hb > m.l0b {
        D15B
    } else {
        "stalled-with-nothing-selectable"
    }
}

fn b01(b: bool) -> &'static str {
    if b {
        "1"
    } else {
        "0"
    }
}

fn render_tree(levels: &[Vec<sst::SstMetadata>]) -> String {
    let mut s = String::new();
    for (i, l) in levels.iter().enumerate() {
        for f in l {
            s.push_str(&format!(" L{}:{}:{}:{}:{}", i, hex(&f.first_key), hex(&f.last_key), f.file_size, f.biggest_timestamp));
        }
    }
    s
}

// ============================================================== stream 1: single-stepped =======

struct Step {
    root: String,
    cfg: Cfg,
    kvs: KeyValueStore,
    counter: u64,
}

impl Step {
    fn open(tag: &str, cfg: &Cfg) -> Result<Step, String> {
        let root = crate::store::scratch_dir(tag);
        let kvs = KeyValueStore::open(cfg.options(&root)).map_err(|e| err_class(&e))?;
        Ok(Step { root, cfg: cfg.clone(), kvs, counter: 0 })
    }
    fn status(&self) -> (bool, bool, usize) {
        self.kvs.verif_tree().verif_status()
    }
    fn write(&mut self, keys: &[Vec<u8>], vlen: usize) -> Result<(), String> {
        let mut wb = lsmtk::WriteBatch::with_capacity(keys.len());
        for k in keys {
            self.counter += 1;
            let mut v = format!("v{}", self.counter).into_bytes();
            while v.len() < vlen {
                v.push(b'.');
            }
            wb.put(k, &v);
        }
        self.kvs.write(wb).map_err(|e| format!("write-error:{}", err_class(&e)))
    }
    /// one pass of the flush loop; refuses (false) when the ingest would wait on `stall`
    fn flush(&mut self) -> Result<bool, String> {
        let (mem, _) = self.kvs.verif_dump_mem().map_err(|e| err_class(&e))?;
        if mem.is_empty() || self.status().0 {
            return Ok(false);
        }
        self.kvs.verif_request_flush();
        lsmtk::verif::set_single_step(Some(0));
        let r = self.kvs.memtable_thread();
        lsmtk::verif::set_single_step(None);
        r.map_err(|e| format!("flush-error:{}", err_class(&e)))?;
        Ok(true)
    }
    /// one selection + compaction of the compaction loop; the compaction chosen, if any
    fn compact(&mut self) -> Result<Option<lsmtk::verif::ChosenCompaction>, String> {
        lsmtk::verif::set_single_step(Some(1));
        let r = self.kvs.compaction_thread();
        lsmtk::verif::set_single_step(None);
        let chosen = lsmtk::verif::take_chosen();
        r.map_err(|e| format!("compaction-error:{}", err_class(&e)))?;
        Ok(chosen.into_iter().next())
    }
    fn close(self) {
        let root = self.root.clone();
        drop(self);
        let _ = std::fs::remove_dir_all(&root);
    }
}

fn alphabet(n: usize) -> Vec<Vec<u8>> {
    (0..n).map(|i| if i < 26 { vec![b'a' + i as u8] } else { vec![b'a' + (i / 26) as u8, b'a' + (i % 26) as u8] }).collect()
}

/// compare the real selector's answer with the model on the present tree
fn sel_case(rec: &mut Recorder, st: &Step, tag: &str) -> (bool, bool) {
    let tree = st.kvs.verif_tree();
    let (stall, selectable, ongoing) = tree.verif_status();
    let levels = tree.verif_dump();
    let m = summarize(&levels);
    let cfg = &st.cfg;
    let req = format!("stall sel {} {} ::{}", levels.len(), cfg.opts_line(), render_tree(&levels));
    let obs = format!("stall={} next={} l0={} l0b={} l1h={} l1hb={} full={} sel={} over={}", b01(stall), b01(selectable), m.l0, m.l0b, m.l1h, m.l1hb, b01(m.full), b01(sel(cfg, &m)), b01(over_limit(cfg, &m)));
    let verdict = if ongoing != 0 {
        Verdict::Fail { class: "single-step-with-compaction-in-flight".into(), detail: tag.to_string() }
    } else if stall && !selectable {
        Verdict::Fail { class: stall_class(cfg, &m).into(), detail: format!("{}: level 0 holds {} files / {} bytes (ingest waits), nothing in flight and next_compaction() is None; {} level-1 files / {} bytes under the hull; {}", tag, m.l0, m.l0b, m.l1h, m.l1hb, cfg.render()) }
    } else {
        Verdict::Ok
    };
    rec.count(&format!("sel.stall{}_next{}", b01(stall), b01(selectable)));
    if sel(cfg, &m) {
        rec.count("sel.sel_holds");
    }
    if stall {
        rec.count(if sel(cfg, &m) { "sel.stalled_and_sel" } else { "sel.stalled_and_not_sel" });
    }
    // non-trivial: level 0 non-empty and a level below it non-empty
    let nt = m.l0 > 0 && levels.iter().skip(1).any(|l| !l.is_empty());
    rec.case(&req, &obs, verdict, if nt { Some(fnv(req.as_bytes())) } else { None });
    (stall, selectable)
}

fn gen_cfg_sel(rng: &mut Rng, kind: u64) -> Cfg {
    let mut c = Cfg::base();
    c.memtable = *rng.pick(&[64, 200, 600]);
    c.target_file = *rng.pick(&[128, 256, 1024, 1 << 22]);
    c.stall_files = *rng.pick(&[2, 3, 4, 6, 12]);
    c.mand_files = *rng.pick(&[1, 2, 4, 8]);
    match kind {
        // limits comfortably above the thresholds
        0 => {
            c.mcf = *rng.pick(&[16, 32, 64]);
        }
        // file limit at or below the stall threshold, or just above it
        1 => {
            c.mcf = match rng.below(3) {
                0 => c.stall_files.saturating_sub(1).max(1),
                1 => c.stall_files,
                _ => c.stall_files + rng.range(1, 3),
            };
        }
        // byte thresholds and byte limit in play
        2 => {
            c.stall_bytes = *rng.pick(&[400, 900, 2000]);
            c.mand_bytes = *rng.pick(&[200, 500, 5000]);
            c.mcb = *rng.pick(&[300, 1200, DEF_MCB]);
            c.mcf = *rng.pick(&[8, 64]);
        }
        // open-file limit in play (cache off so that handles are closed again)
        _ => {
            c.cache = 0;
            c.mof = *rng.pick(&[6, 8, 12, 24]);
            c.mcf = *rng.pick(&[4, 8, 64]);
        }
    }
    c
}

fn run_sel_history(rec: &mut Recorder, seed: u64, h: u64, len: usize) {
    let mut rng = Rng::for_case(seed, 2001, h);
    let kind = h % 6;
    // kinds 4, 5: ingest has priority (a compaction step is taken only when ingest would wait),
    // the schedule under which level 0 stays at the stall threshold
    let priority = kind >= 4;
    let mut cfg = gen_cfg_sel(&mut rng, if priority { 1 } else { kind });
    if kind == 4 {
        cfg.target_file = 128;
    }
    if kind == 5 {
        // stall threshold below the mandatory threshold, limits out of the way
        cfg.stall_files = *rng.pick(&[1u64, 2, 3]);
        cfg.mand_files = cfg.stall_files + rng.range(1, 6);
        cfg.mcf = 64;
    }
    let nkeys = *rng.pick(&[3usize, 6, 12, 30]);
    let keys = alphabet(nkeys);
    let wide = priority || rng.chance(1, 2); // every write touches the smallest and the largest key
    let p_compact = *rng.pick(&[10u64, 25, 45]);
    let len = if priority { len * 10 } else { len };
    rec.aux(&format!("sel-history {} kind {} {} nkeys {} wide {} pc {}", h, kind, cfg.render(), nkeys, wide, p_compact));
    rec.count(&format!("sel.kind{}", kind));
    let mut st = match Step::open(&format!("c20s.{}", h), &cfg) {
        Ok(s) => s,
        Err(e) => {
            rec.case(&format!("# sel-history {} open", h), "#", Verdict::Fail { class: "open-error".into(), detail: e }, None);
            return;
        }
    };
    let mut ops: Vec<String> = vec![];
    for step in 0..len {
        let tag = format!("sel-history {} step {}", h, step);
        let r = rng.below(100);
        let res: Result<(), String> = guarded(AssertUnwindSafe(|| {
            let compact_now = if priority { st.status().0 } else { r < p_compact };
            if compact_now {
                for _ in 0..(if priority { 1 } else { rng.range(1, 4) }) {
                    ops.push("c".into());
                    if st.compact()?.is_none() {
                        break;
                    }
                }
                Ok(())
            } else {
                let n = rng.range(1, 4) as usize;
                let mut ks: Vec<Vec<u8>> = (0..n).map(|_| rng.pick(&keys).clone()).collect();
                if wide {
                    ks.push(keys[0].clone());
                    ks.push(keys[nkeys - 1].clone());
                }
                ks.sort();
                ks.dedup();
                let vlen = rng.range(2, 40) as usize;
                ops.push(format!("w{}:{}", ks.iter().map(|k| String::from_utf8_lossy(k).to_string()).collect::<Vec<_>>().join(""), vlen));
                st.write(&ks, vlen)?;
                if priority || rng.chance(2, 3) {
                    ops.push("f".into());
                    st.flush()?;
                }
                Ok(())
            }
        }))
        .unwrap_or_else(|p| Err(format!("panic:{}", p)));
        if let Err(e) = res {
            // the open-file limit is allowed to refuse work (TooManyOpenFiles); anything else is not
            let refused = e.contains("TooManyOpenFiles") || e.contains("too_many_open_files") || e.contains("too many open files");
            if refused {
                rec.count("sel.history_ended_by_open_file_limit");
            } else {
                rec.case(&format!("# {}", tag), "#", Verdict::Fail { class: "fault-free-op-error".into(), detail: format!("{} {} -> {}", tag, cfg.render(), e) }, None);
            }
            break;
        }
        let (stall, selectable) = sel_case(rec, &st, &tag);
        if stall && !selectable {
            rec.count("sel.history_ended_in_permanent_stall");
            rec.aux(&format!("sel-history {} stalled after ops {}", h, ops.join(" ")));
            break;
        }
    }
    st.close();
}

// ==================================================================== real-thread runs =========

#[derive(Clone, Copy, Debug, PartialEq, Eq, Hash, PartialOrd, Ord)]
enum Role {
    Compactor(usize),
    Ingester(usize),
    Writer(usize),
}

enum Msg {
    Hello(Role, u64),
    Exit(Role, u64, Result<(), String>),
}

type Event = (u64, u64, &'static str, [u64; 3]);

#[derive(Clone, Debug)]
struct Workload {
    compactors: usize,
    /// KVS mode: writers on `KeyValueStore` + the flush thread (ingester 0); tree mode: that many
    /// threads calling `LsmTree::ingest` directly
    kvs_mode: bool,
    clients: usize,
    ops: usize,
    nkeys: usize,
    wide: bool,
    vlen: (u64, u64),
    pause: u64,
    /// KVS mode: writers go on (up to `ops` calls each) until the monitor has seen the flush
    /// thread asleep on `stall` with every compaction thread asleep and no wake-up on its way
    until_stall: bool,
    /// before anything else runs: every file of sst/ is put out of reach (the directory is
    /// renamed), a compaction thread is started as compactor 0, the compaction it selects fails on
    /// its first input and the thread returns the error; the directory is put back and a fresh
    /// thread takes over as compactor 0 (the premise: a compaction thread is running)
    fail_first: bool,
    /// KVS mode: percentage of the writers' calls that are writes the store must refuse (after it
    /// has linked them into the wait list)
    fail_pct: u64,
}

/// the compaction that was made to fail: levels, number of inputs, how the thread ended
#[derive(Clone, Debug)]
struct Injected {
    lower: usize,
    upper: usize,
    inputs: usize,
    thread: u64,
    result: Result<(), String>,
}

struct RunOut {
    events: Vec<Event>,
    roles: HashMap<u64, Role>,
    /// at the end: (role, condvar) of every sleeping store thread (none of them notified)
    end_parked: Vec<(Role, &'static str)>,
    end_status: (bool, bool, usize),
    end_levels: Vec<Vec<sst::SstMetadata>>,
    /// level 0 when the threads start: files, bytes
    start_l0: (u64, u64),
    exits: Vec<(Role, Result<(), String>)>,
    clients_done: usize,
    client_errors: Vec<String>,
    problem: Option<String>,
    polls: u64,
    injected: Option<Injected>,
    /// the events of the wait list of `KeyValueStore::write` (links, sleeps, exits)
    wl_events: Vec<Event>,
    failed_writes: u64,
}

enum Store {
    Kvs(Arc<KeyValueStore>),
    Tree(Arc<LsmTree>),
}

impl Store {
    fn tree(&self) -> &LsmTree {
        match self {
            Store::Kvs(k) => k.verif_tree(),
            Store::Tree(t) => t,
        }
    }
    fn parked(&self) -> (Vec<lsmtk::verif::Parked>, (bool, bool, usize)) {
        match self {
            Store::Kvs(k) => {
                let (p, s, _) = k.verif_parked();
                (p, s)
            }
            Store::Tree(t) => t.verif_parked(),
        }
    }
    fn shutdown(&self) {
        match self {
            Store::Kvs(k) => k.verif_shutdown(),
            Store::Tree(t) => t.verif_shutdown(),
        }
    }
}

static FILE_TS: AtomicU64 = AtomicU64::new(1);

fn build_sst(dir: &str, name: &str, keys: &[Vec<u8>], vlen: usize) -> Result<String, String> {
    let path = format!("{}/{}.sst", dir, name);
    let ts = FILE_TS.fetch_add(1, Ordering::SeqCst);
    let mut b = sst::SstBuilder::new(sst::SstOptions::default(), &path).map_err(|e| format!("{:?}", e))?;
    for k in keys {
        let mut v = format!("{}@{}", name, ts).into_bytes();
        while v.len() < vlen {
            v.push(b'.');
        }
        b.put(k, ts, &v).map_err(|e| format!("{:?}", e))?;
    }
    b.seal().map_err(|e| format!("{:?}", e))?;
    Ok(path)
}

/// run the store with real threads until writers are done and every store thread sleeps with no
/// wake-up on its way; `prepare` runs single-threaded on the opened store first
fn run_threads(seed: u64, case: u64, tag: &str, cfg: &Cfg, w: &Workload, prepare: &dyn Fn(&Store, &str) -> Result<(), String>) -> Result<RunOut, String> {
    let root = crate::store::scratch_dir(tag);
    let aux_dir = format!("{}.files", root);
    let _ = std::fs::remove_dir_all(&aux_dir);
    std::fs::create_dir_all(&aux_dir).map_err(|e| e.to_string())?;
    let store = if w.kvs_mode {
        Store::Kvs(Arc::new(KeyValueStore::open(cfg.options(&root)).map_err(|e| format!("open-error:{}", err_class(&e)))?))
    } else {
        Store::Tree(Arc::new(LsmTree::open(cfg.options(&root)).map_err(|e| format!("open-error:{}", err_class(&e)))?))
    };
    prepare(&store, &aux_dir)?;
    let store_id = store.tree().verif_id();
    let start = summarize(&store.tree().verif_dump());
    lsmtk::verif::forget(store_id);
    let _ = lsmtk::verif::take_events();
    lsmtk::verif::events_enable(true);
    let (tx, rx) = mpsc::channel::<Msg>();
    let stop = Arc::new(std::sync::atomic::AtomicBool::new(false));
    let mut handles = vec![];
    let keys = alphabet(w.nkeys);
    let progress = Arc::new(AtomicU64::new(0));
    let failed = Arc::new(AtomicU64::new(0));
    // one compaction that fails
    let mut injected: Option<Injected> = None;
    if w.fail_first {
        let sst_dir = format!("{}/sst", root);
        let aside = format!("{}/sst.aside", root);
        std::fs::rename(&sst_dir, &aside).map_err(|e| format!("rename sst/: {}", e))?;
        let (itx, irx) = mpsc::channel();
        let run_thread: Box<dyn FnOnce() -> Result<(), String> + Send> = match &store {
            Store::Kvs(k) => {
                let k = Arc::clone(k);
                Box::new(move || k.compaction_thread().map_err(|e| err_class(&e)))
            }
            Store::Tree(t) => {
                let t = Arc::clone(t);
                Box::new(move || t.compaction_thread().map_err(|e| err_class(&e)))
            }
        };
        handles.push(std::thread::spawn(move || {
            let tid = lsmtk::verif::thread_id();
            let r = guarded(AssertUnwindSafe(run_thread)).unwrap_or_else(|p| Err(format!("panic:{}", p)));
            let _ = itx.send((tid, r, lsmtk::verif::take_chosen()));
        }));
        let got = irx.recv_timeout(Duration::from_secs(30));
        let back = std::fs::rename(&aside, &sst_dir);
        match got {
            Ok((tid, r, chosen)) => {
                back.map_err(|e| format!("rename sst/ back: {}", e))?;
                let last = chosen.last();
                injected = Some(Injected { lower: last.map(|c| c.lower_level).unwrap_or(99), upper: last.map(|c| c.upper_level).unwrap_or(99), inputs: last.map(|c| c.inputs.len()).unwrap_or(0), thread: tid, result: r });
            }
            Err(_) => {
                // nothing was selectable or the compaction did not fail: the thread sleeps on
                store.shutdown();
                lsmtk::verif::events_enable(false);
                return Err("the compaction thread started on an unreachable sst/ did not return within 30 s".into());
            }
        }
    }
    // store threads
    for c in 0..w.compactors {
        let tx = tx.clone();
        let role = Role::Compactor(c);
        match &store {
            Store::Kvs(k) => {
                let k = Arc::clone(k);
                handles.push(std::thread::spawn(move || {
                    let _ = tx.send(Msg::Hello(role, lsmtk::verif::thread_id()));
                    let r = guarded(AssertUnwindSafe(|| k.compaction_thread().map_err(|e| err_class(&e)))).unwrap_or_else(|p| Err(format!("panic:{}", p)));
                    let _ = tx.send(Msg::Exit(role, lsmtk::verif::thread_id(), r));
                }));
            }
            Store::Tree(t) => {
                let t = Arc::clone(t);
                handles.push(std::thread::spawn(move || {
                    let _ = tx.send(Msg::Hello(role, lsmtk::verif::thread_id()));
                    let r = guarded(AssertUnwindSafe(|| t.compaction_thread().map_err(|e| err_class(&e)))).unwrap_or_else(|p| Err(format!("panic:{}", p)));
                    let _ = tx.send(Msg::Exit(role, lsmtk::verif::thread_id(), r));
                }));
            }
        }
    }
    if let Store::Kvs(k) = &store {
        let k = Arc::clone(k);
        let tx = tx.clone();
        let role = Role::Ingester(0);
        handles.push(std::thread::spawn(move || {
            let _ = tx.send(Msg::Hello(role, lsmtk::verif::thread_id()));
            let r = guarded(AssertUnwindSafe(|| k.memtable_thread().map_err(|e| err_class(&e)))).unwrap_or_else(|p| Err(format!("panic:{}", p)));
            let _ = tx.send(Msg::Exit(role, lsmtk::verif::thread_id(), r));
        }));
    }
    // clients
    for c in 0..w.clients {
        let tx = tx.clone();
        let mut rng = Rng::for_case(seed, 3000 + c as u64, case);
        let keys = keys.clone();
        let w = w.clone();
        let aux_dir = aux_dir.clone();
        match &store {
            Store::Kvs(k) => {
                let k = Arc::clone(k);
                let role = Role::Writer(c);
                let stop = Arc::clone(&stop);
                let progress = Arc::clone(&progress);
                let failed = Arc::clone(&failed);
                handles.push(std::thread::spawn(move || {
                    let _ = tx.send(Msg::Hello(role, lsmtk::verif::thread_id()));
                    let mut res = Ok(());
                    for j in 0..w.ops {
                        if stop.load(Ordering::SeqCst) {
                            break;
                        }
                        match if w.pause == 0 { 0 } else { rng.below(w.pause) } {
                            0 => {}
                            1 => std::thread::yield_now(),
                            _ => std::thread::sleep(Duration::from_micros(rng.below(150))),
                        }
                        let vlen = rng.range(w.vlen.0, w.vlen.1) as usize;
                        let val: Vec<u8> = format!("c{}o{}", c, j).into_bytes().into_iter().chain(std::iter::repeat(b'.')).take(vlen.max(4)).collect();
                        if w.fail_pct > 0 && rng.below(100) < w.fail_pct {
                            // a write the store must refuse: it returns the error, and returns
                            let kind = *rng.pick(&[0u8, 0, 1, 2]);
                            let want = ["empty-batch", "key-too-large", "value-too-large"][kind as usize];
                            let r = guarded(AssertUnwindSafe(|| {
                                let mut wb = lsmtk::WriteBatch::with_capacity(3);
                                if kind > 0 {
                                    wb.put(&keys[0], &val);
                                    if rng.chance(1, 2) {
                                        wb.del(&keys[keys.len() - 1]);
                                    }
                                }
                                match kind {
                                    0 => {}
                                    1 => wb.put(&vec![b'k'; sst::MAX_KEY_LEN + 1], b"x"),
                                    _ => wb.put(b"\xff\xffover-long-value", &vec![b'.'; sst::MAX_VALUE_LEN + 1]),
                                }
                                k.write(wb).map_err(|e| err_class(&e))
                            }))
                            .unwrap_or_else(|p| Err(format!("panic:{}", p)));
                            progress.fetch_add(1, Ordering::SeqCst);
                            failed.fetch_add(1, Ordering::SeqCst);
                            match r {
                                Err(e) if e.contains(&format!("Atom(\"{}\")", want)) => continue,
                                Err(e) => res = Err(format!("op {}: the failing write returned {} instead of {}", j, e, want)),
                                Ok(()) => res = Err(format!("op {}: the failing write ({}) succeeded", j, want)),
                            }
                            break;
                        }
                        let r = guarded(AssertUnwindSafe(|| {
                            if w.wide {
                                let mut wb = lsmtk::WriteBatch::with_capacity(3);
                                wb.put(&keys[0], &val);
                                wb.put(&keys[keys.len() - 1], &val);
                                if rng.chance(1, 2) && keys.len() > 2 {
                                    // a middle key: a batch naming one key twice is D-16
                                    let kk: &Vec<u8> = rng.pick(&keys[1..keys.len() - 1]);
                                    wb.del(kk);
                                }
                                k.write(wb)
                            } else {
                                match rng.below(10) {
                                    0..=5 => {
                                        let kk: &Vec<u8> = rng.pick(&keys[..]);
                                        k.put(kk, &val)
                                    }
                                    6..=7 => {
                                        let kk: &Vec<u8> = rng.pick(&keys[..]);
                                        k.del(kk)
                                    }
                                    _ => {
                                        let mut ks = keys.clone();
                                        rng.shuffle(&mut ks);
                                        let mut wb = lsmtk::WriteBatch::with_capacity(3);
                                        for (n, kk) in ks.iter().take(rng.range(2, 3) as usize).enumerate() {
                                            if n == 0 {
                                                wb.del(kk)
                                            } else {
                                                wb.put(kk, &val)
                                            }
                                        }
                                        k.write(wb)
                                    }
                                }
                            }
                            .map_err(|e| err_class(&e))
                        }))
                        .unwrap_or_else(|p| Err(format!("panic:{}", p)));
                        progress.fetch_add(1, Ordering::SeqCst);
                        if let Err(e) = r {
                            res = Err(format!("op {}: {}", j, e));
                            break;
                        }
                    }
                    let _ = tx.send(Msg::Exit(role, lsmtk::verif::thread_id(), res));
                }));
            }
            Store::Tree(t) => {
                let t = Arc::clone(t);
                let role = Role::Ingester(c);
                let progress = Arc::clone(&progress);
                handles.push(std::thread::spawn(move || {
                    let _ = tx.send(Msg::Hello(role, lsmtk::verif::thread_id()));
                    let mut res = Ok(());
                    for j in 0..w.ops {
                        match if w.pause == 0 { 0 } else { rng.below(w.pause) } {
                            0 => {}
                            1 => std::thread::yield_now(),
                            _ => std::thread::sleep(Duration::from_micros(rng.below(150))),
                        }
                        let mut ks: Vec<Vec<u8>> = (0..rng.range(1, 3)).map(|_| rng.pick(&keys).clone()).collect();
                        if w.wide {
                            ks.push(keys[0].clone());
                            ks.push(keys[keys.len() - 1].clone());
                        }
                        ks.sort();
                        ks.dedup();
                        let vlen = rng.range(w.vlen.0, w.vlen.1) as usize;
                        let r = build_sst(&aux_dir, &format!("i{}f{}", c, j), &ks, vlen).and_then(|p| guarded(AssertUnwindSafe(|| t.ingest(&p).map_err(|e| err_class(&e)))).unwrap_or_else(|p| Err(format!("panic:{}", p))));
                        progress.fetch_add(1, Ordering::SeqCst);
                        if let Err(e) = r {
                            res = Err(format!("ingest {}: {}", j, e));
                            break;
                        }
                    }
                    let _ = tx.send(Msg::Exit(role, lsmtk::verif::thread_id(), res));
                }));
            }
        }
    }
    drop(tx);
    // monitor
    let n_store_threads = w.compactors + if w.kvs_mode { 1 } else { 0 };
    let mut roles: HashMap<u64, Role> = HashMap::new();
    let mut exited_tids: BTreeSet<u64> = BTreeSet::new();
    let n_expected = n_store_threads + w.clients + if injected.is_some() { 1 } else { 0 };
    if let Some(inj) = &injected {
        // the thread whose compaction failed was compactor 0; the fresh thread continues as such
        roles.insert(inj.thread, Role::Compactor(0));
        exited_tids.insert(inj.thread);
    }
    let mut events: Vec<Event> = vec![];
    let mut wl_events: Vec<Event> = vec![];
    let mut last_progress = Instant::now();
    let mut last_count = 0u64;
    const PATIENCE_S: u64 = 12;
    let mut exits: Vec<(Role, Result<(), String>)> = vec![];
    let mut clients_done = 0usize;
    let mut client_errors = vec![];
    let mut problem = None;
    let mut polls = 0u64;
    let deadline = Instant::now() + Duration::from_secs(90);
    let mut end_parked = vec![];
    let mut end_status = (false, false, 0);
    let is_client = |r: &Role| matches!(r, Role::Writer(_)) || (!w.kvs_mode && matches!(r, Role::Ingester(_)));
    loop {
        loop {
            match rx.try_recv() {
                Ok(Msg::Hello(role, tid)) => {
                    roles.insert(tid, role);
                    last_progress = Instant::now();
                }
                Ok(Msg::Exit(role, tid, r)) => {
                    exited_tids.insert(tid);
                    last_progress = Instant::now();
                    if is_client(&role) {
                        clients_done += 1;
                        if let Err(e) = &r {
                            client_errors.push(format!("{:?}: {}", role, e));
                        }
                    }
                    exits.push((role, r));
                }
                Err(_) => break,
            }
        }
        {
            // the log is drained as the run goes: new events or finished calls are progress
            // (only the scheduler's events: the monitor's own `verif_parked` takes snapshots, which
            // are events of other hooks)
            let all = lsmtk::verif::take_events();
            wl_events.extend(all.iter().filter(|e| is_wl_event(e.2)).cloned());
            let mut ev: Vec<Event> = all.into_iter().filter(|e| e.2.starts_with("sched.")).collect();
            let count = progress.load(Ordering::SeqCst);
            if !ev.is_empty() || count != last_count {
                last_progress = Instant::now();
                last_count = count;
            }
            events.append(&mut ev);
        }
        let mut notified_sleepers = vec![];
        if roles.len() == n_expected {
            // threads that can still act: store threads that have not exited, clients not done
            let (parked, status) = store.parked();
            polls += 1;
            let mut all_asleep = true;
            let mut asleep = vec![];
            for (tid, role) in roles.iter() {
                if exited_tids.contains(tid) {
                    continue;
                }
                if let Some(p) = parked.iter().find(|p| p.thread == *tid && p.notified) {
                    notified_sleepers.push((*role, p.condvar));
                }
                match parked.iter().find(|p| p.thread == *tid) {
                    Some(p) if !p.notified => asleep.push((*role, p.condvar)),
                    _ => {
                        all_asleep = false;
                        break;
                    }
                }
            }
            if w.until_stall && !stop.load(Ordering::SeqCst) {
                // every store thread asleep, the flush thread on `stall`, nothing on its way: only
                // the writers still act, and nothing they do wakes anybody
                let store_asleep = roles.iter().filter(|(_, r)| !is_client(r)).all(|(tid, _)| parked.iter().any(|p| p.thread == *tid && !p.notified));
                let flush_stalled = roles.iter().any(|(tid, r)| *r == Role::Ingester(0) && parked.iter().any(|p| p.thread == *tid && p.condvar == "stall"));
                if store_asleep && flush_stalled {
                    stop.store(true, Ordering::SeqCst);
                }
            }
            if all_asleep {
                // nobody can act any more: exact end of the run (clients still listed are asleep
                // on `stall`)
                end_parked = asleep;
                end_status = status;
                break;
            }
        }
        // the head of the wait list asleep (it went into `naked_wait` behind a ticket that has left
        // since) is woken by nobody: that is decided from the log, not by waiting
        let wl = if w.kvs_mode && last_progress.elapsed() > Duration::from_secs(4) { wait_list_state(&wl_events) } else { WlState::default() };
        if let Some(asleep_at) = wl.head_asleep_at {
            let (parked, status) = store.parked();
            // (with every client back it is the flush thread that sleeps there: the next write queues behind it)
            problem = Some(format!("{}: no event and no call returned for {} s; the head of the wait list of KeyValueStore::write, {}, sleeps in naked_wait and nobody is going to wake it: the ticket before it, {}, left the list without notify_head (wait-list event {}); {} ticket(s) are linked, {} asleep; {} of {} clients done; store threads asleep on {:?}; should_stall_ingest={} selectable={} in flight={}", if clients_done < w.clients { "client-call-never-returned" } else { "wait-list-head-never-woken" }, last_progress.elapsed().as_secs(), wl.describe_head(), wl.last_leave, asleep_at, wl.queue.len(), wl.asleep.len(), clients_done, w.clients, parked.iter().map(|p| p.condvar).collect::<Vec<_>>(), status.0, status.1, status.2));
            break;
        }
        if last_progress.elapsed() > Duration::from_secs(PATIENCE_S) {
            // nothing has happened for a long time although the run has not ended: no event, no
            // call returned, no thread started or exited
            let (parked, status) = store.parked();
            let store_asleep = roles.iter().filter(|(tid, r)| !is_client(r) && !exited_tids.contains(*tid)).all(|(tid, _)| parked.iter().any(|p| p.thread == *tid));
            problem = Some(if !notified_sleepers.is_empty() {
                format!("notified-sleeper-did-not-wake: no event and no call returned for {} s; a notification was issued for {:?} and they still sleep; {} of {} clients done; should_stall_ingest={} selectable={} in flight={}", PATIENCE_S, notified_sleepers, clients_done, w.clients, status.0, status.1, status.2)
            } else if store_asleep && clients_done < w.clients {
                format!("client-call-never-returned: no event and no call returned for {} s; every store thread sleeps ({:?}), {} of {} clients done and the others sleep on no condition variable of the store; should_stall_ingest={} selectable={} in flight={}", PATIENCE_S, parked.iter().map(|p| p.condvar).collect::<Vec<_>>(), clients_done, w.clients, status.0, status.1, status.2)
            } else {
                format!("no-progress: no event and no call returned for {} s; {} of {} clients done, sleepers {:?}", PATIENCE_S, clients_done, w.clients, parked.iter().map(|p| (p.thread, p.condvar, p.notified)).collect::<Vec<_>>())
            });
            break;
        }
        if Instant::now() > deadline {
            problem = Some(format!("no quiescence within 90 s: {} of {} clients done, {} store threads exited", clients_done, w.clients, exits.len() - clients_done));
            break;
        }
        std::thread::sleep(Duration::from_micros(300));
    }
    lsmtk::verif::events_enable(false);
    {
        let all = lsmtk::verif::take_events();
        wl_events.extend(all.iter().filter(|e| is_wl_event(e.2)).cloned());
        events.extend(all.into_iter().filter(|e| e.2.starts_with("sched.")));
    }
    let end_levels = store.tree().verif_dump();
    end_parked.sort();
    // a store thread that failed on a missing file: where is the file, and what does the manifest
    // say about it (diagnosis only)
    for (_, r) in exits.iter_mut() {
        if let Err(m) = r {
            if let Some(i) = m.find("/sst/") {
                let name: String = m[i + 5..].chars().take(64).collect();
                if name.len() == 64 && name.chars().all(|c| c.is_ascii_hexdigit()) && m.contains("NotFound") {
                    let in_sst = std::path::Path::new(&format!("{}/sst/{}.sst", root, name)).exists();
                    let in_trash = std::path::Path::new(&format!("{}/trash/{}.sst", root, name)).exists();
                    let live = end_levels.iter().enumerate().find_map(|(l, fs)| fs.iter().find(|f| hex(&f.setsum) == name).map(|_| l));
                    let mut hist = vec![];
                    let mut frags: Vec<std::path::PathBuf> = std::fs::read_dir(format!("{}/mani", root)).map(|rd| rd.flatten().map(|e| e.path()).collect()).unwrap_or_default();
                    frags.sort();
                    for f in frags {
                        if let Ok(it) = mani::ManifestIterator::open(&f) {
                            for (n, ed) in it.enumerate() {
                                if let Ok(ed) = ed {
                                    let a = ed.added().any(|x| *x == name);
                                    let rm = ed.rmed().any(|x| *x == name);
                                    if a || rm {
                                        hist.push(format!("{}#{}:{}{}", f.file_name().map(|x| x.to_string_lossy().to_string()).unwrap_or_default(), n, if rm { "-" } else { "" }, if a { "+" } else { "" }));
                                    }
                                }
                            }
                        }
                    }
                    m.push_str(&format!(" [diagnosis: file {} in sst/={} in trash/={} level in the final version={:?} manifest edits naming it: {}]", &name[..8], in_sst, in_trash, live, hist.join(" ")));
                }
            }
        }
    }
    // tear down: make the loops return where they would sleep
    store.shutdown();
    let t0 = Instant::now();
    let mut alive = handles.len() - exited_tids.len();
    // a run that was cut off may hold threads that nothing wakes (they are left behind)
    let grace = if problem.is_some() { 3 } else { 30 };
    while alive > 0 && t0.elapsed() < Duration::from_secs(grace) {
        match rx.recv_timeout(Duration::from_millis(200)) {
            Ok(Msg::Exit(..)) => alive -= 1,
            Ok(_) => {}
            Err(mpsc::RecvTimeoutError::Disconnected) => break,
            Err(_) => {}
        }
    }
    if alive == 0 {
        for h in handles {
            let _ = h.join();
        }
    } else if problem.is_none() {
        problem = Some(format!("{} threads did not return after verif_shutdown", alive));
    }
    lsmtk::verif::forget(store_id);
    let _ = lsmtk::verif::take_events();
    drop(store);
    let _ = std::fs::remove_dir_all(&root);
    let _ = std::fs::remove_dir_all(&aux_dir);
    let failed_writes = failed.load(Ordering::SeqCst);
    Ok(RunOut { events, roles, end_parked, end_status, end_levels, start_l0: (start.l0, start.l0b), exits, clients_done, client_errors, problem, polls, injected, wl_events, failed_writes })
}

// ------------------------------------------------------- the wait list of KeyValueStore::write -----

fn is_wl_event(tag: &str) -> bool {
    matches!(tag, "kvs.write.begin.locked" | "kvs.write.wait.locked" | "kvs.write.finish.locked" | "kvs.write.abandon" | "kvs.write.abandon.locked" | "kvs.flush.rotate.locked" | "kvs.flush.wait.locked" | "kvs.flush.head.locked")
}

/// a ticket: a write (its sequence number) or the flush thread (the memtable it has just created)
type Tk = (bool, u64);

/// the wait list as its events show it, kept with no model involved: tickets in link order; who
/// went to sleep (`naked_wait`) and has not been notified since (an exit under the store mutex
/// calls `notify_head`, which wakes the new head; the early return of a failed write does not);
/// the tokens of `Blue.KvsWake` for the Lean driver
#[derive(Default)]
struct WlState {
    queue: Vec<Tk>,
    asleep: Vec<Tk>,
    ids: HashMap<Tk, usize>,
    toks: Vec<String>,
    /// the first event after which the head of the list was asleep
    head_asleep_at: Option<usize>,
    last_leave: String,
    links: u64,
    sleeps: u64,
    left_in_turn: u64,
    dropped: u64,
    dropped_as_head_with_successor_asleep: u64,
    unmapped: Vec<String>,
}

impl WlState {
    fn name(t: &Tk) -> String {
        if t.0 { format!("the flush thread (memtable {})", t.1) } else { format!("write {}", t.1) }
    }
    fn describe_head(&self) -> String {
        self.queue.first().map(Self::name).unwrap_or_else(|| "-".into())
    }
}

fn wait_list_state(events: &[Event]) -> WlState {
    let mut s = WlState::default();
    for (pos, (_, _, tag, a)) in events.iter().enumerate() {
        let tk: Tk = (tag.starts_with("kvs.flush."), a[0]);
        match *tag {
            "kvs.write.begin.locked" | "kvs.flush.rotate.locked" => {
                s.ids.insert(tk, s.ids.len());
                s.queue.push(tk);
                s.toks.push("K".into());
                s.links += 1;
            }
            "kvs.write.wait.locked" | "kvs.flush.wait.locked" => match s.ids.get(&tk) {
                Some(id) => {
                    if s.asleep.contains(&tk) {
                        // it sleeps already and checks again: a spurious wake-up
                        s.toks.push(format!("S{}", id));
                    } else {
                        s.asleep.push(tk);
                        s.sleeps += 1;
                    }
                    s.toks.push(format!("A{}", id));
                }
                None => s.unmapped.push(format!("{} of a ticket that never linked (event {})", tag, pos)),
            },
            "kvs.write.finish.locked" | "kvs.flush.head.locked" | "kvs.write.abandon.locked" | "kvs.write.abandon" => match s.ids.get(&tk) {
                Some(id) => {
                    let in_turn = *tag != "kvs.write.abandon";
                    if in_turn {
                        // (a ticket that slept and leaves now was woken: by the notification of the
                        // ticket that left before it, or unprompted)
                        if s.asleep.contains(&tk) {
                            s.toks.push(format!("S{}", id));
                        }
                        s.toks.push(format!("A{}", id));
                        s.left_in_turn += 1;
                    } else {
                        s.toks.push(format!("D{}", id));
                        s.dropped += 1;
                        if s.queue.first() == Some(&tk) && s.queue.iter().skip(1).any(|t| s.asleep.contains(t)) {
                            s.dropped_as_head_with_successor_asleep += 1;
                        }
                    }
                    s.queue.retain(|t| *t != tk);
                    s.asleep.retain(|t| *t != tk);
                    s.last_leave = format!("{}{}", WlState::name(&tk), if in_turn { "" } else { ", a write that failed" });
                    if in_turn {
                        // `notify_head`: the new head, if it sleeps, wakes
                        if let Some(h) = s.queue.first().copied() {
                            s.asleep.retain(|t| *t != h);
                        }
                    }
                }
                None => s.unmapped.push(format!("{} of a ticket that never linked (event {})", tag, pos)),
            },
            _ => {}
        }
        if s.head_asleep_at.is_none() && s.queue.first().map(|h| s.asleep.contains(h)).unwrap_or(false) {
            s.head_asleep_at = Some(s.toks.len() - 1);
        }
    }
    s
}

// ------------------------------------------------------------------ the log as a model run -----

struct Trace {
    toks: Vec<String>,
    /// what the implementation's own events say (no model involved)
    sel_violated: bool,
    problems: Vec<(String, String)>,
    ingest_parks: u64,
    ingest_released: u64,
    compact_parks: u64,
    compact_wakes: u64,
    spurious: u64,
    installs: u64,
    finishes_l0: u64,
    finishes_deep: u64,
    max_inflight: usize,
    max_l0: u64,
    sleeper_with_work: u64,
    aborts: u64,
}

fn abstract_trace(out: &RunOut, ni: usize, nc: usize) -> Trace {
    let mut t = Trace { toks: vec![], sel_violated: false, problems: vec![], ingest_parks: 0, ingest_released: 0, compact_parks: 0, compact_wakes: 0, spurious: 0, installs: 0, finishes_l0: 0, finishes_deep: 0, max_inflight: 0, max_l0: 0, sleeper_with_work: 0, aborts: 0 };
    // mirror kept from the implementation's events alone
    let mut parked_i: BTreeMap<usize, usize> = BTreeMap::new(); // ingester -> position of its park
    let mut parked_c: BTreeSet<usize> = BTreeSet::new();
    let mut owed_wake_c: BTreeMap<usize, usize> = BTreeMap::new(); // compactor -> position of the install that must wake it
    let mut owed_wake_i: BTreeMap<usize, usize> = BTreeMap::new();
    let mut inflight: BTreeSet<usize> = BTreeSet::new();
    let mut last_select_none: Option<usize> = None;
    let mut parked_since_install: BTreeSet<usize> = BTreeSet::new();
    let mut l0 = out.start_l0.0;
    let mut waiting_relief: BTreeMap<usize, usize> = BTreeMap::new(); // ingester -> position of its first park not yet followed by a shrinking finish
    let mut problems: Vec<(String, String)> = vec![];
    for (pos, (_, tid, tag, a)) in out.events.iter().enumerate() {
        if !tag.starts_with("sched.") || tag.starts_with("sched.flush") {
            continue;
        }
        let role = match out.roles.get(tid) {
            Some(r) => *r,
            None => {
                problems.push(("event-from-unknown-thread".into(), format!("{} at {}", tag, pos)));
                continue;
            }
        };
        if let Some(c) = last_select_none.take() {
            if !(*tag == "sched.compact.park" && role == Role::Compactor(c)) {
                problems.push(("select-none-not-followed-by-park".into(), format!("compactor {} at {}", c, pos)));
            }
        }
        match (*tag, role) {
            ("sched.ingest.enter", Role::Ingester(_)) => {}
            ("sched.ingest.park", Role::Ingester(i)) => {
                t.toks.push(format!("Ip{}", i));
                t.ingest_parks += 1;
                parked_i.insert(i, pos);
                parked_since_install.insert(i);
                waiting_relief.entry(i).or_insert(pos);
                // some compaction thread must be awake (selecting or in flight)
                if parked_c.iter().filter(|c| !owed_wake_c.contains_key(c)).count() == nc {
                    problems.push(("ingest-parks-while-every-compaction-thread-sleeps".into(), format!("ingester {} at event {} (level 0: {} files)", i, pos, a[0])));
                }
            }
            ("sched.ingest.wake", Role::Ingester(i)) => {
                t.toks.push(format!("Wi{}:{}", i, a[0]));
                if a[0] == 0 {
                    t.spurious += 1;
                }
                parked_i.remove(&i);
                owed_wake_i.remove(&i);
            }
            ("sched.ingest.install", Role::Ingester(i)) => {
                t.toks.push(format!("Ia{}:{}:{}:{}", i, a[0], a[1], a[2]));
                t.installs += 1;
                l0 = a[0];
                t.max_l0 = t.max_l0.max(l0);
                waiting_relief.remove(&i);
                if parked_since_install.remove(&i) {
                    t.ingest_released += 1;
                }
                // the event that creates work wakes every sleeping compaction thread
                let fresh = parked_c.iter().filter(|c| !owed_wake_c.contains_key(c)).count();
                if a[2] as usize != fresh {
                    problems.push(("install-does-not-notify-every-sleeping-compactor".into(), format!("event {}: {} flagged, {} asleep without a notification", pos, a[2], fresh)));
                }
                for c in parked_c.iter() {
                    owed_wake_c.entry(*c).or_insert(pos);
                }
            }
            ("sched.select", Role::Compactor(c)) => {
                let some = a[0] & 1 == 1;
                let stall = a[0] & 2 == 2;
                if some {
                    t.toks.push(format!("Sy{}", c));
                    inflight.insert(c);
                    t.max_inflight = t.max_inflight.max(inflight.len());
                    if !parked_c.is_empty() {
                        t.sleeper_with_work += 1;
                    }
                } else {
                    t.toks.push(format!("Sn{}:{}", c, a[2]));
                    last_select_none = Some(c);
                    if stall && a[2] == 0 {
                        t.sel_violated = true;
                    }
                    // the ongoing list the selector saw holds exactly the compactions in flight: in
                    // particular none that has finished or failed
                    if a[2] as usize != inflight.len() {
                        problems.push(("ongoing-list-differs-from-compactions-in-flight".into(), format!("event {}: next_compaction() saw {} ongoing compaction(s), in flight are those of compactors {:?}{}", pos, a[2], inflight, if t.aborts > 0 { " (a compaction failed earlier in this run)" } else { "" })));
                    }
                }
            }
            ("sched.compact.park", Role::Compactor(c)) => {
                t.compact_parks += 1;
                parked_c.insert(c);
            }
            ("sched.compact.wake", Role::Compactor(c)) => {
                t.toks.push(format!("Wc{}:{}", c, a[0]));
                t.compact_wakes += 1;
                if a[0] == 0 {
                    t.spurious += 1;
                }
                parked_c.remove(&c);
                owed_wake_c.remove(&c);
            }
            ("sched.finish", Role::Compactor(c)) => {
                let woken = a[2] & 0xffff_ffff;
                t.toks.push(format!("F{}:{}:{}:{}", c, a[0], a[1], woken));
                if !inflight.remove(&c) {
                    problems.push(("finish-without-selection".into(), format!("compactor {} at {}", c, pos)));
                }
                if a[0] < l0 {
                    t.finishes_l0 += 1;
                    waiting_relief.retain(|_, _| false);
                } else {
                    t.finishes_deep += 1;
                }
                l0 = a[0];
                let fresh = parked_i.keys().filter(|i| !owed_wake_i.contains_key(i)).count();
                if woken as usize != fresh {
                    problems.push(("finish-does-not-notify-every-sleeping-ingest".into(), format!("event {}: {} flagged, {} asleep without a notification", pos, woken, fresh)));
                }
                for i in parked_i.keys() {
                    owed_wake_i.entry(*i).or_insert(pos);
                }
            }
            ("sched.compact.abort", Role::Compactor(c)) => {
                // the failed compaction is released under the mutex: it is no longer in flight
                t.toks.push(format!("A{}", c));
                t.aborts += 1;
                if !inflight.remove(&c) {
                    problems.push(("abort-without-selection".into(), format!("compactor {} at {}", c, pos)));
                }
                if out.injected.as_ref().map(|i| i.thread) != Some(*tid) {
                    problems.push(("compaction-failed".into(), format!("compactor {} at {}", c, pos)));
                }
            }
            (tag, role) => problems.push(("event-from-unexpected-thread".into(), format!("{} from {:?} at {}", tag, role, pos))),
        }
    }
    // what is still owed at the end of the run
    let end_stalled: BTreeSet<usize> = out.end_parked.iter().filter_map(|(r, cv)| if let (Role::Ingester(i), "stall") = (r, *cv) { Some(*i) } else { None }).collect();
    for (c, pos) in owed_wake_c {
        problems.push(("sleeping-compactor-not-woken-by-install".into(), format!("compactor {} slept through the install at event {}", c, pos)));
    }
    for (i, pos) in owed_wake_i {
        problems.push(("sleeping-ingest-not-woken-by-finish".into(), format!("ingester {} slept through the finish at event {}", i, pos)));
    }
    for (i, pos) in waiting_relief {
        if !end_stalled.contains(&i) {
            problems.push(("parked-ingest-never-relieved".into(), format!("ingester {} parked at event {} and no compaction shrank level 0 afterwards", i, pos)));
        }
    }
    let _ = ni;
    t.problems = problems;
    t
}

/// one real-thread run as one case
fn run_case(rec: &mut Recorder, seed: u64, case: u64, label: &str, cfg: &Cfg, w: &Workload, expect_stall: bool, prepare: &dyn Fn(&Store, &str) -> Result<(), String>) {
    let tag = format!("c20r.{}", case);
    let ni = if w.kvs_mode { 1 } else { w.clients };
    let nc = w.compactors;
    rec.aux(&format!("run {} {} {} {:?}", case, label, cfg.render(), w));
    let out = match run_threads(seed, case, &tag, cfg, w, prepare) {
        Ok(o) => o,
        Err(e) => {
            rec.case(&format!("# run {} {}", case, label), "#", Verdict::Fail { class: "run-setup-error".into(), detail: format!("{} {}: {}", label, cfg.render(), e) }, None);
            return;
        }
    };
    let tr = abstract_trace(&out, ni, nc);
    let wi = out.end_parked.iter().filter(|(r, cv)| matches!(r, Role::Ingester(_)) && *cv == "stall").count();
    let wc = out.end_parked.iter().filter(|(r, cv)| matches!(r, Role::Compactor(_)) && *cv == "compact").count();
    let m = summarize(&out.end_levels);
    let req = format!("stall run {} {} {} {} {} {} :: {}", cfg.stall_files, cfg.stall_bytes, ni, nc, out.start_l0.0, out.start_l0.1, tr.toks.join(" "));
    let obs = format!("ok sel={} inv=ok end={}/{},{}/{} l0={}", if tr.sel_violated { "violated" } else { "ok" }, wi, ni, wc, nc, m.l0);
    // ---- oracle, on the implementation's observations only
    let mut fails: Vec<(String, String)> = vec![];
    if let Some(p) = &out.problem {
        let class = match p.split(':').next() {
            Some(c) if ["notified-sleeper-did-not-wake", "client-call-never-returned", "wait-list-head-never-woken", "no-progress"].contains(&c) => c,
            _ => "run-did-not-end",
        };
        fails.push((class.into(), format!("{} {}: {}", label, cfg.render(), p)));
    }
    if w.fail_first {
        match &out.injected {
            Some(i) if matches!(&i.result, Err(m) if m.contains("NotFound")) && i.inputs > 0 => {}
            other => fails.push(("injected-failure-did-not-happen".into(), format!("{} {}: {:?}", label, cfg.render(), other))),
        }
    }
    if out.problem.is_none() && out.end_status.2 != 0 {
        // every compaction thread sleeps, so no compaction is in flight: the ongoing list must be empty
        fails.push(("ongoing-entry-without-a-compaction-in-flight".into(), format!("{} {}: at the end of the run every compaction thread sleeps on `compact` and the ongoing list still holds {} compaction(s){}; should_stall_ingest={} next_compaction().is_some()={}; {} of {} ingest callers asleep on `stall`", label, cfg.render(), out.end_status.2, match &out.injected { Some(i) => format!(" (the compaction of levels {}->{} with {} input(s) was made to fail once and its thread returned the error)", i.lower, i.upper, i.inputs), None => String::new() }, out.end_status.0, out.end_status.1, wi, ni)));
    }
    let store_exits: Vec<&(Role, Result<(), String>)> = out.exits.iter().filter(|(r, _)| matches!(r, Role::Compactor(_)) || (w.kvs_mode && matches!(r, Role::Ingester(_)))).collect();
    if !store_exits.is_empty() {
        // a compaction thread that fails on a path under compaction/ with NotFound lost its scratch
        // directory to the compaction that followed it over the same content (needs two threads)
        let scratch = nc >= 2 && store_exits.iter().all(|(r, e)| matches!(r, Role::Compactor(_)) && matches!(e, Err(m) if m.contains("NotFound") && m.contains("/compaction/")));
        // a thread that fails on a file of the current version which sits in trash/: the file was
        // re-created byte-identical while its old copy was on its way to trash
        let trashed = store_exits.iter().all(|(_, e)| matches!(e, Err(m) if m.contains("in sst/=false in trash/=true level in the final version=Some")));
        fails.push((if scratch { SCRATCH.into() } else if trashed { TRASHED.into() } else { "store-thread-exited".into() }, format!("{} {}: {:?}", label, cfg.render(), store_exits)));
    }
    if !out.client_errors.is_empty() {
        fails.push(("client-call-failed".into(), out.client_errors.join("; ")));
    }
    let stalled = wi > 0;
    if stalled {
        // every store thread sleeps, no wake-up is on its way, and an ingest is among the sleepers
        // a compaction is selectable and everybody sleeps all the same: a lost wake-up, not D-15
        let class = if out.end_status.1 { "all-parked-although-a-compaction-is-selectable" } else { stall_class(cfg, &m) };
        fails.push((class.into(), format!("{} {}: permanent stall: {} of {} ingest callers asleep on `stall`, {} of {} compaction threads asleep on `compact`, no notification pending, should_stall_ingest={} next_compaction().is_some()={} in flight={}; level 0: {} files / {} bytes, {} level-1 files under its hull; {} of {} clients returned", label, cfg.render(), wi, ni, wc, nc, out.end_status.0, out.end_status.1, out.end_status.2, m.l0, m.l0b, m.l1h, out.clients_done, w.clients)));
    } else if out.problem.is_none() && out.clients_done != w.clients {
        fails.push(("client-call-never-returned".into(), format!("{} of {} clients returned although no ingest sleeps on `stall`", out.clients_done, w.clients)));
    }
    if !stalled {
        for (c, d) in &tr.problems {
            fails.push((c.clone(), d.clone()));
        }
        if tr.sel_violated {
            // a stalled tree with nothing selectable on which no ingest happened to arrive any more
            fails.push((stall_class(cfg, &m).into(), format!("{} {}: next_compaction() was None with should_stall_ingest() and nothing in flight (the next ingest waits forever); level 0: {} files / {} bytes, {} level-1 files under its hull", label, cfg.render(), m.l0, m.l0b, m.l1h)));
        }
    } else {
        // in a run that ends in the known stall the ingest that is never relieved is the finding
        // itself; the wake-up obligations still hold
        for (c, d) in &tr.problems {
            if c != "ingest-parks-while-every-compaction-thread-sleeps" && c != "parked-ingest-never-relieved" {
                fails.push((c.clone(), d.clone()));
            }
        }
    }
    if expect_stall && !stalled {
        fails.push(("directed-replay-did-not-stall".into(), format!("{} {}", label, cfg.render())));
    }
    // ---- statistics
    rec.count(&format!("run.{}", label));
    if let Some(i) = &out.injected {
        rec.count(&if i.inputs == 1 { format!("fail.failed_compaction.move_L{}_to_L{}", i.lower, i.upper) } else if i.lower == 0 { format!("fail.failed_compaction.level0_merge_to_L{}", i.upper) } else { format!("fail.failed_compaction.merge_L{}_to_L{}", i.lower, i.upper) });
        rec.add("fail.compactions_after_the_failure", tr.finishes_l0 + tr.finishes_deep);
    }
    rec.count(&format!("run.compactors{}", nc));
    rec.add("run.events", tr.toks.len() as u64);
    rec.add("run.ingest_parks", tr.ingest_parks);
    rec.add("run.ingest_released_after_park", tr.ingest_released);
    rec.add("run.compactor_parks", tr.compact_parks);
    rec.add("run.compactor_wakes", tr.compact_wakes);
    rec.add("run.spurious_wakes", tr.spurious);
    rec.add("run.installs", tr.installs);
    rec.add("run.finishes_shrinking_l0", tr.finishes_l0);
    rec.add("run.finishes_below_l0", tr.finishes_deep);
    rec.add("run.accessor_polls", out.polls);
    rec.add("run.O4_selections_while_a_compactor_sleeps", tr.sleeper_with_work);
    if tr.max_inflight >= 2 {
        rec.count("run.with_two_compactions_in_flight");
    }
    if tr.ingest_parks > 0 {
        rec.count("run.with_stalled_ingest");
    }
    if stalled {
        rec.count("run.ended_in_permanent_stall");
    }
    let nontrivial = (tr.ingest_parks > 0 && tr.compact_parks > 0) || (tr.aborts > 0 && tr.finishes_l0 + tr.finishes_deep > 0);
    let verdict = match fails.into_iter().next() {
        None => Verdict::Ok,
        Some((class, detail)) => Verdict::Fail { class, detail },
    };
    let fp = fnv(format!("{} {} {:?}", label, cfg.render(), w).as_bytes());
    rec.case(&req, &obs, verdict, if nontrivial { Some(fp) } else { None });
    // ---- the wait list of KeyValueStore::write in the same run, as a run of Blue.KvsWake
    if w.kvs_mode && !out.wl_events.is_empty() {
        let wl = wait_list_state(&out.wl_events);
        let req = format!("stall wake :: {}", wl.toks.join(" "));
        let obs = format!("ok head={} end=q:{},asleep:{}", match wl.head_asleep_at { None => "ok".to_string(), Some(p) => format!("asleep@{}", p) }, wl.queue.len(), wl.asleep.len());
        rec.add("wl.links", wl.links);
        rec.add("wl.tickets_that_slept", wl.sleeps);
        rec.add("wl.exits_in_turn", wl.left_in_turn);
        rec.add("wl.failed_writes", out.failed_writes);
        rec.add("wl.failed_writes_dropping_their_guard_out_of_turn", wl.dropped);
        rec.add("wl.failed_writes_dropping_their_guard_as_head_with_a_successor_asleep", wl.dropped_as_head_with_successor_asleep);
        let verdict = match wl.unmapped.first() {
            Some(u) => Verdict::Fail { class: "trace-unmappable".into(), detail: u.clone() },
            // (a run that ended with the head asleep is reported by the case above: client-call-never-returned)
            None => Verdict::Ok,
        };
        let nt = wl.sleeps > 0 && (w.fail_pct == 0 || out.failed_writes > 0);
        rec.case(&req, &obs, verdict, if nt { Some(fnv(format!("wake {} {} {:?}", label, cfg.render(), w).as_bytes())) } else { None });
    }
}

// ------------------------------------------------------------------------ the ring, directed -----

thread_local! {
    static RING_ROLE: std::cell::Cell<u64> = const { std::cell::Cell::new(0) };
}

/// one slow write is parked right after it has linked; another client submits `MAX_CONCURRENCY + 8`
/// empty batches, each of which links and fails.  A store whose failed writes leave in their turn
/// has the first of them wait behind the slow write; a store whose failed writes drop their guard
/// at once fills the ring of the wait list behind the slow write (slots are reclaimed only when
/// the head moves) and then waits for a slot inside `link` — holding the store mutex, which the
/// slow write needs in order to leave.
fn run_ring(rec: &mut Recorder, case: u64) {
    use std::sync::{Condvar, Mutex};
    let tag = format!("c20ring.{}", case);
    let root = crate::store::scratch_dir(&tag);
    let mut cfg = Cfg::base();
    cfg.memtable = 1 << 22;
    let n = sync42::MAX_CONCURRENCY as u64 + 8;
    let label = "ring";
    let req = format!("# ring {} slots, {} empty batches behind one parked write", sync42::MAX_CONCURRENCY, n);
    let kvs = match KeyValueStore::open(cfg.options(&root)) {
        Ok(k) => Arc::new(k),
        Err(e) => {
            rec.case(&req, &req, Verdict::Fail { class: "run-setup-error".into(), detail: err_class(&e) }, None);
            return;
        }
    };
    lsmtk::verif::events_enable(false);
    let ctl: Arc<(Mutex<(bool, bool)>, Condvar)> = Arc::new((Mutex::new((false, false)), Condvar::new()));
    {
        let ctl = Arc::clone(&ctl);
        lsmtk::verif::set_pause_hook(Some(Arc::new(move |tag, _| {
            if tag == "kvs.write.linked" && RING_ROLE.with(|r| r.get()) == 1 {
                let (m, cv) = &*ctl;
                let mut g = m.lock().unwrap();
                g.0 = true;
                cv.notify_all();
                while !g.1 {
                    g = cv.wait(g).unwrap();
                }
            }
        })));
    }
    let slow_done = Arc::new(std::sync::atomic::AtomicBool::new(false));
    let failer_done = Arc::new(std::sync::atomic::AtomicBool::new(false));
    let count = Arc::new(AtomicU64::new(0));
    let wrong = Arc::new(AtomicU64::new(0));
    let slow = {
        let (kvs, d) = (Arc::clone(&kvs), Arc::clone(&slow_done));
        std::thread::spawn(move || {
            RING_ROLE.with(|r| r.set(1));
            let r = guarded(AssertUnwindSafe(|| kvs.put(b"slow", b"v").is_ok())).unwrap_or(false);
            d.store(true, Ordering::SeqCst);
            r
        })
    };
    let parked = {
        let (m, cv) = &*ctl;
        let g = m.lock().unwrap();
        let (g, _) = cv.wait_timeout_while(g, Duration::from_secs(30), |g| !g.0).unwrap();
        g.0
    };
    let failer = {
        let (kvs, d, c, wr) = (Arc::clone(&kvs), Arc::clone(&failer_done), Arc::clone(&count), Arc::clone(&wrong));
        std::thread::spawn(move || {
            for _ in 0..n {
                match guarded(AssertUnwindSafe(|| kvs.write(lsmtk::WriteBatch::default()).map_err(|e| err_class(&e)))) {
                    Ok(Err(e)) if e.contains("empty-batch") => {}
                    _ => {
                        wr.fetch_add(1, Ordering::SeqCst);
                    }
                }
                c.fetch_add(1, Ordering::SeqCst);
            }
            d.store(true, Ordering::SeqCst);
        })
    };
    // until the failing client stops getting anywhere (it sleeps behind the parked write, or waits
    // for a slot) or is through
    let mut last = (count.load(Ordering::SeqCst), Instant::now());
    let t0 = Instant::now();
    while !failer_done.load(Ordering::SeqCst) && t0.elapsed() < Duration::from_secs(60) {
        std::thread::sleep(Duration::from_millis(10));
        let c = count.load(Ordering::SeqCst);
        if c != last.0 {
            last = (c, Instant::now());
        } else if last.1.elapsed() > Duration::from_millis(500) {
            break;
        }
    }
    let before = count.load(Ordering::SeqCst);
    {
        let (m, cv) = &*ctl;
        m.lock().unwrap().1 = true;
        cv.notify_all();
    }
    let t0 = Instant::now();
    while !(slow_done.load(Ordering::SeqCst) && failer_done.load(Ordering::SeqCst)) && t0.elapsed() < Duration::from_secs(30) {
        std::thread::sleep(Duration::from_millis(10));
    }
    let (sd, fd) = (slow_done.load(Ordering::SeqCst), failer_done.load(Ordering::SeqCst));
    lsmtk::verif::set_pause_hook(None);
    let obs = format!("# ring parked={} slow-write-returned={} failing-client-returned={} failed-before-release={}", parked, sd, fd, if before >= sync42::MAX_CONCURRENCY as u64 - 1 { "ring-full".to_string() } else { before.to_string() });
    rec.aux(&format!("run {} {} failed-before-release={} of {} wrong-results={}", case, label, before, n, wrong.load(Ordering::SeqCst)));
    rec.count("run.ring");
    let verdict = if !parked {
        Verdict::Fail { class: "run-setup-error".into(), detail: "the slow write never reached kvs.write.linked (/repo commit f09c928 missing?)".into() }
    } else if !(sd && fd) {
        Verdict::Fail {
            class: "client-call-never-returned".into(),
            detail: format!("ring: one write was parked right after it linked into the wait list of KeyValueStore::write; {} empty batches then failed and left the list out of their turn (their slots are reclaimed only when the head moves: the ring has {} slots); the next link waits for a slot while it holds the store mutex, which the parked write needs in order to leave: after its release the slow write returned={}, the failing client returned={} (30 s)", before, sync42::MAX_CONCURRENCY, sd, fd),
        }
    } else if wrong.load(Ordering::SeqCst) > 0 {
        Verdict::Fail { class: "client-call-failed".into(), detail: format!("{} empty batches were not refused with empty-batch", wrong.load(Ordering::SeqCst)) }
    } else {
        Verdict::Ok
    };
    rec.case(&req, &obs, verdict, Some(fnv(req.as_bytes())));
    if sd && fd {
        let _ = slow.join();
        let _ = failer.join();
        drop(kvs);
        let _ = std::fs::remove_dir_all(&root);
    } else {
        // threads sleep inside the store for ever: leave them and the store behind
        std::mem::forget(kvs);
    }
}

fn no_prepare(_: &Store, _: &str) -> Result<(), String> {
    Ok(())
}

fn gen_cfg_run(rng: &mut Rng, kind: u64) -> Cfg {
    let mut c = Cfg::base();
    c.memtable = *rng.pick(&[64, 160, 400]);
    // compaction outputs are not split in the real-thread grid: with small target files a
    // compaction re-creates, by splitting, a file byte-identical to one that an earlier compaction
    // merged away, and when the old copy is moved to trash between the new copy's hard_link
    // (AlreadyExists) and the install of the new version, a live file is gone (a compaction thread
    // then dies with NotFound) - a defect of the trash protocol under concurrency (C08's domain,
    // reported), not of the stall protocol
    c.target_file = 1 << 22;
    c.stall_files = *rng.pick(&[1, 1, 2, 2, 3, 4, 6]);
    c.mand_files = *rng.pick(&[1, 2, 4]).min(&c.stall_files);
    c.mcf = *rng.pick(&[48, 64]);
    match kind {
        1 => {
            // byte thresholds decide
            c.stall_files = 12;
            c.stall_bytes = *rng.pick(&[300, 500, 1000, 2500]);
            c.mand_bytes = *rng.pick(&[200, 400]);
        }
        2 => {
            // compaction byte limit and open-file limit in play, cache off
            c.mcb = *rng.pick(&[400, 1500, 6000]);
            c.mof = *rng.pick(&[4096, 65536]);
            // the SST cache stays on in the real-thread grid: with `--sst-cache-bytes 0` every
            // compaction opens its inputs by path, which makes the trash race described above fatal
            // for the compaction thread (with the cache on the stale handle hides it)
            c.cache = DEF_CACHE;
        }
        _ => {}
    }
    c
}

fn gen_workload(rng: &mut Rng, kvs_mode: bool, thorough: bool) -> Workload {
    let compactors = *rng.pick(&[1usize, 1, 2, 2, 3, 4]);
    let clients = if kvs_mode { rng.range(1, 4) as usize } else { rng.range(2, 4) as usize };
    let budget = if thorough { 90 } else { 45 };
    let ops = if kvs_mode { rng.range(budget / 3, budget) as usize } else { (rng.range(budget / 9, budget / 3) as usize).max(3) };
    Workload { compactors, kvs_mode, clients, ops, nkeys: *rng.pick(&[4usize, 8, 16]), wide: rng.chance(1, 2), vlen: (4, *rng.pick(&[12u64, 40, 90])), pause: *rng.pick(&[0u64, 3, 6]), until_stall: false, fail_first: false, fail_pct: 0 }
}

/// D-15, found single-stepped: write and flush overlapping files, compacting to quiescence in
/// between, until the real selector has nothing to offer for a stalled level 0
fn prepare_stalled_tree(store: &Store, nkeys: usize, per_write: usize) -> Result<(), String> {
    let kvs = match store {
        Store::Kvs(k) => k,
        Store::Tree(_) => return Err("prepare_stalled_tree needs a KeyValueStore".into()),
    };
    let keys = alphabet(nkeys);
    let mut n = 0u64;
    // ingest has priority: a file is flushed whenever level 0 takes one, a compaction step is
    // taken only when ingest would wait
    for round in 0..20_000u64 {
        let (stall, selectable, _) = kvs.verif_tree().verif_status();
        if stall && !selectable {
            if std::env::var("C20_TIMING").is_ok() {
                eprintln!("stalled tree after {} single steps", round);
            }
            return Ok(());
        }
        if stall {
            lsmtk::verif::set_single_step(Some(1));
            let r = kvs.compaction_thread();
            lsmtk::verif::set_single_step(None);
            let _ = lsmtk::verif::take_chosen();
            r.map_err(|e| format!("compaction-error:{}", err_class(&e)))?;
            continue;
        }
        // every file spans the whole key range
        let mut wb = lsmtk::WriteBatch::with_capacity(per_write + 2);
        let mut ks: Vec<usize> = (0..per_write).map(|j| 1 + ((round as usize * 7 + j * 5) % (nkeys - 2))).collect();
        ks.push(0);
        ks.push(nkeys - 1);
        ks.sort();
        ks.dedup();
        for k in ks {
            n += 1;
            wb.put(&keys[k], format!("p{}", n).as_bytes());
        }
        kvs.write(wb).map_err(|e| format!("write-error:{}", err_class(&e)))?;
        kvs.verif_request_flush();
        lsmtk::verif::set_single_step(Some(0));
        let r = kvs.memtable_thread();
        lsmtk::verif::set_single_step(None);
        r.map_err(|e| format!("flush-error:{}", err_class(&e)))?;
    }
    Err("no stalled tree with nothing selectable within 20000 single steps".into())
}

/// the tree on which one compaction is made to fail, built single-stepped.  Every file spans the
/// whole key range.  shape 0: one file in level 0 (next: its move to level 1); 1: one file in
/// level 1 (its move to level 2); 2: one file sunk to level 6 (a move deep in the tree); 3: a small
/// file sunk to level 15, a larger one to level 14 and a third to level 13 (the merge of the two
/// deepest levels, a garbage-collecting compaction); 4: under a file limit of 2, fifteen files of decreasing size
/// sunk to levels 15..1 (no pair of neighbours is worth merging), then a small file in level 0 (the
/// mandatory merge of level 0 into level 1)
fn prepare_fail_shape(store: &Store, aux: &str, shape: u64, nkeys: usize) -> Result<(), String> {
    let keys = alphabet(nkeys);
    let n = std::cell::Cell::new(0u64);
    let add = |vlen: usize| -> Result<(), String> {
        n.set(n.get() + 1);
        let ks = vec![keys[0].clone(), keys[1 + (n.get() as usize % (nkeys - 2))].clone(), keys[nkeys - 1].clone()];
        match store {
            Store::Tree(t) => {
                let path = build_sst(aux, &format!("p{:03}", n.get()), &ks, vlen)?;
                t.ingest(&path).map_err(|e| format!("ingest-error:{}", err_class(&e)))
            }
            Store::Kvs(k) => {
                let mut wb = lsmtk::WriteBatch::with_capacity(3);
                for key in &ks {
                    let v: Vec<u8> = format!("p{:03}", n.get()).into_bytes().into_iter().chain(std::iter::repeat(b'.')).take(vlen).collect();
                    wb.put(key, &v);
                }
                k.write(wb).map_err(|e| format!("write-error:{}", err_class(&e)))?;
                k.verif_request_flush();
                lsmtk::verif::set_single_step(Some(0));
                let r = k.memtable_thread();
                lsmtk::verif::set_single_step(None);
                r.map_err(|e| format!("flush-error:{}", err_class(&e)))
            }
        }
    };
    let compact = |steps: usize| -> Result<usize, String> {
        let mut done = 0;
        for _ in 0..steps {
            lsmtk::verif::set_single_step(Some(1));
            let r = match store {
                Store::Tree(t) => t.compaction_thread(),
                Store::Kvs(k) => k.compaction_thread(),
            };
            lsmtk::verif::set_single_step(None);
            let chosen = lsmtk::verif::take_chosen();
            r.map_err(|e| format!("compaction-error:{}", err_class(&e)))?;
            if chosen.is_empty() {
                break;
            }
            done += 1;
        }
        Ok(done)
    };
    match shape {
        0 => add(60)?,
        1 => {
            add(60)?;
            compact(1)?;
        }
        2 => {
            add(60)?;
            compact(6)?;
        }
        3 => {
            add(20)?;
            compact(15)?;
            add(120)?;
            compact(14)?;
            // level 13 large enough for the level curve to let level 14 compact
            add(60)?;
            compact(13)?;
        }
        _ => {
            for i in 0..15usize {
                add(400 - 24 * i)?;
                compact(40)?;
            }
            add(8)?;
        }
    }
    if !store.tree().verif_status().1 {
        return Err(format!("shape {}: nothing is selectable on the prepared tree", shape));
    }
    Ok(())
}

pub fn run(args: &Args) {
    let mut rec = Recorder::new(&args.out, args.only_case);
    let seed = args.seed;
    let streams = std::env::var("C20_STREAMS").unwrap_or_else(|_| "sel,run,d15,fail,wl".to_string());
    let timing = std::env::var("C20_TIMING").is_ok();
    // ---- stream 1: selector differential on single-stepped states
    let (nh, len) = if args.thorough { (180, 60) } else { (48, 40) };
    for h in 0..(if streams.contains("sel") { nh } else { 0 }) {
        run_sel_history(&mut rec, seed, h, len);
    }
    // ---- stream 2: real-thread runs over the options grid (no trigger configuration)
    let nruns = if args.thorough { 400 } else { 60 };
    for r in 0..(if streams.contains("run") { nruns } else { 0 }) {
        let t0 = Instant::now();
        let mut rng = Rng::for_case(seed, 2002, r);
        let hunt = std::env::var("C20_HUNT").is_ok();
        let kvs_mode = r % 2 == 0 && !hunt;
        let w = gen_workload(&mut rng, kvs_mode, args.thorough);
        let mut cfg = gen_cfg_run(&mut rng, r % 3);
        if w.wide && rng.chance(1, 2) {
            // every file spans the whole key range and compaction outputs are not split: level 1
            // never holds more than one file, so a file limit just above the stall threshold is
            // never exceeded by the level-0 hull compaction
            cfg.target_file = 1 << 22;
            cfg.mcf = cfg.stall_files + *rng.pick(&[2u64, 4, 8]);
        }
        if hunt {
            cfg.cache = 0;
        }
        run_case(&mut rec, seed, r, if kvs_mode { "grid-kvs" } else { "grid-tree" }, &cfg, &w, false, &no_prepare);
        if timing {
            eprintln!("run {} {:?} {} {:?}", r, t0.elapsed(), cfg.render(), w);
        }
    }
    // ---- stream 3: directed D-15 replays
    let nd = if args.thorough { 24 } else { 8 };
    for d in 0..(if streams.contains("d15") { nd } else { 0 }) {
        let mut rng = Rng::for_case(seed, 2003, d);
        let mut cfg = Cfg::base();
        cfg.memtable = 64;
        let case = 10_000 + d;
        let t0 = Instant::now();
        let label;
        match d % 4 {
            0 | 2 => {
                // the stalled tree is found single-stepped (ingest has priority, compaction
                // outputs split into narrow files), then the threads are started on it
                cfg.stall_files = if args.thorough { [2u64, 3, 4, 6, 12][(d / 2 % 5) as usize] } else { [2u64, 3, 4, 3][(d / 2 % 4) as usize] };
                // file limit below the stall threshold, resp. above it (the level-1 files under the hull
                // take the compaction over the limit)
                cfg.mcf = if d % 4 == 0 { cfg.stall_files - 1 } else { cfg.stall_files + rng.range(1, 3) };
                cfg.mand_files = *rng.pick(&[1u64, 2, 4]);
                cfg.target_file = 128;
                let nkeys = *rng.pick(&[8usize, 16, 30]);
                let per = *rng.pick(&[2usize, 4, 6]);
                let w = Workload { compactors: rng.range(1, 4) as usize, kvs_mode: true, clients: rng.range(1, 3) as usize, ops: 12, nkeys: 6, wide: true, vlen: (8, 30), pause: 3, until_stall: false, fail_first: false, fail_pct: 0 };
                label = "d15-prepared";
                run_case(&mut rec, seed, case, label, &cfg, &w, true, &move |s: &Store, _: &str| prepare_stalled_tree(s, nkeys, per));
            }
            1 => {
                // no merge fits the limit: the threads themselves fill the levels by trivial moves
                // and then stall, under every schedule; writers go on until then
                cfg.stall_files = *rng.pick(&[2u64, 3, 4]);
                cfg.mcf = 1;
                cfg.mand_files = *rng.pick(&[1u64, 4]);
                let w = Workload { compactors: rng.range(1, 3) as usize, kvs_mode: true, clients: 2, ops: 4000, nkeys: 6, wide: true, vlen: (30, 60), pause: 4, until_stall: true, fail_first: false, fail_pct: 0 };
                label = "d15-grown-kvs";
                run_case(&mut rec, seed, case, label, &cfg, &w, true, &no_prepare);
            }
            _ => {
                // the same with direct ingest callers: 15 files sink to levels 15..1, the next
                // `stall` files stay in level 0, every further caller parks
                cfg.stall_files = *rng.pick(&[2u64, 3]);
                cfg.mcf = 1;
                cfg.mand_files = 1;
                let w = Workload { compactors: rng.range(1, 3) as usize, kvs_mode: false, clients: 3, ops: 8, nkeys: 6, wide: true, vlen: (8, 30), pause: 3, until_stall: false, fail_first: false, fail_pct: 0 };
                label = "d15-grown-tree";
                run_case(&mut rec, seed, case, label, &cfg, &w, true, &no_prepare);
            }
        }
        if timing {
            eprintln!("d15 {} {} {:?} {}", d, label, t0.elapsed(), cfg.render());
        }
    }
    // ---- stream 4: one compaction fails once (its thread returns the error, a fresh thread takes
    // over), then ingest is driven to the stall threshold and beyond
    let nf = if args.thorough { 20 } else { 6 };
    for f in 0..(if streams.contains("fail") { nf } else { 0 }) {
        let mut rng = Rng::for_case(seed, 2004, f);
        let t0 = Instant::now();
        let shape = if f < 6 { [0u64, 1, 2, 3, 4, 0][f as usize] } else { f % 5 };
        let kvs_mode = f == 5 || (f >= 6 && f % 3 == 0);
        let mut cfg = Cfg::base();
        // inputs are opened by path: no cached handle survives the directory's absence
        cfg.cache = 0;
        cfg.memtable = 64;
        cfg.stall_files = *rng.pick(&[2u64, 3, 4]);
        cfg.mand_files = if shape == 4 { 1 } else { *rng.pick(&[1u64, 2, 4]) };
        if shape == 4 {
            cfg.stall_files = 1;
            cfg.mcf = 2;
        }
        let compactors = rng.range(1, 3) as usize;
        let w = if shape == 4 {
            // under a file limit of 2 further ingests run into D-15 (the merged level 1 is split
            // along the files below it): the failed merge is retried by the fresh thread, no client
            Workload { compactors, kvs_mode, clients: 0, ops: 0, nkeys: 6, wide: true, vlen: (8, 30), pause: 0, until_stall: false, fail_first: true, fail_pct: 0 }
        } else if kvs_mode {
            Workload { compactors, kvs_mode: true, clients: 2, ops: 40, nkeys: 6, wide: true, vlen: (30, 60), pause: 4, until_stall: false, fail_first: true, fail_pct: 0 }
        } else {
            Workload { compactors, kvs_mode: false, clients: 3, ops: 8, nkeys: 6, wide: true, vlen: (8, 30), pause: 3, until_stall: false, fail_first: true, fail_pct: 0 }
        };
        let label = format!("fail-shape{}-{}", shape, if kvs_mode { "kvs" } else { "tree" });
        run_case(&mut rec, seed, 20_000 + f, &label, &cfg, &w, false, &move |s: &Store, aux: &str| prepare_fail_shape(s, aux, shape, 6));
        if timing {
            eprintln!("fail {} {} {:?} {}", f, label, t0.elapsed(), cfg.render());
        }
    }
    // ---- stream 5: the wait list of KeyValueStore::write with writes that fail
    let nw = if args.thorough { 40 } else { 10 };
    for r in 0..(if streams.contains("wl") { nw } else { 0 }) {
        let t0 = Instant::now();
        let mut rng = Rng::for_case(seed, 2005, r);
        let mut w = gen_workload(&mut rng, true, args.thorough);
        w.clients = rng.range(2, 4) as usize;
        w.fail_pct = *rng.pick(&[10u64, 25, 50]);
        let cfg = gen_cfg_run(&mut rng, 0);
        run_case(&mut rec, seed, 30_000 + r, "wl-failing-writes", &cfg, &w, false, &no_prepare);
        if timing {
            eprintln!("wl {} {:?} {} {:?}", r, t0.elapsed(), cfg.render(), w);
        }
    }
    for r in 0..(if streams.contains("wl") { if args.thorough { 2 } else { 1 } } else { 0 }) {
        if rec.wants() {
            run_ring(&mut rec, 31_000 + r);
        } else {
            rec.skip();
        }
    }
    rec.finish(
        "five streams on the real store (scheduler hooks of /repo 6de6846). sel: single-stepped histories (writes over 3-30 keys, flushes, compaction steps; a third of them with ingest given priority so that level 0 sits at the stall threshold) over an options grid (stall / mandatory thresholds in files and bytes, stall below mandatory, max_compaction_files above / at / below the stall threshold, max_compaction_bytes, max_open_files 6-24 with the cache off, memtable and target file sizes); after every op should_stall_ingest / next_compaction().is_some() and the tree summary (|L0|, bytes, level-1 files under the hull, sel, D-15 trigger) vs. the Lean selector model; non-trivial = level 0 and a deeper level both hold files, distinct by tree. run: real threads (1-4 compaction threads, flush thread + 1-4 writers doing put/del/batch, or 2-4 direct LsmTree::ingest callers; thresholds 1-6 files or 300-2500 bytes, file limit down to threshold+2, compaction byte limit 400-6000), the complete scheduling event log abstracted to the alphabet of Blue.Stall and replayed by the Lean driver, end of run decided by the parked-on accessor, oracle on the log itself; non-trivial = an ingest parked on `stall` and a compaction thread parked on `compact` at least once, distinct by configuration (traces vary with the schedule, verdicts do not). d15: directed replays of the permanent stall (tree found single-stepped then real threads; or grown by the threads themselves), every one expected to end with every store thread asleep. fail: on a tree built single-stepped, sst/ is put out of reach and a compaction thread started: the compaction it selects (move 0->1, move 1->2, move 6->7, the garbage-collecting merge 14->15, the mandatory merge of level 0 into level 1) fails on its first input and the thread returns the error; sst/ is put back, a fresh thread takes over, 1-3 compaction threads and ingest callers / writers run to the stall threshold and beyond; oracle: the ongoing list every later selection saw holds exactly the compactions in flight, is empty at the end, every call returns, nobody is left asleep on `stall`. wl: the kvs real-thread grid with 2-4 writers of whose calls 10/25/50% are writes the store must refuse after linking them into the wait list (empty batch, over-long last key / value), every call must return and return that error; one directed schedule: a write parked right after it linked while another client submits MAX_CONCURRENCY + 8 empty batches; the wait-list events (link / sleep / exit in turn / guard dropped) of every kvs-mode run are replayed through Blue.KvsWake (`stall wake`: every event enabled, head never asleep, nobody left at the end). A run that makes no progress (no scheduler event, no call returned) for 12 s is cut off and classified from the registry (notified sleeper that never woke / client call that never returned); a run in which the head of the wait list sleeps un-notified is cut off after 4 s (decided from the event log).",
        &[],
    );
}
