//! Shared plumbing: seeded PRNG, hex, case recorder, statistics.
use std::collections::BTreeMap;
use std::fmt::Write as _;
use std::io::Write as _;

/// splitmix64 — every random choice of a run derives from `VERIF_SEED`; a case's own generator
/// is `Rng::for_case(seed, stream, index)` so that one case can be regenerated alone.
#[derive(Clone)]
pub struct Rng(pub u64);

impl Rng {
    pub fn new(seed: u64) -> Self {
        Rng(seed ^ 0x9e3779b97f4a7c15)
    }
    pub fn for_case(seed: u64, stream: u64, index: u64) -> Self {
        let mut r = Rng(seed.wrapping_mul(0x9e3779b97f4a7c15) ^ stream.wrapping_mul(0xbf58476d1ce4e5b9) ^ index.wrapping_mul(0x94d049bb133111eb));
        r.next();
        r.next();
        r
    }
    pub fn next(&mut self) -> u64 {
        self.0 = self.0.wrapping_add(0x9e3779b97f4a7c15);
        let mut z = self.0;
        z = (z ^ (z >> 30)).wrapping_mul(0xbf58476d1ce4e5b9);
        z = (z ^ (z >> 27)).wrapping_mul(0x94d049bb133111eb);
        z ^ (z >> 31)
    }
    pub fn below(&mut self, n: u64) -> u64 {
        if n == 0 { 0 } else { self.next() % n }
    }
    pub fn range(&mut self, lo: u64, hi_incl: u64) -> u64 {
        lo + self.below(hi_incl - lo + 1)
    }
    pub fn chance(&mut self, num: u64, den: u64) -> bool {
        self.below(den) < num
    }
    pub fn pick<'a, T>(&mut self, xs: &'a [T]) -> &'a T {
        &xs[self.below(xs.len() as u64) as usize]
    }
    pub fn bytes(&mut self, n: usize) -> Vec<u8> {
        (0..n).map(|_| self.next() as u8).collect()
    }
    pub fn shuffle<T>(&mut self, xs: &mut [T]) {
        for i in (1..xs.len()).rev() {
            let j = self.below(i as u64 + 1) as usize;
            xs.swap(i, j);
        }
    }
}

pub fn hex(bs: &[u8]) -> String {
    if bs.is_empty() {
        return "-".to_string();
    }
    let mut s = String::with_capacity(bs.len() * 2);
    for b in bs {
        write!(s, "{:02x}", b).unwrap();
    }
    s
}

pub fn unhex(s: &str) -> Option<Vec<u8>> {
    if s == "-" {
        return Some(vec![]);
    }
    if s.len() % 2 != 0 {
        return None;
    }
    (0..s.len() / 2).map(|i| u8::from_str_radix(&s[2 * i..2 * i + 2], 16).ok()).collect()
}

/// What the oracle says about one case.
pub enum Verdict {
    Ok,
    /// `class` is a decidable predicate *on the input* (used to match KNOWN_FINDINGS), `detail`
    /// is free text.
    Fail { class: String, detail: String },
    /// the oracle has no complaint, but the case belongs to a history in which the trigger of the
    /// known finding `class` has fired (model and implementation may then legitimately differ)
    Taint { class: String },
}

pub struct Recorder {
    cases: std::io::BufWriter<std::fs::File>,
    imp: std::io::BufWriter<std::fs::File>,
    oracle: std::io::BufWriter<std::fs::File>,
    aux: std::io::BufWriter<std::fs::File>,
    pub n: u64,
    pub counters: BTreeMap<String, u64>,
    pub samples: Vec<String>,
    pub nontrivial: std::collections::BTreeSet<u64>,
    pub dir: String,
    pub only_case: Option<u64>,
    last_progress: Option<std::time::Instant>,
}

/// Number of cases completed so far and where to leave a note when a panic happens: if the code
/// under test aborts the process (a panic that cannot unwind), `crash.txt` names the case in
/// progress and the panic message, so the violation report can point at one regenerable case.
pub static CASES_DONE: std::sync::atomic::AtomicU64 = std::sync::atomic::AtomicU64::new(0);
static RECENT_PANICS: std::sync::Mutex<Vec<String>> = std::sync::Mutex::new(Vec::new());
pub static CRASH_NOTE: std::sync::Mutex<Option<String>> = std::sync::Mutex::new(None);

pub fn install_panic_note_hook() {
    std::panic::set_hook(Box::new(|info| {
        let path = match CRASH_NOTE.try_lock() {
            Ok(g) => g.clone(),
            Err(_) => None,
        };
        if let Some(path) = path {
            let msg = if let Some(s) = info.payload().downcast_ref::<&str>() {
                s.to_string()
            } else if let Some(s) = info.payload().downcast_ref::<String>() {
                s.clone()
            } else {
                "panic".to_string()
            };
            let loc = info.location().map(|l| format!("{}:{}", l.file(), l.line())).unwrap_or_default();
            let n = CASES_DONE.load(std::sync::atomic::Ordering::SeqCst);
            // the newest note first (the last panic before an abort is usually the secondary
            // "panic in a destructor"; the one before it is the cause)
            let line = format!("case={} at={} msg={}", n, loc, msg.replace('\n', " "));
            let mut all = line;
            if let Ok(mut recent) = RECENT_PANICS.try_lock() {
                for r in recent.iter().rev().take(3) {
                    all.push_str(" <= ");
                    all.push_str(r);
                }
                let keep = all.split(" <= ").next().unwrap_or("").to_string();
                recent.push(keep);
                if recent.len() > 8 {
                    recent.remove(0);
                }
            }
            let _ = std::fs::write(&path, format!("{}\n", all));
        }
    }));
}

impl Recorder {
    pub fn new(dir: &str, only_case: Option<u64>) -> Self {
        std::fs::create_dir_all(dir).unwrap();
        let _ = std::fs::remove_file(format!("{}/crash.txt", dir));
        *CRASH_NOTE.lock().unwrap() = Some(format!("{}/crash.txt", dir));
        CASES_DONE.store(0, std::sync::atomic::Ordering::SeqCst);
        let f = |n: &str| std::io::BufWriter::new(std::fs::File::create(format!("{}/{}", dir, n)).unwrap());
        Recorder {
            cases: f("cases.txt"),
            imp: f("impl.txt"),
            oracle: f("oracle.txt"),
            aux: f("aux.txt"),
            n: 0,
            counters: BTreeMap::new(),
            samples: vec![],
            nontrivial: Default::default(),
            dir: dir.to_string(),
            only_case: only_case,
            last_progress: None,
        }
    }
    /// at most once a second: how far the run has come (read by bin/check when the run had to be
    /// killed because it did not end, so that the report can name the case in progress)
    fn note_progress(&mut self) {
        let now = std::time::Instant::now();
        if self.last_progress.map(|t| now.duration_since(t).as_millis() >= 1000).unwrap_or(true) {
            self.last_progress = Some(now);
            let _ = std::fs::write(format!("{}/progress.txt", self.dir), format!("case={}\n", self.n));
        }
    }
    pub fn count(&mut self, key: &str) {
        *self.counters.entry(key.to_string()).or_insert(0) += 1;
    }
    pub fn add(&mut self, key: &str, n: u64) {
        *self.counters.entry(key.to_string()).or_insert(0) += n;
    }
    /// should case number `self.n` be run at all (replay mode runs one case only)?
    pub fn wants(&self) -> bool {
        match self.only_case {
            None => true,
            Some(k) => k == self.n,
        }
    }
    pub fn skip(&mut self) {
        self.n += 1;
        CASES_DONE.store(self.n, std::sync::atomic::Ordering::SeqCst);
        self.note_progress();
    }
    /// One case: the request line for the model driver, the implementation's observation in the
    /// same rendering, the oracle's verdict on the implementation, and whether the case is
    /// non-trivial (with a fingerprint for distinctness).
    pub fn case(&mut self, request: &str, observed: &str, verdict: Verdict, nontrivial: Option<u64>) {
        debug_assert!(!request.contains('\n') && !observed.contains('\n'));
        writeln!(self.cases, "{}", request).unwrap();
        writeln!(self.imp, "{}", observed).unwrap();
        match verdict {
            Verdict::Ok => writeln!(self.oracle, "ok").unwrap(),
            Verdict::Fail { class, detail } => {
                writeln!(self.oracle, "FAIL {} {}", class.replace(' ', "_"), detail.replace('\n', " ")).unwrap()
            }
            Verdict::Taint { class } => writeln!(self.oracle, "TAINT {}", class.replace(' ', "_")).unwrap(),
        }
        if let Some(fp) = nontrivial {
            self.nontrivial.insert(fp);
        }
        if self.samples.len() < 5 && (self.n % 97 == 0 || self.samples.is_empty()) {
            let mut r = request.to_string();
            if r.len() > 400 {
                r.truncate(400);
                r.push_str("…");
            }
            let mut o = observed.to_string();
            if o.len() > 200 {
                o.truncate(200);
                o.push_str("…");
            }
            self.samples.push(format!("{} => {}", r, o));
        }
        self.n += 1;
        CASES_DONE.store(self.n, std::sync::atomic::Ordering::SeqCst);
        self.note_progress();
    }
    /// model-only case without oracle (pure correspondence)
    pub fn corr(&mut self, request: &str, observed: &str, nontrivial: Option<u64>) {
        self.case(request, observed, Verdict::Ok, nontrivial)
    }
    pub fn aux(&mut self, line: &str) {
        writeln!(self.aux, "{}", line).unwrap();
    }
    pub fn finish(mut self, rule: &str, extra: &[(&str, String)]) {
        self.cases.flush().unwrap();
        self.imp.flush().unwrap();
        self.oracle.flush().unwrap();
        self.aux.flush().unwrap();
        let mut s = String::new();
        s.push_str("{\n");
        write!(s, "  \"evaluations\": {},\n  \"distinct_nontrivial\": {},\n  \"rule\": {},\n", self.n, self.nontrivial.len(), json_str(rule)).unwrap();
        s.push_str("  \"samples\": [");
        for (i, x) in self.samples.iter().enumerate() {
            if i > 0 {
                s.push_str(", ");
            }
            s.push_str(&json_str(x));
        }
        s.push_str("],\n  \"distribution\": {");
        for (i, (k, v)) in self.counters.iter().enumerate() {
            if i > 0 {
                s.push_str(", ");
            }
            write!(s, "{}: {}", json_str(k), v).unwrap();
        }
        s.push_str("}");
        for (k, v) in extra {
            write!(s, ",\n  {}: {}", json_str(k), v).unwrap();
        }
        s.push_str("\n}\n");
        std::fs::write(format!("{}/stats.json", self.dir), s).unwrap();
    }
}

pub fn json_str(s: &str) -> String {
    let mut o = String::from("\"");
    for c in s.chars() {
        match c {
            '"' => o.push_str("\\\""),
            '\\' => o.push_str("\\\\"),
            '\n' => o.push_str("\\n"),
            '\t' => o.push_str("\\t"),
            c if (c as u32) < 0x20 => write!(o, "\\u{:04x}", c as u32).unwrap(),
            c => o.push(c),
        }
    }
    o.push('"');
    o
}

pub fn fnv(bs: &[u8]) -> u64 {
    let mut h: u64 = 0xcbf29ce484222325;
    for b in bs {
        h ^= *b as u64;
        h = h.wrapping_mul(0x100000001b3);
    }
    h
}

/// run `f`, turning a panic into `Err(message)`; the harness profile unwinds.
pub fn guarded<T>(f: impl FnOnce() -> T + std::panic::UnwindSafe) -> Result<T, String> {
    match std::panic::catch_unwind(f) {
        Ok(x) => Ok(x),
        Err(e) => {
            let msg = if let Some(s) = e.downcast_ref::<&str>() {
                s.to_string()
            } else if let Some(s) = e.downcast_ref::<String>() {
                s.clone()
            } else {
                "panic".to_string()
            };
            Err(msg)
        }
    }
}

pub struct Args {
    pub prop: String,
    pub seed: u64,
    pub thorough: bool,
    pub out: String,
    pub only_case: Option<u64>,
    pub rest: Vec<String>,
}

pub fn parse_args() -> Args {
    let a: Vec<String> = std::env::args().collect();
    let mut args = Args { prop: String::new(), seed: 1, thorough: false, out: "work/out".into(), only_case: None, rest: vec![] };
    let mut i = 1;
    while i < a.len() {
        match a[i].as_str() {
            "--seed" => {
                args.seed = a[i + 1].parse().unwrap();
                i += 1;
            }
            "--tier" => {
                args.thorough = a[i + 1] == "thorough";
                i += 1;
            }
            "--out" => {
                args.out = a[i + 1].clone();
                i += 1;
            }
            "--case" => {
                args.only_case = Some(a[i + 1].parse().unwrap());
                i += 1;
            }
            x if args.prop.is_empty() => args.prop = x.to_string(),
            x => args.rest.push(x.to_string()),
        }
        i += 1;
    }
    args
}
