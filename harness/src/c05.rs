//! C05 — compaction conserves every version; GC discards only what policy permits.
//!
//! This file holds the *cursor-level* half (`run_gc_streams`): the policy parser, the garbage
//! collector over real cursors, and the merge → multi-builder → split pipeline of a compaction,
//! without the LSM tree.  The tree-level half is added to `run` by the coordinator.
//!
//! Model instances: `gc` (verbs `parse`, `run`) and `split` (verb `cut`).
use crate::common::*;
use sst::gc::GarbageCollectionPolicy as Gcp;
use sst::merging_cursor::MergingCursor;
use sst::reference::{ReferenceBuilder, ReferenceCursor};
use sst::{Builder, Cursor, KeyRef, Sst, SstBuilder, SstCursor, SstMultiBuilder, SstOptions};
use std::cmp::Ordering;
use std::num::NonZeroU64;
use std::panic::AssertUnwindSafe;
use std::path::{Path, PathBuf};

fn g<T>(f: impl FnOnce() -> T) -> Result<T, String> {
    guarded(AssertUnwindSafe(f))
}

// ------------------------------------------------------------------------------------------------
// the policy language
// ------------------------------------------------------------------------------------------------

/// the harness's own policy AST (the generator builds policies here, not through the crate)
#[derive(Clone, Debug, PartialEq, Eq)]
enum Pol {
    V(u64),
    T(u64),
    Any(Vec<Pol>),
    All(Vec<Pol>),
}

fn render_ast(p: &Pol) -> String {
    match p {
        Pol::V(n) => format!("v{}", n),
        Pol::T(m) => format!("t{}", m),
        Pol::Any(ps) => format!("any({})", ps.iter().map(render_ast).collect::<Vec<_>>().join(",")),
        Pol::All(ps) => format!("all({})", ps.iter().map(render_ast).collect::<Vec<_>>().join(",")),
    }
}

fn from_crate(p: &Gcp) -> Pol {
    match p {
        Gcp::Versions { number } => Pol::V(number.get()),
        Gcp::Expires { micros } => Pol::T(micros.get()),
        Gcp::Any(ps) => Pol::Any(ps.iter().map(from_crate).collect()),
        Gcp::All(ps) => Pol::All(ps.iter().map(from_crate).collect()),
    }
}

/// (for the tree-level half: build a crate policy without going through text)
#[allow(dead_code)]
fn to_crate(p: &Pol) -> Gcp {
    match p {
        Pol::V(n) => Gcp::Versions { number: NonZeroU64::new(*n).unwrap() },
        Pol::T(m) => Gcp::Expires { micros: NonZeroU64::new(*m).unwrap() },
        Pol::Any(ps) => Gcp::Any(ps.iter().map(to_crate).collect()),
        Pol::All(ps) => Gcp::All(ps.iter().map(to_crate).collect()),
    }
}

fn depth(p: &Pol) -> usize {
    match p {
        Pol::V(_) | Pol::T(_) => 0,
        Pol::Any(ps) | Pol::All(ps) => 1 + ps.iter().map(depth).max().unwrap_or(0),
    }
}

fn has_empty_any(p: &Pol) -> bool {
    match p {
        Pol::V(_) | Pol::T(_) => false,
        Pol::Any(ps) => ps.is_empty() || ps.iter().any(has_empty_any),
        Pol::All(ps) => ps.iter().any(has_empty_any),
    }
}

fn has_ttl(p: &Pol) -> bool {
    match p {
        Pol::V(_) => false,
        Pol::T(_) => true,
        Pol::Any(ps) | Pol::All(ps) => ps.iter().any(has_ttl),
    }
}

fn gen_number(rng: &mut Rng) -> u64 {
    match rng.below(12) {
        0 => u64::MAX,
        1 => rng.range(5, 40),
        2..=4 => 1,
        5..=7 => 2,
        8..=9 => 3,
        _ => rng.range(4, 6),
    }
}

fn gen_pol(rng: &mut Rng, max_depth: usize) -> Pol {
    let leaf = max_depth == 0 || rng.chance(2, 5);
    if leaf {
        if rng.chance(3, 5) {
            Pol::V(gen_number(rng))
        } else {
            Pol::T(gen_number(rng))
        }
    } else {
        let n = match rng.below(8) {
            0 => 0,
            1 | 2 => 1,
            3..=5 => 2,
            _ => 3,
        } as usize;
        let ps = (0..n).map(|_| gen_pol(rng, max_depth - 1)).collect();
        if rng.chance(1, 2) {
            Pol::Any(ps)
        } else {
            Pol::All(ps)
        }
    }
}

fn gen_ws(rng: &mut Rng, style: u64) -> String {
    match style {
        0 => String::new(),
        1 => " ".to_string(),
        _ => {
            let n = rng.below(3);
            (0..n).map(|_| *rng.pick(&[' ', ' ', '\t', '\n', '\r'])).collect()
        }
    }
}

/// text of a policy: canonical `Display` spacing (style 1), no spaces (style 0), or random
/// whitespace / leading zeros / trailing commas (style 2) — all inside the grammar
fn to_text(rng: &mut Rng, p: &Pol, style: u64, out: &mut String) {
    let num = |rng: &mut Rng, n: u64| -> String {
        if style == 2 && rng.chance(1, 6) {
            format!("{}{}", "0".repeat(rng.range(1, 3) as usize), n)
        } else {
            n.to_string()
        }
    };
    match p {
        Pol::V(n) | Pol::T(n) => {
            if style == 2 {
                out.push_str(&gen_ws(rng, 2));
            }
            out.push_str(if matches!(p, Pol::V(_)) { "versions" } else { "ttl_micros" });
            out.push_str(&gen_ws(rng, style));
            out.push('=');
            out.push_str(&gen_ws(rng, style));
            out.push_str(&num(rng, *n));
            if style == 2 {
                out.push_str(&gen_ws(rng, 2));
            }
        }
        Pol::Any(ps) | Pol::All(ps) => {
            if style == 2 {
                out.push_str(&gen_ws(rng, 2));
            }
            out.push_str(if matches!(p, Pol::Any(_)) { "any" } else { "all" });
            if style == 2 {
                out.push_str(&gen_ws(rng, 2));
            }
            out.push('(');
            if style == 2 {
                out.push_str(&gen_ws(rng, 2));
            }
            for (i, q) in ps.iter().enumerate() {
                if i > 0 {
                    out.push(',');
                    if style == 1 {
                        out.push(' ');
                    }
                }
                to_text(rng, q, style, out);
            }
            if style == 2 && rng.chance(1, 4) {
                out.push(',');
            }
            if style == 2 {
                out.push_str(&gen_ws(rng, 2));
            }
            out.push(')');
            if style == 2 {
                out.push_str(&gen_ws(rng, 2));
            }
        }
    }
}

/// THE GRAMMAR, read off the documentation and the tests of gc.rs and written as a plain
/// recursive descent (independent of nom):
///
///   policy := ws ( "versions" ws "=" ws number | "ttl_micros" ws "=" ws number
///                | ("any" | "all") ws "(" ws [ policy { "," policy } ] [ "," ] ws ")" ) ws
///   number := digit+   with value in 1 ..= 2^64-1   (a sign is not a number)
///   ws     := { ' ' | '\t' | '\r' | '\n' }
///
/// and the whole input must be one policy.
struct DefParser<'a> {
    s: &'a [u8],
    i: usize,
}

impl<'a> DefParser<'a> {
    fn ws(&mut self) {
        while self.i < self.s.len() && matches!(self.s[self.i], b' ' | b'\t' | b'\r' | b'\n') {
            self.i += 1;
        }
    }
    fn eat(&mut self, t: &[u8]) -> bool {
        if self.s[self.i..].starts_with(t) {
            self.i += t.len();
            true
        } else {
            false
        }
    }
    fn number(&mut self) -> Option<u64> {
        let st = self.i;
        while self.i < self.s.len() && self.s[self.i].is_ascii_digit() {
            self.i += 1;
        }
        if st == self.i {
            return None;
        }
        let mut v: u128 = 0;
        for b in &self.s[st..self.i] {
            v = v * 10 + (*b - b'0') as u128;
            if v > u64::MAX as u128 {
                return None;
            }
        }
        if v == 0 {
            None
        } else {
            Some(v as u64)
        }
    }
    fn policy(&mut self) -> Option<Pol> {
        self.ws();
        let p = if self.eat(b"versions") {
            self.ws();
            if !self.eat(b"=") {
                return None;
            }
            self.ws();
            Pol::V(self.number()?)
        } else if self.eat(b"ttl_micros") {
            self.ws();
            if !self.eat(b"=") {
                return None;
            }
            self.ws();
            Pol::T(self.number()?)
        } else {
            let any = if self.eat(b"any") {
                true
            } else if self.eat(b"all") {
                false
            } else {
                return None;
            };
            self.ws();
            if !self.eat(b"(") {
                return None;
            }
            self.ws();
            let mut ps = vec![];
            // a policy starts (after white space) with a letter; ',' and ')' end the list
            loop {
                let save = self.i;
                self.ws();
                let starts = self.i < self.s.len() && self.s[self.i].is_ascii_alphabetic();
                self.i = save;
                if !starts {
                    break;
                }
                ps.push(self.policy()?);
                // the separator must follow the policy (which ate its trailing white space)
                let save = self.i;
                if self.eat(b",") {
                    let s2 = self.i;
                    self.ws();
                    let more = self.i < self.s.len() && self.s[self.i].is_ascii_alphabetic();
                    self.i = s2;
                    if !more {
                        self.i = save;
                        break;
                    }
                } else {
                    break;
                }
            }
            let _ = self.eat(b",");
            self.ws();
            if !self.eat(b")") {
                return None;
            }
            if any {
                Pol::Any(ps)
            } else {
                Pol::All(ps)
            }
        };
        self.ws();
        Some(p)
    }
}

fn def_parse(s: &[u8]) -> Option<Pol> {
    let mut p = DefParser { s, i: 0 };
    let r = p.policy()?;
    if p.i == s.len() {
        Some(r)
    } else {
        None
    }
}

/// canonical rendering of a `ParseError`: the printed contexts with line and caret column
fn render_parse_error(display: &str) -> String {
    let lines: Vec<&str> = display.split('\n').collect();
    let mut out = String::from("err");
    let mut i = 0;
    while i < lines.len() {
        let l = lines[i];
        // "{index}: at line {n}, in {context}:"
        if let Some(pos) = l.find(": at line ") {
            if l[..pos].bytes().all(|b| b.is_ascii_digit()) && pos > 0 && l.ends_with(':') {
                let rest = &l[pos + 10..l.len() - 1];
                if let Some(c) = rest.find(", in ") {
                    let line_no = &rest[..c];
                    let ctx = &rest[c + 5..];
                    let caret = lines.get(i + 2).map(|x| x.len()).unwrap_or(0);
                    out.push_str(&format!(" {}:{}:{}", ctx.replace(' ', "_"), line_no, caret));
                    i += 3;
                    continue;
                }
            }
        }
        i += 1;
    }
    out
}

// ------------------------------------------------------------------------------------------------
// entries
// ------------------------------------------------------------------------------------------------

#[derive(Clone, Debug, PartialEq, Eq)]
struct E {
    key: Vec<u8>,
    ts: u64,
    val: Option<Vec<u8>>,
}

fn cmp_e(a: &E, b: &E) -> Ordering {
    a.key.cmp(&b.key).then(b.ts.cmp(&a.ts))
}

fn tok_e(e: &E) -> String {
    format!("{}:{}:{}", hex(&e.key), e.ts, match &e.val {
        None => "~".to_string(),
        Some(v) => hex(v),
    })
}

fn tok_table(t: &[E]) -> String {
    if t.is_empty() {
        ".".to_string()
    } else {
        t.iter().map(tok_e).collect::<Vec<_>>().join(",")
    }
}

/// `[8] key ts_le value` / `[9] key ts_le`: the framing sst::Setsum gives a put / a tombstone
fn framing(e: &E) -> Vec<u8> {
    let mut b = vec![if e.val.is_some() { 8u8 } else { 9u8 }];
    b.extend_from_slice(&e.key);
    b.extend_from_slice(&e.ts.to_le_bytes());
    if let Some(v) = &e.val {
        b.extend_from_slice(v);
    }
    b
}

fn setsum_of(es: &[E]) -> setsum::Setsum {
    let mut s = setsum::Setsum::default();
    for e in es {
        s.insert(&framing(e));
    }
    s
}

const KEYS: [&[u8]; 8] = [b"", b"\x00", b"a", b"a\x00", b"ab", b"b", b"k", b"\xff"];

fn gen_value(rng: &mut Rng) -> Vec<u8> {
    match rng.below(6) {
        0 => vec![],
        1 => vec![0],
        2 => b"v".to_vec(),
        3 => {
            let n = rng.range(1, 4) as usize;
            rng.bytes(n)
        }
        4 => {
            let n = rng.range(20, 60) as usize;
            rng.bytes(n)
        }
        _ => vec![rng.below(3) as u8; 2],
    }
}

/// a sorted run (key ascending, timestamp descending) over `nkeys` keys of the small alphabet;
/// `pattern(rng, key index, version index)` says whether a version is a tombstone
fn gen_run(rng: &mut Rng, nkeys: usize, max_versions: usize, ts_hi: u64, avoid_max_on_empty: bool) -> Vec<E> {
    let mut idx: Vec<usize> = (0..KEYS.len()).collect();
    rng.shuffle(&mut idx);
    let mut ks: Vec<&[u8]> = idx[..nkeys].iter().map(|i| KEYS[*i]).collect();
    ks.sort();
    let mut out = vec![];
    let tomb_bias = rng.range(1, 3); // 1/4, 2/4, 3/4 of the versions are tombstones
    for k in ks {
        let nv = rng.below(max_versions as u64 + 1) as usize;
        // distinct timestamps, descending
        let mut tss: Vec<u64> = vec![];
        while tss.len() < nv {
            let t = match rng.below(10) {
                0 => 0,
                1 if !(avoid_max_on_empty && k.is_empty()) => u64::MAX,
                _ => rng.below(ts_hi + 1),
            };
            if !tss.contains(&t) {
                tss.push(t);
            }
        }
        tss.sort();
        tss.reverse();
        for t in tss {
            let val = if rng.chance(tomb_bias, 4) { None } else { Some(gen_value(rng)) };
            out.push(E { key: k.to_vec(), ts: t, val });
        }
    }
    out
}

// ------------------------------------------------------------------------------------------------
// THE DEFINITIONAL READING OF A POLICY (the oracle)
// ------------------------------------------------------------------------------------------------
//
// Input: the versions of ONE key, newest first (what a sorted cursor yields).
//
// * The *versions* of a key are (gc.rs, doc of `Versions`): every non-tombstone value, and the
//   OLDEST tombstone of every maximal run of consecutive tombstones.  The younger tombstones of a
//   run are not versions: they are always dropped.
// * `versions = N` selects the N newest versions.  `ttl_micros = M` selects the versions whose
//   timestamp is >= now.saturating_sub(M) (lsmtk passes now = 0, so it selects everything: O-3).
//   `any(..)` selects the union, `all(..)` the intersection of what its members select
//   (`any()` selects nothing, `all()` everything).
// * Every selection is upward closed (a prefix of the version list): N newest; timestamps
//   descend; unions and intersections of prefixes are prefixes.  The oracle asserts this.
// * Because the garbage collector only runs when the output level is the LAST level (lsmtk:
//   `Compaction::top_level`), nothing older can lie below its output, so a tombstone whose
//   shadowed value is not retained protects nothing and is dropped too: a selected tombstone
//   is retained iff the value directly below its run is selected; tombstones at the end of a key
//   (no value below) are always dropped.  THIS IS ONLY VALID AT THE BOTTOM LEVEL.
// * What is retained is therefore, per key, a prefix of "units" (value + the oldest tombstone of
//   the run directly above it), i.e. a sub-list of the input; the newest entry of a key is
//   retained whenever the policy selects the newest version and it is a value; if it is a
//   tombstone, either the oldest tombstone of its run stays on top of the key or the whole key
//   disappears (tombstone and everything it shadows go together) — a reader at the newest
//   timestamp sees the same either way.
// * discard setsum = sum over the dropped entries of their framing.

/// indices (into `vs`) of the versions of one key, newest first
fn versions_of(vs: &[&E]) -> Vec<usize> {
    let mut out = vec![];
    for i in 0..vs.len() {
        if vs[i].val.is_some() {
            out.push(i);
        } else if i + 1 == vs.len() || vs[i + 1].val.is_some() {
            out.push(i); // oldest tombstone of its run
        }
    }
    out
}

/// which of the `versions` (by position in the version list) the policy selects
fn selects(p: &Pol, now: u64, vs: &[&E], versions: &[usize]) -> Vec<bool> {
    match p {
        Pol::V(n) => (0..versions.len()).map(|j| (j as u64) < *n).collect(),
        Pol::T(m) => versions.iter().map(|i| vs[*i].ts >= now.saturating_sub(*m)).collect(),
        Pol::Any(ps) => {
            let mut acc = vec![false; versions.len()];
            for q in ps {
                for (a, b) in acc.iter_mut().zip(selects(q, now, vs, versions)) {
                    *a |= b;
                }
            }
            acc
        }
        Pol::All(ps) => {
            let mut acc = vec![true; versions.len()];
            for q in ps {
                for (a, b) in acc.iter_mut().zip(selects(q, now, vs, versions)) {
                    *a &= b;
                }
            }
            acc
        }
    }
}

/// per input entry: does the definitional reading retain it?  (`Err` if the reading itself is
/// inconsistent, i.e. a selection is not a prefix)
fn definitional(p: &Pol, now: u64, input: &[E]) -> Result<Vec<bool>, String> {
    let mut keep = vec![false; input.len()];
    let mut i = 0;
    while i < input.len() {
        let mut j = i;
        while j < input.len() && input[j].key == input[i].key {
            j += 1;
        }
        let vs: Vec<&E> = input[i..j].iter().collect();
        let versions = versions_of(&vs);
        let sel = selects(p, now, &vs, &versions);
        for w in 1..sel.len() {
            if sel[w] && !sel[w - 1] {
                return Err("selection-not-a-prefix".into());
            }
        }
        for (j2, vi) in versions.iter().enumerate() {
            if !sel[j2] {
                continue;
            }
            if vs[*vi].val.is_some() {
                keep[i + *vi] = true;
            } else {
                // a tombstone version: the value right below it (the next version) must be selected
                let below = j2 + 1;
                if below < versions.len() && vs[versions[below]].val.is_some() && sel[below] {
                    keep[i + *vi] = true;
                }
            }
        }
        i = j;
    }
    Ok(keep)
}

/// does the policy select the newest version of every key, whatever the data?  (decidable on the
/// policy and `now` alone — the class of inputs for which "never the entry that decides the
/// current value of a key" is demanded)
fn keeps_newest(p: &Pol, now: u64) -> bool {
    match p {
        Pol::V(_) => true,
        Pol::T(m) => now.saturating_sub(*m) == 0,
        Pol::Any(ps) => ps.iter().any(|q| keeps_newest(q, now)),
        Pol::All(ps) => ps.iter().all(|q| keeps_newest(q, now)),
    }
}

/// what a reader at the newest timestamp sees for each key: `Some(value)` or nothing
fn current_values(es: &[E]) -> Vec<(Vec<u8>, Vec<u8>)> {
    let mut out: Vec<(Vec<u8>, Vec<u8>)> = vec![];
    let mut i = 0;
    while i < es.len() {
        if i == 0 || es[i - 1].key != es[i].key {
            if let Some(v) = &es[i].val {
                out.push((es[i].key.clone(), v.clone()));
            }
        }
        i += 1;
    }
    out
}

fn is_sublist(sub: &[(Vec<u8>, u64)], input: &[E]) -> bool {
    let mut j = 0;
    for e in input {
        if j < sub.len() && sub[j].0 == e.key && sub[j].1 == e.ts {
            j += 1;
        }
    }
    j == sub.len()
}

// ------------------------------------------------------------------------------------------------
// running the real code
// ------------------------------------------------------------------------------------------------

fn sst_options(rng: &mut Rng, target_file: u64, minimum_file: u64) -> SstOptions {
    let block = *rng.pick(&[1u64, 64, 256, 4096]);
    let restart = *rng.pick(&[1u64, 2, 16]);
    let args: Vec<String> = vec![
        "--target-block-size".into(),
        block.to_string(),
        "--target-file-size".into(),
        target_file.to_string(),
        "--minimum-file-size".into(),
        minimum_file.to_string(),
        "--block-key-value-pairs-restart-interval".into(),
        restart.to_string(),
    ];
    let argv: Vec<&str> = args.iter().map(|s| s.as_str()).collect();
    let (o, free) = <SstOptions as arrrg::CommandLine>::from_arguments_relaxed("x", &argv);
    assert!(free.is_empty(), "unparsed sst options: {:?}", free);
    o
}

fn err_code(e: &sst::SError) -> String {
    format!("error:{}", sst::error_code(e).unwrap_or("other"))
}

fn write_sst(opts: &SstOptions, path: &Path, es: &[E]) -> Result<Sst, String> {
    let mut b = SstBuilder::new(opts.clone(), path).map_err(|e| err_code(&e))?;
    for e in es {
        match &e.val {
            Some(v) => b.put(&e.key, e.ts, v),
            None => b.del(&e.key, e.ts),
        }
        .map_err(|e| err_code(&e))?;
    }
    b.seal().map_err(|e| err_code(&e))
}

fn read_all<C: Cursor>(c: &mut C) -> Result<Vec<E>, String> {
    c.seek_to_first().map_err(|e| err_code(&e))?;
    let mut out = vec![];
    loop {
        c.next().map_err(|e| err_code(&e))?;
        match c.key_value() {
            Some(kvr) => out.push(E { key: kvr.key.to_vec(), ts: kvr.timestamp, val: kvr.value.map(|v| v.to_vec()) }),
            None => break,
        }
    }
    Ok(out)
}

fn drain_collector<C: Cursor + 'static>(policy: &Gcp, cursor: C, now: u64) -> Result<Vec<(Vec<u8>, u64)>, String> {
    let mut gc = policy.collector(cursor, now).map_err(|e| err_code(&e))?;
    let mut out = vec![];
    let limit = 1_000_000;
    loop {
        match gc.next().map_err(|e| err_code(&e))? {
            Some(kr) => out.push((kr.key.to_vec(), kr.timestamp)),
            None => break,
        }
        if out.len() > limit {
            return Err("collector-does-not-terminate".into());
        }
    }
    Ok(out)
}

/// distribute a sorted run over `k` tables (each stays sorted)
fn distribute(rng: &mut Rng, run: &[E], k: usize) -> Vec<Vec<E>> {
    let mut ts: Vec<Vec<E>> = vec![vec![]; k];
    let mode = rng.below(3);
    for (i, e) in run.iter().enumerate() {
        let j = match mode {
            0 => rng.below(k as u64) as usize,
            1 => i % k,
            _ => (i * k) / run.len().max(1), // contiguous ranges (disjoint tables)
        };
        ts[j.min(k - 1)].push(e.clone());
    }
    ts
}

struct Pipeline {
    outputs: Vec<Vec<E>>,
    output_setsums: Vec<setsum::Setsum>,
    input_setsum: setsum::Setsum,
    discard: setsum::Setsum,
    hints_taken: usize,
}

/// `perform_compaction` / `perform_garbage_collection` of lsmtk/src/tree/mod.rs below the tree:
/// real SSTs → `MergingCursor<SstCursor>` → (`GarbageCollector` on a clone) → `SstMultiBuilder`
/// (split hints at the given merged positions) → the output SSTs read back.
fn pipeline(dir: &Path, opts: &SstOptions, tables: &[Vec<E>], gc: Option<(&Gcp, u64)>, hints: &[usize]) -> Result<Pipeline, String> {
    let _ = std::fs::remove_dir_all(dir);
    std::fs::create_dir_all(dir.join("out")).map_err(|e| e.to_string())?;
    let mut cursors: Vec<SstCursor> = vec![];
    let mut input_setsum = setsum::Setsum::default();
    for (i, t) in tables.iter().enumerate() {
        if t.is_empty() {
            continue; // an empty SST cannot be sealed; lsmtk never has one
        }
        let sst = write_sst(opts, &dir.join(format!("in{}.sst", i)), t)?;
        input_setsum += sst.fast_setsum().into_inner();
        cursors.push(sst.cursor());
    }
    let mut cursor = MergingCursor::new(cursors).map_err(|e| err_code(&e))?;
    cursor.seek_to_first().map_err(|e| err_code(&e))?;
    let mut collector = match gc {
        Some((policy, now)) => {
            let mut gc_cursor = cursor.clone();
            gc_cursor.next().map_err(|e| err_code(&e))?;
            Some(policy.collector(gc_cursor, now).map_err(|e| err_code(&e))?)
        }
        None => None,
    };
    let mut sstmb = SstMultiBuilder::new(dir.join("out"), ".sst".to_string(), opts.clone());
    let mut gc_next: Option<(Vec<u8>, u64)> = match collector.as_mut() {
        Some(c) => c.next().map_err(|e| err_code(&e))?.map(|kr| (kr.key.to_vec(), kr.timestamp)),
        None => None,
    };
    let mut discard = setsum::Setsum::default();
    let mut pos = 0usize;
    let mut hints_taken = 0usize;
    loop {
        cursor.next().map_err(|e| err_code(&e))?;
        let kvr = match cursor.key_value() {
            Some(v) => v,
            None => break,
        };
        let retain = if collector.is_some() {
            if let Some((k, t)) = &gc_next {
                match KeyRef::new(k, *t).cmp(&KeyRef::from(&kvr)) {
                    Ordering::Less => return Err("gc-iterator-out-of-sync".into()),
                    Ordering::Equal => {
                        gc_next = collector.as_mut().unwrap().next().map_err(|e| err_code(&e))?.map(|kr| (kr.key.to_vec(), kr.timestamp));
                        true
                    }
                    Ordering::Greater => false,
                }
            } else {
                false
            }
        } else {
            if hints.contains(&pos) {
                let before = sstmb.approximate_size();
                sstmb.split_hint().map_err(|e| err_code(&e))?;
                if before != 0 && sstmb.approximate_size() == 0 {
                    hints_taken += 1;
                }
            }
            true
        };
        if retain {
            match kvr.value {
                Some(v) => sstmb.put(kvr.key, kvr.timestamp, v),
                None => sstmb.del(kvr.key, kvr.timestamp),
            }
            .map_err(|e| err_code(&e))?;
        } else {
            let mut s = sst::Setsum::default();
            s.insert(kvr);
            discard += s.into_inner();
        }
        pos += 1;
    }
    drop(cursor);
    let paths: Vec<PathBuf> = sstmb.seal().map_err(|e| err_code(&e))?;
    let mut outputs = vec![];
    let mut output_setsums = vec![];
    for p in &paths {
        let sst = <Sst>::new(opts.clone(), p).map_err(|e| err_code(&e))?;
        output_setsums.push(sst.fast_setsum().into_inner());
        outputs.push(read_all(&mut sst.cursor())?);
    }
    let _ = std::fs::remove_dir_all(dir);
    Ok(Pipeline { outputs, output_setsums, input_setsum, discard, hints_taken })
}

// ------------------------------------------------------------------------------------------------
// streams
// ------------------------------------------------------------------------------------------------

const CURATED_POLICIES: [&str; 44] = [
    "",
    " ",
    "versions",
    "versions=",
    "versions = 0",
    "versions = 00",
    "versions = -1",
    "versions = - 1",
    "versions = +1",
    "versions = 18446744073709551615",
    "versions = 18446744073709551616",
    "ttl_micros = 18446744073709551615",
    "ttl_micros = 99999999999999999999999999",
    "ttl_micros=0",
    "ttl = 5",
    "Versions = 1",
    "versions == 1",
    "versions = 1,",
    "versions = 1 versions = 2",
    "versions = 1 x",
    "versions = 1\n",
    "\n\n versions\n=\n1x",
    "versions\u{a0}= 1",
    "versions = \u{ff11}",
    "versionsx = 1",
    "any()",
    "any(,)",
    "any(,,)",
    "any( , )",
    "all( )",
    "all()",
    "any",
    "any(",
    "any(versions = 1",
    "any (versions=1)",
    "any(versions = 1,,)",
    "any(versions = 1 , )",
    "any(versions = 1)x",
    "any(all(any()))",
    "any(foo)",
    "any(versions = 1, foo)",
    "all(any(), versions = -1)",
    "all(versions = 1\n, ttl_micros = 0)",
    "anyall(versions=1)",
];

fn record_parse(rec: &mut Recorder, text: &str, intended: Option<&Pol>, kind: &str) {
    let req = format!("gc parse {}", hex(text.as_bytes()));
    let t2 = text.to_string();
    let res = g(move || match Gcp::try_from(t2.as_str()) {
        Ok(p) => {
            // Display must re-parse to the same policy
            let shown = p.to_string();
            let again = Gcp::try_from(shown.as_str()).ok();
            (Ok(from_crate(&p)), again.as_ref().map(from_crate))
        }
        Err(e) => (Err(format!("{}", e)), None),
    });
    let expect = def_parse(text.as_bytes());
    rec.count(&format!("parse.{}", kind));
    let nt = Some(fnv(req.as_bytes()));
    match res {
        Err(m) => rec.case(&req, "panic", Verdict::Fail { class: "parse-panic".into(), detail: m }, nt),
        Ok((got, again)) => {
            let mut fails: Vec<String> = vec![];
            let obs = match &got {
                Ok(p) => {
                    rec.count("parse.accepted");
                    rec.count(&format!("parse.accepted.depth{}", depth(p).min(4)));
                    if has_empty_any(p) {
                        rec.count("parse.accepted.with_empty_any");
                    }
                    if again.as_ref() != Some(p) {
                        fails.push("display-does-not-reparse".into());
                    }
                    format!("ok {}", render_ast(p))
                }
                Err(msg) => {
                    rec.count("parse.rejected");
                    render_parse_error(msg)
                }
            };
            if got.as_ref().ok() != expect.as_ref() {
                fails.push(format!("grammar-says-{}", expect.as_ref().map(render_ast).unwrap_or("reject".into())));
            }
            if let Some(p) = intended {
                if got.as_ref().ok() != Some(p) {
                    fails.push(format!("generated-from-{}", render_ast(p)));
                }
            }
            let v = if fails.is_empty() { Verdict::Ok } else { Verdict::Fail { class: "policy-parser".into(), detail: fails.join(",") } };
            rec.case(&req, &obs, v, nt);
        }
    }
}

#[derive(Clone, Copy, PartialEq)]
enum Source {
    Reference,
    MergedReference,
    SstPipeline,
}

/// one `gc run` case: the policy text goes to both sides; the run is sorted.
fn record_gc_run(rec: &mut Recorder, rng: &mut Rng, tmp: &Path, pol: &Pol, text: &str, now: u64, run: &[E], source: Source, tag: &str) {
    let req = format!(
        "gc run {} {} {}",
        hex(text.as_bytes()),
        now,
        run.iter().map(|e| format!("{}:{}:{}", hex(&e.key), e.ts, if e.val.is_some() { "v" } else { "t" })).collect::<Vec<_>>().join(" ")
    );
    let req = req.trim_end().to_string();
    // the policy under test comes from the crate's own parser on the text
    let parsed = g(|| Gcp::try_from(text).ok());
    let policy = match parsed {
        Ok(Some(p)) if from_crate(&p) == *pol => p,
        _ => {
            rec.case(&req, "err-policy", Verdict::Fail { class: "policy-parser".into(), detail: format!("text of {} not parsed back", render_ast(pol)) }, None);
            return;
        }
    };
    let k = rng.range(1, 3) as usize;
    let tables = if source == Source::Reference { vec![run.to_vec()] } else { distribute(rng, run, k) };
    let mut pipe: Option<Pipeline> = None;
    let observed: Result<Result<Vec<(Vec<u8>, u64)>, String>, String> = match source {
        Source::Reference | Source::MergedReference => g(|| {
            let mut cursors: Vec<ReferenceCursor> = vec![];
            for t in &tables {
                let mut b = ReferenceBuilder::default();
                for e in t {
                    match &e.val {
                        Some(v) => b.put(&e.key, e.ts, v),
                        None => b.del(&e.key, e.ts),
                    }
                    .map_err(|e| err_code(&e))?;
                }
                cursors.push(b.seal().map_err(|e| err_code(&e))?.cursor());
            }
            if source == Source::Reference {
                let mut c = cursors.pop().unwrap();
                c.next().map_err(|e| err_code(&e))?;
                drain_collector(&policy, c, now)
            } else {
                let mut c = MergingCursor::new(cursors).map_err(|e| err_code(&e))?;
                c.seek_to_first().map_err(|e| err_code(&e))?;
                c.next().map_err(|e| err_code(&e))?;
                drain_collector(&policy, c, now)
            }
        }),
        Source::SstPipeline => {
            let tf = *rng.pick(&[1u64, 300, 400, 1 << 20]);
            let opts = sst_options(rng, tf, 0);
            let r = g(|| pipeline(tmp, &opts, &tables, Some((&policy, now)), &[]));
            match r {
                Err(m) => Err(m),
                Ok(Err(m)) => Ok(Err(m)),
                Ok(Ok(p)) => {
                    let kept: Vec<(Vec<u8>, u64)> = p.outputs.iter().flatten().map(|e| (e.key.clone(), e.ts)).collect();
                    pipe = Some(p);
                    Ok(Ok(kept))
                }
            }
        }
    };
    rec.count(&format!("gc.{}", tag));
    rec.count(match source {
        Source::Reference => "gc.source.reference_cursor",
        Source::MergedReference => "gc.source.merging_cursor_over_reference",
        Source::SstPipeline => "gc.source.sst_merge_gc_multibuilder_pipeline",
    });
    rec.add("gc.input_entries", run.len() as u64);
    rec.add("gc.input_tombstones", run.iter().filter(|e| e.val.is_none()).count() as u64);
    rec.count(&format!("gc.policy.depth{}", depth(pol).min(4)));
    if has_ttl(pol) {
        rec.count(if now == 0 { "gc.policy.with_ttl.now0" } else { "gc.policy.with_ttl.now_positive" });
    }
    if has_empty_any(pol) {
        rec.count("gc.policy.with_empty_any");
    }
    let kn = keeps_newest(pol, now);
    rec.count(if kn { "gc.policy.selects_newest_always" } else { "gc.policy.may_drop_newest" });
    let (obs, verdict, nontrivial) = match observed {
        Err(m) => ("panic".to_string(), Verdict::Fail { class: "gc-panic".into(), detail: m }, true),
        Ok(Err(m)) => (m.clone(), Verdict::Fail { class: "gc-error".into(), detail: m }, true),
        Ok(Ok(kept)) => {
            let obs = kept.iter().fold(String::from("kept"), |mut a, (k, t)| {
                a.push_str(&format!(" {}:{}", hex(k), t));
                a
            });
            rec.add("gc.kept_entries", kept.len() as u64);
            // ---- oracle: the definitional reading ------------------------------------------------
            let mut fails: Vec<(String, String)> = vec![];
            match definitional(pol, now, run) {
                Err(m) => fails.push(("oracle-inconsistent".into(), m)),
                Ok(keep) => {
                    let want: Vec<(Vec<u8>, u64)> = run.iter().zip(&keep).filter(|(_, k)| **k).map(|(e, _)| (e.key.clone(), e.ts)).collect();
                    if want != kept {
                        let want_s = want.iter().map(|(k, t)| format!("{}:{}", hex(k), t)).collect::<Vec<_>>().join(" ");
                        let dropped_too_much = want.iter().any(|w| !kept.contains(w));
                        fails.push((
                            if dropped_too_much { "gc-drops-what-policy-retains".into() } else { "gc-retains-what-policy-drops".into() },
                            format!("definition keeps [{}]", want_s),
                        ));
                    }
                    if let Some(p) = &pipe {
                        // discard setsum = Σ framing(dropped); balance input = outputs + discard
                        let dropped: Vec<E> = run.iter().zip(&keep).filter(|(_, k)| !**k).map(|(e, _)| e.clone()).collect();
                        if setsum_of(&dropped) != p.discard {
                            fails.push(("discard-setsum".into(), "discard setsum is not the sum of the framings of the dropped entries".into()));
                        }
                        let mut outs = setsum::Setsum::default();
                        for s in &p.output_setsums {
                            outs += *s;
                        }
                        if p.input_setsum != outs + p.discard {
                            fails.push(("setsum-balance".into(), "inputs != outputs + discard".into()));
                        }
                        if p.input_setsum != setsum_of(run) {
                            fails.push(("setsum-balance".into(), "input setsum differs from the framing definition".into()));
                        }
                        // the output files hold exactly the retained entries, with their values
                        let want_e: Vec<E> = run.iter().zip(&keep).filter(|(_, k)| **k).map(|(e, _)| e.clone()).collect();
                        let got_e: Vec<E> = p.outputs.iter().flatten().cloned().collect();
                        if want == kept && want_e != got_e {
                            fails.push(("gc-output-values".into(), "retained entries changed value".into()));
                        }
                        rec.add("gc.pipeline.output_files", p.outputs.len() as u64);
                    }
                    if keep.iter().any(|k| !*k) {
                        rec.count("gc.something_dropped");
                    }
                }
            }
            if !is_sublist(&kept, run) {
                fails.push(("gc-output-not-sublist".into(), "output is not a sub-list of the input".into()));
            }
            // the entry that decides the current value of a key
            let kept_e: Vec<E> = run.iter().filter(|e| kept.contains(&(e.key.clone(), e.ts))).cloned().collect();
            let cur_changed = current_values(run) != current_values(&kept_e);
            if cur_changed {
                if kn {
                    fails.push(("current-value-dropped".into(), "a reader at the newest timestamp sees something else after GC".into()));
                } else {
                    rec.count("gc.current_value_dropped_as_policy_says");
                    if has_empty_any(pol) && !has_ttl(pol) {
                        rec.count("gc.current_value_dropped_by_empty_any");
                    }
                }
            }
            let nontrivial = run.len() >= 2 && (run.iter().any(|e| e.val.is_none()) || kept.len() < run.len());
            let v = match fails.first() {
                None => Verdict::Ok,
                Some((c, _)) => Verdict::Fail { class: c.clone(), detail: fails.iter().map(|(c, d)| format!("{}: {}", c, d)).collect::<Vec<_>>().join("; ") },
            };
            (obs, v, nontrivial)
        }
    };
    rec.case(&req, &obs, verdict, if nontrivial { Some(fnv(req.as_bytes())) } else { None });
}

fn fixed_policies() -> Vec<(Pol, u64)> {
    use Pol::*;
    vec![
        (V(1), 0),
        (V(2), 0),
        (V(3), 0),
        (V(4), 0),
        (T(3), 0),
        (T(3), 6),
        (T(1), 4),
        (Any(vec![V(1), T(2)]), 5),
        (All(vec![V(2), T(2)]), 5),
        (All(vec![V(3), Any(vec![V(1), T(3)])]), 6),
        (Any(vec![]), 0),
        (All(vec![]), 0),
        (Any(vec![All(vec![V(2), T(1)]), All(vec![V(1)])]), 4),
        (All(vec![V(2), V(3), Any(vec![])]), 0),
        (Any(vec![V(2), V(2)]), 0),
        (T(2), u64::MAX),
    ]
}

pub fn run_gc_streams(rec: &mut Recorder, args: &Args) {
    let tmp = PathBuf::from(&args.out).join("tmp");
    // ---- stream 10: policy texts (curated + generated valid + mutated) ---------------------------
    let n_parse = if args.thorough { 6000 } else { 700 };
    for i in 0..n_parse {
        if !rec.wants() {
            rec.skip();
            continue;
        }
        let mut rng = Rng::for_case(args.seed, 10, i);
        if (i as usize) < CURATED_POLICIES.len() {
            record_parse(rec, CURATED_POLICIES[i as usize], None, "curated");
            continue;
        }
        let pol = gen_pol(&mut rng, 3);
        let style = rng.below(3);
        let mut text = String::new();
        to_text(&mut rng, &pol, style, &mut text);
        if rng.chance(1, 2) {
            record_parse(rec, &text, Some(&pol), "valid");
        } else {
            // mutate: delete / insert / replace / truncate / duplicate a slice
            let mut cs: Vec<char> = text.chars().collect();
            let nmut = rng.range(1, 2);
            for _ in 0..nmut {
                let alphabet = ['(', ')', '=', ',', '-', ' ', '0', '1', '9', 'v', 'a', 'l', 'x', '\n', '_'];
                match rng.below(5) {
                    0 if !cs.is_empty() => {
                        let k = rng.below(cs.len() as u64) as usize;
                        cs.remove(k);
                    }
                    1 => {
                        let k = rng.below(cs.len() as u64 + 1) as usize;
                        cs.insert(k, *rng.pick(&alphabet));
                    }
                    2 if !cs.is_empty() => {
                        let k = rng.below(cs.len() as u64) as usize;
                        cs[k] = *rng.pick(&alphabet);
                    }
                    3 => {
                        let k = rng.below(cs.len() as u64 + 1) as usize;
                        cs.truncate(k);
                    }
                    _ if !cs.is_empty() => {
                        let a = rng.below(cs.len() as u64) as usize;
                        let b = a + rng.below((cs.len() - a) as u64 + 1) as usize;
                        let slice: Vec<char> = cs[a..b].to_vec();
                        for (j, c) in slice.into_iter().enumerate() {
                            cs.insert(b + j, c);
                        }
                    }
                    _ => {}
                }
            }
            let t2: String = cs.into_iter().collect();
            record_parse(rec, &t2, None, "mutated");
        }
    }

    // ---- stream 11: every value/tombstone pattern of one key, a fixed set of policies ------------
    // (followed by a second key, so that state carried across a key change is seen)
    let max_len = if args.thorough { 7 } else { 5 };
    let pols = fixed_policies();
    let mut idx = 0u64;
    for len in 0..=max_len {
        for pattern in 0..(1u32 << len) {
            for (pi, (pol, now)) in pols.iter().enumerate() {
                let i = idx;
                idx += 1;
                if !rec.wants() {
                    rec.skip();
                    continue;
                }
                let mut rng = Rng::for_case(args.seed, 11, i);
                let mut run: Vec<E> = vec![];
                for j in 0..len {
                    let tomb = (pattern >> j) & 1 == 1;
                    run.push(E { key: b"k".to_vec(), ts: (len - j) as u64, val: if tomb { None } else { Some(vec![j as u8]) } });
                }
                // the follower key: [], [V], [T,V] or [T]
                match (pattern as usize + pi + len) % 4 {
                    0 => {}
                    1 => run.push(E { key: b"l".to_vec(), ts: 9, val: Some(b"w".to_vec()) }),
                    2 => {
                        run.push(E { key: b"l".to_vec(), ts: 9, val: None });
                        run.push(E { key: b"l".to_vec(), ts: 2, val: Some(b"w".to_vec()) });
                    }
                    _ => run.push(E { key: b"l".to_vec(), ts: 9, val: None }),
                }
                let mut text = String::new();
                to_text(&mut rng, pol, 1, &mut text);
                let source = if i % 9 == 4 { Source::SstPipeline } else if i % 3 == 1 { Source::MergedReference } else { Source::Reference };
                record_gc_run(rec, &mut rng, &tmp, pol, &text, *now, &run, source, "exhaustive_patterns");
            }
        }
    }

    // ---- stream 12: random policies over several keys ----------------------------------------------
    let n_rand = if args.thorough { 12000 } else { 1200 };
    for i in 0..n_rand {
        if !rec.wants() {
            rec.skip();
            continue;
        }
        let mut rng = Rng::for_case(args.seed, 12, i);
        let pol = if rng.chance(1, 4) { Pol::V(rng.range(1, 4)) } else { gen_pol(&mut rng, 3) };
        let style = rng.below(3);
        let mut text = String::new();
        to_text(&mut rng, &pol, style, &mut text);
        let source = match rng.below(6) {
            0 => Source::SstPipeline,
            1 | 2 => Source::MergedReference,
            _ => Source::Reference,
        };
        let now = match rng.below(6) {
            0 | 1 | 2 => 0, // what lsmtk passes
            3 => rng.below(12),
            4 => rng.range(10, 50),
            _ => u64::MAX,
        };
        let nkeys = if i == 0 { 0 } else { rng.range(1, 4) as usize };
        let run = gen_run(&mut rng, nkeys, 6, 10, source == Source::SstPipeline);
        record_gc_run(rec, &mut rng, &tmp, &pol, &text, now, &run, source, "random");
    }

    // ---- stream 13: merge → multi-builder → split (a compaction that is not a GC) -------------------
    let n_split = if args.thorough { 3000 } else { 400 };
    for i in 0..n_split {
        if !rec.wants() {
            rec.skip();
            continue;
        }
        let mut rng = Rng::for_case(args.seed, 13, i);
        let nkeys = rng.range(1, 6) as usize;
        let run = gen_run(&mut rng, nkeys, 7, 30, true);
        let k = rng.range(1, 4) as usize;
        let tables = distribute(&mut rng, &run, k);
        // sizes: a fresh builder reports ~170 bytes; entries add ~10..80 bytes each
        let target = match rng.below(12) {
            0 => 0,
            1 => 1,
            2 | 3 => rng.range(200, 260),
            4 | 5 | 6 => rng.range(260, 400),
            7 | 8 => rng.range(400, 900),
            9 => rng.range(900, 2500),
            _ => 1 << 20,
        };
        let minimum = match rng.below(4) {
            0 => 0,
            1 => rng.range(180, 260),
            2 => rng.range(260, 500),
            _ => 1 << 20,
        };
        let opts = sst_options(&mut rng, target, minimum);
        // split hints: at key changes (what lsmtk's SplitHint does) and, rarely, inside a key
        let mut hints: Vec<usize> = vec![];
        for p in 1..run.len() {
            let key_change = run[p - 1].key != run[p].key;
            if (key_change && rng.chance(1, 2)) || (!key_change && rng.chance(1, 8)) {
                hints.push(p);
            }
        }
        let res = g(|| pipeline(&tmp, &opts, &tables, None, &hints));
        rec.count("split");
        rec.add("split.input_tables", tables.len() as u64);
        rec.add("split.input_entries", run.len() as u64);
        rec.add("split.hints_given", hints.len() as u64);
        let table_toks = tables.iter().map(|t| tok_table(t)).collect::<Vec<_>>().join(" ");
        match res {
            Err(m) => {
                let req = format!("split cut - {}", table_toks);
                rec.case(&req, "panic", Verdict::Fail { class: "split-panic".into(), detail: m }, Some(fnv(req.as_bytes())));
            }
            Ok(Err(m)) => {
                let req = format!("split cut - {}", table_toks);
                rec.case(&req, &m, Verdict::Fail { class: "split-error".into(), detail: m.clone() }, Some(fnv(req.as_bytes())));
            }
            Ok(Ok(p)) => {
                let cuts: Vec<String> = p.outputs.iter().map(|o| o.len().to_string()).collect();
                let req = format!("split cut {} {}", if cuts.is_empty() { "-".to_string() } else { cuts.join(",") }, table_toks);
                let obs = p.outputs.iter().fold(String::from("files"), |mut a, o| {
                    a.push(' ');
                    a.push_str(&tok_table(o));
                    a
                });
                // ---- oracle, directly on what was read back ----------------------------------------
                let mut fails: Vec<String> = vec![];
                let mut all_in: Vec<E> = tables.iter().flatten().cloned().collect();
                let mut all_out: Vec<E> = p.outputs.iter().flatten().cloned().collect();
                all_in.sort_by(|a, b| cmp_e(a, b).then(a.val.cmp(&b.val)));
                all_out.sort_by(|a, b| cmp_e(a, b).then(a.val.cmp(&b.val)));
                if all_in != all_out {
                    fails.push("multiset-of-entries-changed".into());
                }
                let mut straddle = 0;
                for (j, o) in p.outputs.iter().enumerate() {
                    if o.is_empty() {
                        fails.push("empty-output-file".into());
                    }
                    if !o.windows(2).all(|w| cmp_e(&w[0], &w[1]) == Ordering::Less) {
                        fails.push("output-not-sorted".into());
                    }
                    if j > 0 {
                        if let (Some(a), Some(b)) = (p.outputs[j - 1].last(), o.first()) {
                            if cmp_e(a, b) != Ordering::Less {
                                fails.push("output-ranges-not-ordered".into());
                            }
                            if a.key == b.key {
                                straddle += 1;
                            }
                        }
                    }
                    if setsum_of(o) != p.output_setsums[j] {
                        fails.push("output-setsum-differs-from-content".into());
                    }
                }
                let mut outs = setsum::Setsum::default();
                for s in &p.output_setsums {
                    outs += *s;
                }
                if outs != p.input_setsum || p.discard != setsum::Setsum::default() {
                    fails.push("setsum-balance".into());
                }
                rec.add("split.output_files", p.outputs.len() as u64);
                rec.add("split.hints_taken", p.hints_taken as u64);
                if straddle > 0 {
                    rec.count("split.key_straddles_two_files");
                }
                if p.outputs.len() >= 2 {
                    rec.count("split.two_or_more_outputs");
                }
                let v = if fails.is_empty() { Verdict::Ok } else { Verdict::Fail { class: "split-conservation".into(), detail: fails.join(",") } };
                let nt = if p.outputs.len() >= 2 { Some(fnv(req.as_bytes())) } else { None };
                rec.case(&req, &obs, v, nt);
            }
        }
    }
    let _ = std::fs::remove_dir_all(&tmp);
}

pub const RULE: &str = "gc parse: curated + generated (depth<=3, random white space, leading zeros, trailing commas) + mutated policy texts, every one non-trivial; gc run: every value/tombstone pattern of one key up to length 5 (7 thorough) x 16 fixed policies with a follower key, plus random policies (versions/ttl/any/all nesting, now in {0, small, large, u64::MAX}) over 1-4 keys of an 8-key alphabet incl. the empty key, through ReferenceCursor / MergingCursor / real SSTs + lsmtk's GC loop + SstMultiBuilder; non-trivial = >= 2 input entries and (a tombstone present or something dropped); split: 1-4 sorted SSTs -> MergingCursor -> SstMultiBuilder with target/minimum file sizes from 0 to 1MiB and split hints at and inside keys; non-trivial = >= 2 output files; distinct by request text";

/// Tree-level half: every compaction the real selector chooses in single-stepped store histories.
/// The inputs are read from the state the compaction was chosen in, the outputs from the state
/// after it (full multi-version dumps of the live SSTs).
///  * not a garbage collection (output level above the last): the multiset of
///    (key, timestamp, value | tombstone) entries of the tree is unchanged; the observed output
///    files are the model's merged input list cut at the observed cut points (`split cut`);
///  * garbage collection (output level = last level): the retained entries are what the Lean
///    collector model keeps for the configured `versions = N` policy (`gc run`), and what the
///    definitional reading of the policy permits; the current value of no key changes.
pub fn run_tree_streams(rec: &mut Recorder, args: &Args) {
    use crate::store::*;
    let (nh, len) = if args.thorough { (160, 110) } else { (40, 70) };
    for h in 0..nh {
        if !rec.wants() {
            // histories produce a variable number of cases; replay of one tree case reruns all
        }
        let mut rng = Rng::for_case(args.seed, 105, h);
        let mut cfg = Cfg::gen(&mut rng);
        cfg.target_file = *rng.pick(&[128, 256, 4096]);
        cfg.min_file = 64;
        let nkeys = if h % 2 == 0 { 5 } else { 9 };
        // mode 1: flush-heavy with compaction bursts, so that merges and last-level GCs happen
        let ops = gen_history(&mut rng, len * 3, nkeys, 1);
        let root = scratch_dir(&format!("c05.{}", h));
        let Ok(mut sim) = Sim::open(&root, &cfg) else { continue };
        let mut taint: Option<String> = None;
        for (step, op) in ops.iter().enumerate() {
            if let Op::Reopen = op {
                if taint.is_none() {
                    if let Ok(d) = sim.dump() {
                        if crate::c01::d9_trigger(&d) {
                            taint = Some("reopen-with-key-and-timestamp-overlapping-files".to_string());
                        }
                    }
                }
            }
            if let Op::Verify = op {
                continue;
            }
            let r = match guarded(std::panic::AssertUnwindSafe(|| sim.apply(op))) {
                Ok(r) => r,
                Err(p) => Err(format!("panic:{}", p)),
            };
            if r.is_err() {
                break;
            }
            let chosen = std::mem::take(&mut sim.chosen);
            if chosen.is_empty() {
                continue;
            }
            // only the last chosen compaction of this op has the current state as its "after"
            let (before, c) = chosen.last().unwrap();
            if chosen.len() > 1 || c.inputs.len() < 2 {
                if c.inputs.len() < 2 {
                    rec.count("tree.trivial_moves");
                }
                continue;
            }
            let Ok(after) = sim.dump() else { break };
            let tag = format!("h{}s{}:{} levels {}->{}", h, step, op.render(), c.lower_level, c.upper_level);
            let ids: Vec<[u8; 32]> = c.inputs.clone();
            let files_before: Vec<&FileDump> = before.levels.iter().flat_map(|l| l.iter()).collect();
            let files_after: Vec<&FileDump> = after.levels.iter().flat_map(|l| l.iter()).collect();
            let inputs: Vec<&FileDump> = files_before.iter().filter(|f| ids.contains(&f.setsum)).cloned().collect();
            let kept_ids: Vec<[u8; 32]> = files_before.iter().filter(|f| !ids.contains(&f.setsum)).map(|f| f.setsum).collect();
            let outputs: Vec<&FileDump> = after.levels[c.upper_level].iter().filter(|f| !kept_ids.contains(&f.setsum) || ids.contains(&f.setsum)).collect();
            let to_e = |f: &FileDump| -> Vec<E> { f.entries.iter().map(|(k, t, v)| E { key: k.clone(), ts: *t, val: v.clone() }).collect() };
            let mut all_in: Vec<E> = inputs.iter().flat_map(|f| to_e(f)).collect();
            all_in.sort_by(cmp_e);
            let out_tables: Vec<Vec<E>> = outputs.iter().map(|f| to_e(f)).collect();
            let all_out: Vec<E> = out_tables.iter().flatten().cloned().collect();
            // whole-tree multisets
            let mut tree_before: Vec<E> = files_before.iter().flat_map(|f| to_e(f)).collect();
            let mut tree_after: Vec<E> = files_after.iter().flat_map(|f| to_e(f)).collect();
            tree_before.sort_by(cmp_e);
            tree_after.sort_by(cmp_e);
            let is_gc = c.upper_level == lsmtk::NUM_LEVELS - 1;
            let mut bad = vec![];
            let class;
            let req;
            let obs;
            if !is_gc {
                class = "compaction-changed-the-set-of-versions";
                if tree_before != tree_after {
                    bad.push(format!("multiset of entries changed: {} before, {} after", tree_before.len(), tree_after.len()));
                }
                for t in &out_tables {
                    if t.windows(2).any(|w| cmp_e(&w[0], &w[1]) != Ordering::Less) {
                        bad.push("an output file is not strictly sorted".to_string());
                    }
                }
                // the model's `cut` takes the piece lengths
                let cuts: Vec<String> = out_tables.iter().map(|t| t.len().to_string()).collect();
                let in_tables: Vec<Vec<E>> = inputs.iter().map(|f| to_e(f)).collect();
                req = format!("split cut {} {}", if cuts.is_empty() { "-".to_string() } else { cuts.join(",") }, in_tables.iter().map(|t| tok_table(t)).collect::<Vec<_>>().join(" "));
                obs = out_tables.iter().fold("files".to_string(), |a, t| a + " " + &tok_table(t));
                rec.count("tree.merges");
                if out_tables.len() >= 2 {
                    rec.count("tree.merges_with_split_output");
                }
            } else {
                class = "gc-dropped-what-policy-does-not-permit";
                let pol = Pol::V(cfg.gc_versions);
                let text = format!("versions = {}", cfg.gc_versions);
                match definitional(&pol, 0, &all_in) {
                    Ok(keep) => {
                        let want: Vec<E> = all_in.iter().zip(keep.iter()).filter(|(_, k)| **k).map(|(e, _)| e.clone()).collect();
                        if want != all_out {
                            bad.push(format!("retained {} entries, the policy's definitional reading retains {}", all_out.len(), want.len()));
                        }
                    }
                    Err(e) => bad.push(e),
                }
                if current_values(&tree_before) != current_values(&tree_after) {
                    bad.push("the current value of some key changed".to_string());
                }
                // nothing outside the compaction's inputs may change
                let rest_before: Vec<E> = { let mut v: Vec<E> = files_before.iter().filter(|f| !ids.contains(&f.setsum)).flat_map(|f| to_e(f)).collect(); v.sort_by(cmp_e); v };
                let rest_after: Vec<E> = { let out_ids: Vec<[u8; 32]> = outputs.iter().map(|f| f.setsum).collect(); let mut v: Vec<E> = files_after.iter().filter(|f| !out_ids.contains(&f.setsum)).flat_map(|f| to_e(f)).collect(); v.sort_by(cmp_e); v };
                if rest_before != rest_after {
                    bad.push("entries outside the compaction's inputs changed".to_string());
                }
                req = format!("gc run {} 0 {}", hex(text.as_bytes()), all_in.iter().map(|e| format!("{}:{}:{}", hex(&e.key), e.ts, if e.val.is_some() { "v" } else { "t" })).collect::<Vec<_>>().join(" "));
                obs = all_out.iter().fold("kept".to_string(), |a, e| a + " " + &hex(&e.key) + ":" + &e.ts.to_string());
                rec.count("tree.gcs");
                if all_out.len() < all_in.len() {
                    rec.count("tree.gcs_that_dropped_something");
                }
            }
            let v = if bad.is_empty() {
                match &taint {
                    Some(c) => Verdict::Taint { class: c.clone() },
                    None => Verdict::Ok,
                }
            } else {
                Verdict::Fail { class: taint.clone().unwrap_or_else(|| class.to_string()), detail: format!("{} {}", tag, bad.join("; ")) }
            };
            rec.case(&req, &obs, v, Some(fnv(req.as_bytes())));
        }
        sim.close();
    }
}

pub fn run(args: &Args) {
    let mut rec = Recorder::new(&args.out, args.only_case);
    run_gc_streams(&mut rec, args);
    run_tree_streams(&mut rec, args);
    rec.finish(&format!("{}; tree: every multi-input compaction the real selector chooses in single-stepped flush-heavy store histories — merges: whole-tree multiset of versions unchanged + observed output files = model's merged list cut at the observed points; last-level GCs: retained entries = Lean collector model = definitional reading of versions=N, current values unchanged; every one non-trivial", RULE), &[]);
}
