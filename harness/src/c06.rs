//! C06 — concurrent reads/writes are linearizable; batches become visible atomically.
//!
//! N client threads put / delete / write multi-key batches / load / scan against ONE real
//! `KeyValueStore` while a flush thread (`memtable_thread`) and 1..K compaction threads
//! (`compaction_thread`) run.  The `lsmtk::verif` event hooks (/repo commit e3208be) record,
//! in one global order, every critical section of `write`, `load`, `range_scan` and
//! `_memtable_thread`; the harness adds invocation / response events of the client operations to
//! the same log, so the log order is the global logical clock.
//!
//! * correspondence: the recorded trace is sent to the Lean driver (`kvsw`), which replays it
//!   through `Blue.KvsConc.step` (every event must be enabled) and computes what every read must
//!   return from its snapshot; that is compared with what the real reads returned.
//! * oracle (no model): per-key linearizability of the recorded history with the write order given
//!   by the sequence numbers, and batch atomicity of every scan.
//!
//! The background loops are the real ones, polled: `set_single_step` makes them return to the
//! caller where they would sleep on their condition variable, and the harness calls them again.
//! In half of the random runs scans are kept apart from the two moments at which the resources an
//! open cursor points into are released (the memtable dropped after `imm = None` — D-4; files
//! renamed to trash after a compaction — D-5; both repaired since, cursor lifetime is C07's); in
//! the other half they overlap them.
//!
//! Writes that FAIL are client operations too: the empty batch (the log refuses it, `empty-batch`) and
//! a batch whose last entry has an over-long key or value (`key-too-large` / `value-too-large`), both
//! refused after the write has taken its sequence number and its place in the wait list.  The hooks
//! of /repo commit f09c928 record where such a write fails and where it leaves
//! the list (`kvs.write.abandon[.locked]` = the model's `wFail`); the oracle asks that it returns
//! that error, that nothing of it is ever read, and that every other operation obeys the same
//! rules as without it.  Directed: a failing write queued behind a batch parked between two of its
//! inserts, readers in the window; a failing write parked AT THE HEAD of the list with two writers
//! asleep behind it.  A run whose clients stop making progress is cut off and classified from the
//! event log (`write-failed-at-head-with-successor-waiting`: the head of the wait list sleeps
//! because the write that left before it failed and woke nobody).
//!
//! A reader's clone of the tree version (`tree.snapshot`, /repo commit fe9fe14) is a
//! step of its own in the trace and in the model.  The code makes it inside the critical section in
//! which it takes mem / imm; the driver checks that no step needing the store mutex falls between
//! the two events of one reader (`stuck@i:tree-snapshot-outside-lock`).  Schedules open that window:
//! a directed one parks a reader right after its clone while the flush thread installs its version
//! and clears `imm` (bounded wait — with the clone under the mutex the flush thread has to wait
//! instead), and in random runs such a reader lingers while a flush is under way.
use crate::common::*;
use crate::store::{scratch_dir, Cfg};
use lsmtk::KeyValueStore;
use sst::Cursor;
use std::cell::RefCell;
use std::collections::{BTreeMap, BTreeSet, HashMap};
use std::ops::Bound;
use std::panic::AssertUnwindSafe;
use std::sync::atomic::{AtomicBool, Ordering};
use std::sync::{Arc, Condvar, Mutex};
use std::time::{Duration, Instant};

const D6: &str = "snapshot-while-batch-mid-insert";
const D16: &str = "duplicate-key-in-batch";
/// a write fails while it is the head of the wait list and the ticket behind it has already gone to
/// sleep (`naked_wait`): as found nobody wakes that ticket
const LOST_HANDOFF: &str = "write-failed-at-head-with-successor-waiting";

/// sorted (byte order) key alphabet; a case uses a sorted subset and names keys by their index
const KEYS: [&[u8]; 10] = [b"", b"a", b"a\0", b"aa", b"ab", b"b", b"b\xff", b"m", b"z", b"\xff"];

// ===================================================================== gate, schedule, hook =====

/// FIFO-fair readers/writer gate: scans are readers; the flush thread between "about to clear
/// imm" and "memtable dropped", and every compaction step, are writers.
struct Gate {
    /// off: every call is a no-op (runs in which scans may overlap the release of the memtable
    /// and of compacted files — safe since the D-4 and D-5 repairs)
    on: bool,
    m: Mutex<GateSt>,
    cv: Condvar,
}
#[derive(Default)]
struct GateSt {
    next: u64,
    serving: u64,
    readers: u64,
    writer: bool,
}
impl Gate {
    fn new(on: bool) -> Gate {
        Gate { on, m: Mutex::new(GateSt::default()), cv: Condvar::new() }
    }
    fn read_lock(&self) {
        if !self.on {
            return;
        }
        let mut g = self.m.lock().unwrap();
        let t = g.next;
        g.next += 1;
        while g.serving != t || g.writer {
            g = self.cv.wait(g).unwrap();
        }
        g.readers += 1;
        g.serving += 1;
        self.cv.notify_all();
    }
    fn read_unlock(&self) {
        if !self.on {
            return;
        }
        let mut g = self.m.lock().unwrap();
        g.readers -= 1;
        self.cv.notify_all();
    }
    fn write_lock(&self) {
        if !self.on {
            return;
        }
        let mut g = self.m.lock().unwrap();
        let t = g.next;
        g.next += 1;
        while g.serving != t || g.writer || g.readers > 0 {
            g = self.cv.wait(g).unwrap();
        }
        g.writer = true;
        g.serving += 1;
        self.cv.notify_all();
    }
    fn write_unlock(&self) {
        if !self.on {
            return;
        }
        let mut g = self.m.lock().unwrap();
        g.writer = false;
        self.cv.notify_all();
    }
}

const ROLE_CLIENT: u64 = 0;
const ROLE_FLUSH: u64 = 1;
const ANY: u64 = u64::MAX;

/// a point at which a directed schedule parks the thread that reaches it
struct Block {
    tag: &'static str,
    a0: u64, // u64::MAX = any
    a1: u64,
    role: u64, // u64::MAX = any thread
    hit: bool,
    open: bool,
}

#[derive(Default)]
struct DirSt {
    blocks: Vec<Block>,
    passed: Vec<(&'static str, [u64; 3])>,
}

struct Sched {
    gate: Gate,
    directed: bool,
    /// the flush thread is between passing the wait list and `imm = None` (random runs: a reader
    /// that has just cloned its tree version lingers while this is set, see `pause_hook`)
    flush_busy: AtomicBool,
    dir: Mutex<DirSt>,
    dir_cv: Condvar,
}

impl Sched {
    fn new(directed: bool, gated: bool) -> Arc<Sched> {
        Arc::new(Sched { gate: Gate::new(gated), directed, flush_busy: AtomicBool::new(false), dir: Mutex::new(DirSt::default()), dir_cv: Condvar::new() })
    }
    fn block(&self, tag: &'static str, a0: u64, a1: u64) -> usize {
        self.block_role(tag, a0, a1, ANY)
    }
    fn block_role(&self, tag: &'static str, a0: u64, a1: u64, role: u64) -> usize {
        let mut d = self.dir.lock().unwrap();
        d.blocks.push(Block { tag, a0, a1, role, hit: false, open: false });
        d.blocks.len() - 1
    }
    /// has some thread passed `tag` — waiting at most `patience` for it
    fn wait_passed_for(&self, tag: &str, patience: Duration) -> bool {
        let deadline = Instant::now() + patience;
        let mut d = self.dir.lock().unwrap();
        while !d.passed.iter().any(|p| p.0 == tag) {
            let left = deadline.saturating_duration_since(Instant::now());
            if left.is_zero() {
                return false;
            }
            d = self.dir_cv.wait_timeout(d, left).unwrap().0;
        }
        true
    }
    fn wait_hit(&self, i: usize) -> bool {
        let deadline = Instant::now() + Duration::from_secs(30);
        let mut d = self.dir.lock().unwrap();
        while !d.blocks[i].hit {
            let left = deadline.saturating_duration_since(Instant::now());
            if left.is_zero() {
                return false;
            }
            d = self.dir_cv.wait_timeout(d, left).unwrap().0;
        }
        true
    }
    fn wait_passed(&self, tag: &str, a0: Option<u64>) -> bool {
        let deadline = Instant::now() + Duration::from_secs(30);
        let mut d = self.dir.lock().unwrap();
        while !d.passed.iter().any(|p| p.0 == tag && a0.map(|a| p.1[0] == a).unwrap_or(true)) {
            let left = deadline.saturating_duration_since(Instant::now());
            if left.is_zero() {
                return false;
            }
            d = self.dir_cv.wait_timeout(d, left).unwrap().0;
        }
        true
    }
    fn release(&self, i: usize) {
        let mut d = self.dir.lock().unwrap();
        d.blocks[i].open = true;
        self.dir_cv.notify_all();
    }
    fn passed_len(&self) -> usize {
        self.dir.lock().unwrap().passed.len()
    }
    /// at least `n` points with one of `tags` have been passed since position `from` — waiting at
    /// most `patience` for it
    fn wait_passed_since(&self, from: usize, tags: &[&str], n: usize, patience: Duration) -> bool {
        let deadline = Instant::now() + patience;
        let mut d = self.dir.lock().unwrap();
        while d.passed.iter().skip(from).filter(|p| tags.contains(&p.0)).count() < n {
            let left = deadline.saturating_duration_since(Instant::now());
            if left.is_zero() {
                return false;
            }
            d = self.dir_cv.wait_timeout(d, left).unwrap().0;
        }
        true
    }
    fn release_all(&self) {
        let mut d = self.dir.lock().unwrap();
        for b in d.blocks.iter_mut() {
            b.open = true;
        }
        self.dir_cv.notify_all();
    }
}

struct ThreadCtx {
    sched: Arc<Sched>,
    rng: Rng,
    /// 0 = never yield at a pause point … 3 = often
    level: u64,
    role: u64,
    holds_gate: bool,
}

thread_local! {
    static TL: RefCell<Option<ThreadCtx>> = const { RefCell::new(None) };
}

fn enter_thread(sched: &Arc<Sched>, rng: Rng, level: u64) {
    enter_thread_as(sched, rng, level, ROLE_CLIENT)
}

fn enter_thread_as(sched: &Arc<Sched>, rng: Rng, level: u64, role: u64) {
    TL.with(|t| *t.borrow_mut() = Some(ThreadCtx { sched: Arc::clone(sched), rng, level, role, holds_gate: false }));
}

fn leave_thread() {
    release_gate_if_held();
    TL.with(|t| *t.borrow_mut() = None);
}

fn release_gate_if_held() {
    TL.with(|t| {
        if let Some(ctx) = t.borrow_mut().as_mut() {
            if ctx.holds_gate {
                ctx.holds_gate = false;
                ctx.sched.gate.write_unlock();
            }
        }
    });
}

/// what runs at every `lsmtk::verif::pause` / `point` on the thread that reaches it
fn pause_hook(tag: &'static str, args: [u64; 3]) {
    TL.with(|t| {
        let mut b = t.borrow_mut();
        let Some(ctx) = b.as_mut() else { return };
        match tag {
            "kvs.flush.preclear" => {
                if !ctx.holds_gate {
                    ctx.sched.gate.write_lock();
                    ctx.holds_gate = true;
                }
            }
            "kvs.flush.loop" => {
                if ctx.holds_gate {
                    ctx.holds_gate = false;
                    ctx.sched.gate.write_unlock();
                }
            }
            "kvs.flush.head.locked" => ctx.sched.flush_busy.store(true, Ordering::SeqCst),
            "kvs.flush.cleared.locked" => ctx.sched.flush_busy.store(false, Ordering::SeqCst),
            // only a reader's clone of the tree version is a scheduling point; the flush and
            // compaction threads clone it too (under the tree's own mutexes)
            "tree.snapshot" if ctx.role != ROLE_CLIENT && !ctx.sched.directed => return,
            _ => {}
        }
        let locked = tag.ends_with(".locked");
        if ctx.sched.directed {
            let mut d = ctx.sched.dir.lock().unwrap();
            d.passed.push((tag, args));
            ctx.sched.dir_cv.notify_all();
            if !locked {
                let hit = d.blocks.iter().position(|bl| !bl.open && !bl.hit && bl.tag == tag && (bl.role == ANY || bl.role == ctx.role) && (bl.a0 == u64::MAX || bl.a0 == args[0]) && (bl.a1 == u64::MAX || bl.a1 == args[1]));
                if let Some(i) = hit {
                    d.blocks[i].hit = true;
                    ctx.sched.dir_cv.notify_all();
                    while !d.blocks[i].open {
                        d = ctx.sched.dir_cv.wait(d).unwrap();
                    }
                }
            }
            return;
        }
        if tag == "tree.snapshot" && ctx.level > 0 && ctx.sched.flush_busy.load(Ordering::SeqCst) && ctx.rng.chance(1, 5) {
            // The window of C06-tree-snapshot-outside-lock: the reader holds a tree version; let the
            // flush thread install its version and clear `imm` before the reader goes on.  A store
            // that clones the version inside the critical section holds the store mutex here, the
            // flush thread cannot clear, and the reader gives up after a bounded wait.
            let deadline = Instant::now() + Duration::from_micros(1500);
            while ctx.sched.flush_busy.load(Ordering::SeqCst) && Instant::now() < deadline {
                std::thread::sleep(Duration::from_micros(50));
            }
            return;
        }
        if ctx.level > 0 {
            let r = ctx.rng.below(24);
            if r < ctx.level * 2 {
                std::thread::yield_now();
            } else if !locked && r < ctx.level * 3 {
                std::thread::sleep(Duration::from_micros(ctx.rng.below(80)));
            }
        }
    });
}

fn install_hook() {
    lsmtk::verif::set_pause_hook(Some(Arc::new(pause_hook)));
}

// ================================================================================ operations =====

#[derive(Clone, Debug)]
enum Op {
    /// entries: (key index, Some(value id) | None = delete); one entry = `put` / `del`
    Write(Vec<(usize, Option<u64>)>),
    /// a write the store must refuse after it has linked it into the wait list: the entries, then
    /// (kind 1) an entry whose key is one byte over `MAX_KEY_LEN` / (kind 2) whose value is one byte
    /// over `MAX_VALUE_LEN`; kind 0 = the empty batch (no entries)
    FailWrite(u8, Vec<(usize, Option<u64>)>),
    Get(usize),
    /// inclusive key-index range
    Scan(usize, usize),
}

impl Op {
    fn is_write(&self) -> bool {
        matches!(self, Op::Write(_) | Op::FailWrite(..))
    }
}

/// the error the store must answer a failing write with
fn fail_code(kind: u8) -> &'static str {
    match kind {
        0 => "empty-batch",
        1 => "key-too-large",
        _ => "value-too-large",
    }
}

/// the code of an error of the store (`(code <x>)` of its s-expression)
fn err_code<E: std::fmt::Debug>(e: E) -> String {
    let s = format!("{:?}", e);
    for code in ["empty-batch", "key-too-large", "value-too-large", "table-full"] {
        if s.contains(&format!("Atom(\"{}\")", code)) {
            return code.to_string();
        }
    }
    errs(s)
}

#[derive(Clone, Debug)]
enum Res {
    W(Result<(), String>),
    G(Result<Option<Vec<u8>>, String>),
    S(Result<Vec<(Vec<u8>, Option<Vec<u8>>)>, String>),
    Panic(String),
}

#[derive(Clone, Debug)]
struct OpRec {
    cid: u64,
    idx: u64,
    op: Op,
    res: Res,
}

fn value_bytes(vid: u64, pad: usize) -> Vec<u8> {
    let mut v = format!("v{}", vid).into_bytes();
    v.extend(std::iter::repeat(b'.').take(pad));
    v
}

fn value_id(v: &[u8]) -> Option<u64> {
    if v.first() != Some(&b'v') {
        return None;
    }
    let digits: Vec<u8> = v[1..].iter().copied().take_while(|c| c.is_ascii_digit()).collect();
    if digits.is_empty() || !v[1 + digits.len()..].iter().all(|c| *c == b'.') {
        return None;
    }
    String::from_utf8(digits).ok()?.parse().ok()
}

fn errs<E: std::fmt::Debug>(e: E) -> String {
    let s = format!("{:?}", e);
    s.chars().take(120).map(|c| if c.is_whitespace() { '_' } else { c }).collect()
}

struct World {
    kvs: Arc<KeyValueStore>,
    sched: Arc<Sched>,
    keys: Vec<Vec<u8>>,
    pad: usize,
}

fn rid_of(cid: u64, idx: u64) -> u64 {
    cid * 100_000 + idx
}

fn scan_range(w: &World, lo: usize, hi: usize, mut each: impl FnMut(usize)) -> Result<Vec<(Vec<u8>, Option<Vec<u8>>)>, String> {
    let lo_b: Bound<&[u8]> = Bound::Included(w.keys[lo].as_slice());
    let hi_b: Bound<&[u8]> = Bound::Included(w.keys[hi].as_slice());
    let mut c = w.kvs.range_scan::<&[u8]>(&lo_b, &hi_b).map_err(errs)?;
    c.seek_to_first().map_err(errs)?;
    let mut out = vec![];
    loop {
        c.next().map_err(errs)?;
        match c.key_value() {
            Some(kv) => {
                out.push((kv.key.to_vec(), kv.value.map(|v| v.to_vec())));
                each(out.len());
            }
            None => break,
        }
        if out.len() > 10_000 {
            return Err("scan-does-not-end".into());
        }
    }
    Ok(out)
}

fn do_op(w: &World, cid: u64, idx: u64, op: &Op) -> OpRec {
    let res = match op {
        Op::Write(es) => {
            lsmtk::verif::emit("c06.inv", [cid, idx, 0]);
            let r = guarded(AssertUnwindSafe(|| {
                if es.len() == 1 {
                    let (k, v) = &es[0];
                    match v {
                        Some(vid) => w.kvs.put(&w.keys[*k], &value_bytes(*vid, w.pad)),
                        None => w.kvs.del(&w.keys[*k]),
                    }
                } else {
                    let mut wb = lsmtk::WriteBatch::with_capacity(es.len());
                    for (k, v) in es {
                        match v {
                            Some(vid) => wb.put(&w.keys[*k], &value_bytes(*vid, w.pad)),
                            None => wb.del(&w.keys[*k]),
                        }
                    }
                    w.kvs.write(wb)
                }
            }));
            lsmtk::verif::emit("c06.resp", [cid, idx, 0]);
            match r {
                Ok(r) => Res::W(r.map_err(errs)),
                Err(m) => Res::Panic(m),
            }
        }
        Op::FailWrite(kind, es) => {
            lsmtk::verif::emit("c06.inv", [cid, idx, 0]);
            let r = guarded(AssertUnwindSafe(|| {
                let mut wb = lsmtk::WriteBatch::with_capacity(es.len() + 1);
                for (k, v) in es {
                    match v {
                        Some(vid) => wb.put(&w.keys[*k], &value_bytes(*vid, w.pad)),
                        None => wb.del(&w.keys[*k]),
                    }
                }
                match kind {
                    0 => {}
                    1 => wb.put(&vec![b'k'; sst::MAX_KEY_LEN + 1], b"x"),
                    _ => wb.put(b"\xff\xffover-long-value", &vec![b'.'; sst::MAX_VALUE_LEN + 1]),
                }
                w.kvs.write(wb)
            }));
            lsmtk::verif::emit("c06.resp", [cid, idx, 0]);
            match r {
                Ok(r) => Res::W(r.map_err(err_code)),
                Err(m) => Res::Panic(m),
            }
        }
        Op::Get(k) => {
            lsmtk::verif::emit("c06.inv", [cid, idx, 0]);
            let r = guarded(AssertUnwindSafe(|| {
                let mut tomb = false;
                w.kvs.load(&w.keys[*k], &mut tomb)
            }));
            lsmtk::verif::emit("c06.resp", [cid, idx, 0]);
            match r {
                Ok(r) => Res::G(r.map_err(errs)),
                Err(m) => Res::Panic(m),
            }
        }
        Op::Scan(lo, hi) => {
            w.sched.gate.read_lock();
            lsmtk::verif::emit("c06.inv", [cid, idx, 0]);
            let r = guarded(AssertUnwindSafe(|| scan_range(w, *lo, *hi, |_| {})));
            lsmtk::verif::emit("c06.resp", [cid, idx, 0]);
            w.sched.gate.read_unlock();
            match r {
                Ok(r) => Res::S(r),
                Err(m) => Res::Panic(m),
            }
        }
    };
    OpRec { cid, idx, op: op.clone(), res }
}

/// client operations completed so far, all runs (progress, for the monitor of a random run)
static OPS_DONE: std::sync::atomic::AtomicU64 = std::sync::atomic::AtomicU64::new(0);

fn client_main(w: Arc<World>, cid: u64, ops: Vec<Op>, rng: Rng, level: u64, jitter: u64) -> Vec<OpRec> {
    enter_thread(&w.sched, rng.clone(), level);
    lsmtk::verif::emit("c06.client", [cid, 0, 0]);
    let mut rng = rng;
    rng.next();
    let mut out = vec![];
    for (i, op) in ops.iter().enumerate() {
        if jitter > 0 {
            match rng.below(4 * jitter) {
                0 => std::thread::sleep(Duration::from_micros(rng.below(150))),
                1 | 2 => std::thread::yield_now(),
                _ => {}
            }
        }
        out.push(do_op(&w, cid, i as u64, op));
        OPS_DONE.fetch_add(1, Ordering::SeqCst);
    }
    leave_thread();
    out
}

/// the flush loop, polled: the real `_memtable_thread` body, returning where it would sleep
fn flush_main(w: Arc<World>, stop: Arc<AtomicBool>, rng: Rng, level: u64, errors: Arc<Mutex<Vec<String>>>) {
    enter_thread_as(&w.sched, rng, level, ROLE_FLUSH);
    while !stop.load(Ordering::SeqCst) {
        lsmtk::verif::set_single_step(Some(0));
        let r = guarded(AssertUnwindSafe(|| w.kvs.memtable_thread()));
        lsmtk::verif::set_single_step(None);
        release_gate_if_held();
        match r {
            Ok(Ok(())) => {}
            Ok(Err(e)) => {
                errors.lock().unwrap().push(format!("memtable_thread: {}", errs(e)));
                break;
            }
            Err(m) => {
                errors.lock().unwrap().push(format!("memtable_thread panicked: {}", m));
                break;
            }
        }
        std::thread::sleep(Duration::from_micros(60));
    }
    leave_thread();
}

/// a compaction loop, polled one compaction at a time; a step excludes open scans (D-5)
fn compaction_main(w: Arc<World>, stop: Arc<AtomicBool>, errors: Arc<Mutex<Vec<String>>>, done: Arc<Mutex<u64>>) {
    while !stop.load(Ordering::SeqCst) {
        w.sched.gate.write_lock();
        lsmtk::verif::set_single_step(Some(1));
        let r = guarded(AssertUnwindSafe(|| w.kvs.compaction_thread()));
        lsmtk::verif::set_single_step(None);
        let n = lsmtk::verif::take_chosen().len() as u64;
        w.sched.gate.write_unlock();
        *done.lock().unwrap() += n;
        match r {
            Ok(Ok(())) => {}
            Ok(Err(e)) => {
                errors.lock().unwrap().push(format!("compaction_thread: {}", errs(e)));
                break;
            }
            Err(m) => {
                errors.lock().unwrap().push(format!("compaction_thread panicked: {}", m));
                break;
            }
        }
        if n == 0 {
            std::thread::sleep(Duration::from_micros(400));
        }
    }
}

// ================================================================================== analysis =====

type Event = (u64, u64, &'static str, [u64; 3]);

struct History {
    completed: bool,
    seq0: u64,
    mem0: u64,
    keys: Vec<Vec<u8>>,
    ops: Vec<OpRec>,
    events: Vec<Event>,
    /// directed runs place their lookups themselves (`c06.look.*` events) and record what each
    /// returned, in order
    explicit_looks: bool,
    look_obs: Vec<String>,
    /// (seq_no, mem_seq_no, imm present) at the end
    end_state: (u64, u64, bool),
    bg_errors: Vec<String>,
    stuck: Option<String>,
}

#[derive(Default, Clone)]
struct Stats {
    writes: u64,
    batches: u64,
    gets: u64,
    scans: u64,
    rotations: u64,
    installs: u64,
    snaps: u64,
    snaps_with_writer_in_flight: u64,
    snaps_with_imm: u64,
    snaps_between_install_and_clear: u64,
    snaps_between_rotate_and_head: u64,
    max_in_flight: u64,
    exposed_reads: u64,
    reads_of_unreturned_write: u64,
    scans_crossing_batch: u64,
    events: u64,
    tree_snapshots: u64,
    tree_snapshots_between_install_and_clear: u64,
    failed_writes: u64,
    failed_at_head: u64,
    failed_at_head_with_successor_asleep: u64,
    failed_behind_batch_mid_insert: u64,
    failed_left_out_of_turn: u64,
    snaps_with_failed_write_linked: u64,
    writers_that_slept_in_the_wait_list: u64,
}

struct Analysis {
    req: String,
    obs: String,
    verdict: Verdict,
    stats: Stats,
    fails: Vec<(String, String)>,
}

struct WInfo {
    rid: u64,
    seq: u64,
    inv: usize,
    resp: usize,
    begin: usize,
    finish: Option<usize>,
    entries: Vec<(usize, Option<u64>)>,
    /// a write that must fail: its kind; `finish` is then where it left the wait list
    fail: Option<u8>,
}

/// a ticket of the wait list: a writer (its sequence number) or the flush thread (the number of
/// the memtable it has just created)
type Tk = (bool, u64);

struct RInfo {
    rid: u64,
    inv: usize,
    resp: usize,
    ts: Option<u64>,
    snap: usize,
    is_scan: bool,
    /// (key, value id seen | None)
    seen: Vec<(usize, Option<u64>)>,
}

fn render_get(keys: &[Vec<u8>], rid: u64, res: &Res) -> String {
    let _ = keys;
    match res {
        Res::G(Ok(Some(v))) => match value_id(v) {
            Some(id) => format!("{}={}", rid, id),
            None => format!("{}=?{}", rid, hex(v)),
        },
        Res::G(Ok(None)) => format!("{}=-", rid),
        Res::G(Err(_)) => format!("{}=err", rid),
        _ => format!("{}=panic", rid),
    }
}

fn render_scan_entries(keys: &[Vec<u8>], rid: u64, es: &[(Vec<u8>, Option<Vec<u8>>)]) -> String {
    let parts: Vec<String> = es
        .iter()
        .map(|(k, v)| {
            let ki = match keys.iter().position(|x| x == k) {
                Some(i) => i.to_string(),
                None => format!("?{}", hex(k)),
            };
            match v {
                Some(v) => match value_id(v) {
                    Some(id) => format!("{}:{}", ki, id),
                    None => format!("{}:?{}", ki, hex(v)),
                },
                None => format!("{}:!", ki),
            }
        })
        .collect();
    format!("{}=[{}]", rid, parts.join(","))
}

fn render_scan(keys: &[Vec<u8>], rid: u64, res: &Res) -> String {
    match res {
        Res::S(Ok(es)) => render_scan_entries(keys, rid, es),
        Res::S(Err(_)) => format!("{}=err", rid),
        _ => format!("{}=panic", rid),
    }
}

fn render_batch(es: &[(usize, Option<u64>)]) -> String {
    if es.is_empty() {
        return "-".into();
    }
    es.iter()
        .map(|(k, v)| match v {
            Some(v) => format!("{}={}", k, v),
            None => format!("{}!", k),
        })
        .collect::<Vec<_>>()
        .join(";")
}

fn analyse(h: &History) -> Analysis {
    let mut st = Stats::default();
    let mut fails: Vec<(String, String)> = vec![];
    let ops: HashMap<(u64, u64), &OpRec> = h.ops.iter().map(|o| ((o.cid, o.idx), o)).collect();
    st.events = h.events.len() as u64;

    // ---- pass 1: the timestamp each snapshot used (next `.ts` event of the same thread)
    let mut ts_of: HashMap<usize, u64> = HashMap::new();
    {
        let mut pending: HashMap<u64, usize> = HashMap::new();
        for (pos, (_, th, tag, a)) in h.events.iter().enumerate() {
            match *tag {
                "kvs.load.snap.locked" | "kvs.scan.snap.locked" => {
                    pending.insert(*th, pos);
                }
                "kvs.load.ts" | "kvs.scan.ts" => {
                    if let Some(p) = pending.remove(th) {
                        ts_of.insert(p, a[0]);
                    }
                }
                _ => {}
            }
        }
    }

    // ---- pass 2: tokens for the model, observations of the implementation, facts for the oracle
    let mut toks: Vec<String> = vec![];
    let mut obs: Vec<String> = vec![];
    let mut cur: HashMap<u64, (u64, u64)> = HashMap::new();
    let mut winfo: BTreeMap<(u64, u64), WInfo> = BTreeMap::new();
    let mut rinfo: BTreeMap<(u64, u64), RInfo> = BTreeMap::new();
    let mut inv_at: HashMap<(u64, u64), usize> = HashMap::new();
    let mut inserted: HashMap<u64, u64> = HashMap::new(); // seq -> inserts seen
    let mut in_flight: BTreeSet<u64> = BTreeSet::new();
    let mut imm_now = false;
    let mut installed_now = false;
    let mut rotated_waiting = false;
    // the flush thread and the memtable it is writing out (between its passing the wait list and
    // the install of the version that holds the file)
    let mut flush_thread: Option<u64> = None;
    let mut flushing: Option<u64> = None;
    let mut snapped: BTreeSet<(u64, u64)> = BTreeSet::new();
    let mut look_i = 0usize;
    let mut panic_line: Option<String> = None;
    let mut last_ts: u64 = h.seq0;
    let mut unmapped: Vec<String> = vec![];
    // the wait list as the events show it: tickets in link order, which of them have gone to sleep
    // (`naked_wait`), batch lengths, and how the ticket that left last left
    let mut queue: Vec<Tk> = vec![];
    let mut asleep: BTreeSet<Tk> = BTreeSet::new();
    let mut blen: HashMap<u64, usize> = HashMap::new();
    let mut failing_linked: BTreeSet<u64> = BTreeSet::new();
    let mut last_leave: Option<(Tk, bool)> = None; // (ticket, it was a failed write)
    for (pos, (_, th, tag, a)) in h.events.iter().enumerate() {
        if panic_line.is_some() {
            break;
        }
        match *tag {
            "c06.client" | "kvs.write.inserted" | "kvs.flush.installed" => {}
            "tree.install" => {
                st.installs += 1;
                match flushing {
                    Some(old) if flush_thread == Some(*th) => {
                        toks.push(format!("N{},{}", old, a[0]));
                        flushing = None;
                        installed_now = true;
                    }
                    _ => toks.push(format!("V{}", a[0])),
                }
            }
            "tree.snapshot" => {
                // a reader's clone of the tree version (the flush and compaction threads clone it
                // too; those are not steps of the model)
                if let Some(k) = cur.get(th) {
                    if let Some(o) = ops.get(k) {
                        if !o.op.is_write() && !snapped.contains(k) {
                            toks.push(format!("T{},{}", rid_of(k.0, k.1), a[0]));
                            st.tree_snapshots += 1;
                            if installed_now {
                                st.tree_snapshots_between_install_and_clear += 1;
                            }
                        }
                    }
                }
            }
            "c06.inv" => {
                cur.insert(*th, (a[0], a[1]));
                inv_at.insert((a[0], a[1]), pos);
            }
            "c06.resp" => {
                cur.remove(th);
                let key = (a[0], a[1]);
                if let Some(w) = winfo.get_mut(&key) {
                    w.resp = pos;
                    // D-16: the write panicked before its next insert was recorded
                    if let Some(o) = ops.get(&key) {
                        if let (Res::Panic(_), Op::Write(es)) = (&o.res, &o.op) {
                            let done = *inserted.get(&w.seq).unwrap_or(&0);
                            if (done as usize) < es.len() {
                                let tok = format!("I{},{}", w.seq, done);
                                let at = toks.len();
                                toks.push(tok.clone());
                                panic_line = Some(format!("panic-dup-insert@{}:{}", at, tok));
                            }
                        }
                    }
                }
                if let Some(r) = rinfo.get_mut(&key) {
                    r.resp = pos;
                }
            }
            "kvs.write.begin.locked" => {
              // (the wait list is followed for every write, also those of clients that never returned)
              queue.push((false, a[0]));
              blen.insert(a[0], a[2] as usize);
              match cur.get(th).and_then(|k| ops.get(k).map(|o| (*k, *o))) {
                Some((key, o)) => {
                    let (es, fail) = match &o.op {
                        Op::Write(es) => (Some(es), None),
                        Op::FailWrite(kind, es) => (Some(es), Some(*kind)),
                        _ => (None, None),
                    };
                    if let Some(es) = es {
                        // (the over-long last entry of a failing batch is not an entry of the model's
                        // batch: nothing of a failing write is ever inserted)
                        toks.push(format!("B{},{},{}", a[0], a[1], render_batch(es)));
                        winfo.insert(key, WInfo { rid: rid_of(key.0, key.1), seq: a[0], inv: inv_at[&key], resp: usize::MAX, begin: pos, finish: None, entries: es.clone(), fail });
                        in_flight.insert(a[0]);
                        if fail.is_some() {
                            failing_linked.insert(a[0]);
                        }
                        st.max_in_flight = st.max_in_flight.max(in_flight.len() as u64);
                        let want = es.len() + if matches!(fail, Some(k) if k > 0) { 1 } else { 0 };
                        if a[2] as usize != want {
                            unmapped.push(format!("write {} began with {} entries, op has {}", a[0], a[2], want));
                        }
                    } else {
                        unmapped.push(format!("write event in a read op at {}", pos));
                    }
                }
                None => unmapped.push(format!("write began outside any client op at {}", pos)),
              }
            }
            "kvs.write.linked" => {}
            "kvs.write.failed" => {
                // where the write fails: is a batch ahead of it in the list between two of its inserts?
                let me: Tk = (false, a[0]);
                if queue.iter().take_while(|t| **t != me).any(|t| !t.0 && { let n = *inserted.get(&t.1).unwrap_or(&0) as usize; n >= 1 && n < *blen.get(&t.1).unwrap_or(&0) }) {
                    st.failed_behind_batch_mid_insert += 1;
                }
            }
            "kvs.write.wait.locked" => {
                if asleep.insert((false, a[0])) {
                    st.writers_that_slept_in_the_wait_list += 1;
                }
            }
            "kvs.flush.wait.locked" => {
                asleep.insert((true, a[0]));
            }
            "kvs.write.abandon" | "kvs.write.abandon.locked" => {
                toks.push(format!("X{}", a[0]));
                let me: Tk = (false, a[0]);
                st.failed_writes += 1;
                if queue.first() == Some(&me) {
                    st.failed_at_head += 1;
                    if queue.iter().skip(1).any(|t| asleep.contains(t)) {
                        st.failed_at_head_with_successor_asleep += 1;
                    }
                } else {
                    st.failed_left_out_of_turn += 1;
                }
                queue.retain(|t| *t != me);
                asleep.remove(&me);
                failing_linked.remove(&a[0]);
                last_leave = Some((me, true));
                in_flight.remove(&a[0]);
                if let Some(k) = cur.get(th) {
                    if let Some(w) = winfo.get_mut(k) {
                        w.finish = Some(pos);
                    }
                }
            }
            "kvs.write.logged" => toks.push(format!("L{}", a[0])),
            "kvs.write.insert" => {
                toks.push(format!("I{},{}", a[0], a[1]));
                *inserted.entry(a[0]).or_insert(0) += 1;
            }
            "kvs.write.finish.locked" => {
                toks.push(format!("F{}", a[0]));
                in_flight.remove(&a[0]);
                queue.retain(|t| *t != (false, a[0]));
                asleep.remove(&(false, a[0]));
                last_leave = Some(((false, a[0]), false));
                if let Some(k) = cur.get(th) {
                    if let Some(w) = winfo.get_mut(k) {
                        w.finish = Some(pos);
                    }
                }
            }
            "kvs.flush.rotate.locked" => {
                queue.push((true, a[0]));
                toks.push(format!("R{},{}", a[0], a[1]));
                st.rotations += 1;
                imm_now = true;
                rotated_waiting = true;
            }
            "kvs.flush.head.locked" => {
                queue.retain(|t| *t != (true, a[0]));
                asleep.remove(&(true, a[0]));
                last_leave = Some(((true, a[0]), false));
                toks.push(format!("H{}", a[0]));
                rotated_waiting = false;
                flush_thread = Some(*th);
                flushing = Some(a[1]);
            }
            "kvs.flush.cleared.locked" => {
                toks.push(format!("C{}", a[0]));
                imm_now = false;
                installed_now = false;
            }
            "kvs.load.snap.locked" | "kvs.scan.snap.locked" => {
                let is_scan = *tag == "kvs.scan.snap.locked";
                let ts = ts_of.get(&pos).copied();
                match cur.get(th).and_then(|k| ops.get(k).map(|o| (*k, *o))) {
                    Some((key, o)) => {
                        let rid = rid_of(key.0, key.1);
                        snapped.insert(key);
                        toks.push(format!("S{},{},{},{}", rid, ts.unwrap_or(u64::MAX), a[1], a[2]));
                        st.snaps += 1;
                        if !in_flight.is_empty() {
                            st.snaps_with_writer_in_flight += 1;
                        }
                        if !failing_linked.is_empty() {
                            st.snaps_with_failed_write_linked += 1;
                        }
                        if imm_now {
                            st.snaps_with_imm += 1;
                        }
                        if installed_now {
                            st.snaps_between_install_and_clear += 1;
                        }
                        if rotated_waiting {
                            st.snaps_between_rotate_and_head += 1;
                        }
                        if let Some(t) = ts {
                            last_ts = t;
                        }
                        let mut seen: Vec<(usize, Option<u64>)> = vec![];
                        match (&o.op, &o.res, is_scan) {
                            (Op::Get(k), res, false) => {
                                // (directed runs: the director places its own lookups; a helper
                                // client's lookup goes right after its snapshot, as in random runs)
                                if !h.explicit_looks || key.0 != 0 {
                                    toks.push(format!("G{},{}", rid, k));
                                    obs.push(render_get(&h.keys, rid, res));
                                }
                                if let Res::G(Ok(v)) = res {
                                    seen.push((*k, v.as_ref().and_then(|v| value_id(v))));
                                }
                            }
                            (Op::Scan(lo, hi), res, true) => {
                                if !h.explicit_looks || key.0 != 0 {
                                    toks.push(format!("Q{},{},{}", rid, lo, hi));
                                    obs.push(render_scan(&h.keys, rid, res));
                                }
                                if let Res::S(Ok(es)) = res {
                                    for k in *lo..=*hi {
                                        let v = es.iter().find(|e| e.0 == h.keys[k]).and_then(|e| e.1.as_ref()).and_then(|v| value_id(v));
                                        seen.push((k, v));
                                    }
                                }
                            }
                            _ => unmapped.push(format!("snapshot kind does not match op at {}", pos)),
                        }
                        rinfo.insert(key, RInfo { rid, inv: inv_at[&key], resp: usize::MAX, ts, snap: pos, is_scan, seen });
                    }
                    None => unmapped.push(format!("snapshot outside any client op at {}", pos)),
                }
            }
            "kvs.load.ts" | "kvs.scan.ts" => {}
            "c06.look.get" => {
                toks.push(format!("G{},{}", a[0], a[1]));
                obs.push(h.look_obs.get(look_i).cloned().unwrap_or_else(|| "missing".into()));
                look_i += 1;
            }
            "c06.look.scan" => {
                toks.push(format!("Q{},{},{}", a[0], a[1], a[2]));
                obs.push(h.look_obs.get(look_i).cloned().unwrap_or_else(|| "missing".into()));
                look_i += 1;
            }
            // events of other properties' hooks (the scheduler log of C20, …) are not this model's
            other if !(other.starts_with("kvs.") || other.starts_with("c06.") || other.starts_with("tree.")) => {}
            other => unmapped.push(format!("unknown event {}", other)),
        }
    }
    let req = format!("kvsw {} {} {} {}", if h.completed { 1 } else { 0 }, h.seq0, h.mem0, toks.join(" "));
    let obs_s = if obs.is_empty() { "-".to_string() } else { obs.join(";") };
    let obs_line = match &panic_line {
        Some(p) => format!("{} obs={}", p, obs_s),
        None => format!("ok obs={} end=seq:{},ts:{},mem:{},imm:{},q:0,open:0", obs_s, h.end_state.0, last_ts, h.end_state.1, if h.end_state.2 { 1 } else { 0 }),
    };

    // ---- oracle -------------------------------------------------------------------------------
    for o in &h.ops {
        match (&o.op, &o.res) {
            (Op::Write(es), _) => {
                st.writes += 1;
                if es.len() > 1 {
                    st.batches += 1;
                }
            }
            (Op::FailWrite(kind, _), res) => match res {
                // a failing write returns its error, and exactly that one
                Res::W(Err(e)) if e == fail_code(*kind) => {}
                Res::W(Err(e)) => fails.push(("failing-write-wrong-error".into(), format!("op {}.{}: expected {}, got {}", o.cid, o.idx, fail_code(*kind), e))),
                Res::W(Ok(())) => fails.push(("failing-write-succeeded".into(), format!("op {}.{} {:?}", o.cid, o.idx, o.op))),
                _ => {}
            },
            (Op::Get(_), _) => st.gets += 1,
            (Op::Scan(..), _) => st.scans += 1,
        }
        let dup = match &o.op {
            Op::Write(es) => {
                let ks: BTreeSet<usize> = es.iter().map(|e| e.0).collect();
                ks.len() != es.len()
            }
            _ => false,
        };
        match &o.res {
            Res::Panic(m) => fails.push((if dup { D16.into() } else { "panic".into() }, format!("op {}.{} {:?} panicked: {}", o.cid, o.idx, o.op, m))),
            Res::W(Err(e)) if !matches!(o.op, Op::FailWrite(..)) => fails.push(("write-error".into(), format!("op {}.{}: {}", o.cid, o.idx, e))),
            Res::G(Err(e)) | Res::S(Err(e)) => fails.push(("read-error".into(), format!("op {}.{}: {}", o.cid, o.idx, e))),
            Res::S(Ok(es)) => {
                if es.iter().any(|e| e.1.is_none()) {
                    fails.push(("scan-shows-tombstone".into(), format!("op {}.{}", o.cid, o.idx)));
                }
                if es.windows(2).any(|w| w[0].0 >= w[1].0) {
                    fails.push(("scan-not-sorted".into(), format!("op {}.{}", o.cid, o.idx)));
                }
                if let Op::Scan(lo, hi) = &o.op {
                    if es.iter().any(|e| e.0 < h.keys[*lo] || e.0 > h.keys[*hi]) {
                        fails.push(("scan-out-of-bounds".into(), format!("op {}.{}", o.cid, o.idx)));
                    }
                }
            }
            _ => {}
        }
    }
    for e in &h.bg_errors {
        fails.push(("background-thread-error".into(), e.clone()));
    }
    if let Some(s) = &h.stuck {
        // who sleeps at the head of the wait list, and how did the ticket before it leave?
        let name = |t: &Tk| if t.0 { format!("the flush thread (memtable {})", t.1) } else { format!("write {}", t.1) };
        match (queue.first(), last_leave) {
            (Some(hd), Some((left, true))) if asleep.contains(hd) => fails.push((
                LOST_HANDOFF.into(),
                format!("{}; the wait list holds {} ticket(s); its head, {}, went to sleep in naked_wait behind write {} — which then failed and left the list without waking anybody; {} ticket(s) sleep behind it", s, queue.len(), name(hd), left.1, queue.iter().skip(1).filter(|t| asleep.contains(t)).count()),
            )),
            (Some(hd), _) if asleep.contains(hd) => fails.push(("head-of-wait-list-asleep".into(), format!("{}; the head of the wait list, {}, sleeps and nobody is going to wake it", s, name(hd)))),
            _ => fails.push(("stuck".into(), s.clone())),
        }
    }
    for u in unmapped.iter().take(3) {
        fails.push(("trace-unmappable".into(), u.clone()));
    }
    let clean = fails.is_empty();
    // the oracle's writes are the ones that succeed; the failing ones must leave no trace
    let ws: Vec<&WInfo> = winfo.values().filter(|w| w.fail.is_none()).collect();
    let fs: Vec<&WInfo> = winfo.values().filter(|w| w.fail.is_some()).collect();
    let rs: Vec<&RInfo> = rinfo.values().collect();
    if clean {
        for o in &h.ops {
            let k = (o.cid, o.idx);
            let mapped = match o.op {
                Op::Write(_) | Op::FailWrite(..) => winfo.get(&k).map(|w| w.finish.is_some() && w.resp != usize::MAX).unwrap_or(false),
                _ => rinfo.get(&k).map(|r| r.ts.is_some() && r.resp != usize::MAX).unwrap_or(false),
            };
            if !mapped {
                fails.push(("trace-unmappable".into(), format!("op {}.{} has no complete event record", o.cid, o.idx)));
                break;
            }
        }
    }
    if fails.is_empty() {
        // write order: sequence numbers are unique and respect real time
        let mut seqs: Vec<u64> = ws.iter().map(|w| w.seq).collect();
        seqs.sort();
        if seqs.windows(2).any(|p| p[0] == p[1]) {
            fails.push(("duplicate-sequence-number".into(), "two writes carry one sequence number".into()));
        }
        for a in &ws {
            for b in &ws {
                if a.resp < b.inv && a.seq > b.seq {
                    fails.push(("write-order".into(), format!("write {} (seq {}) returned before write {} (seq {}) was invoked", a.rid, a.seq, b.rid, b.seq)));
                }
            }
        }
        // a failed write has no effect on any read: none of its values is ever returned
        for f in &fs {
            for (k, v) in &f.entries {
                if let Some(v) = v {
                    for r in &rs {
                        if r.seen.iter().any(|sn| sn.0 == *k && sn.1 == Some(*v)) {
                            fails.push(("failed-write-visible".into(), format!("read {} of key {} returned value {} of write {} (seq {}), which failed", r.rid, k, v, f.rid, f.seq)));
                        }
                    }
                }
            }
        }
        let by_vid: HashMap<u64, (usize, usize)> = ws.iter().enumerate().flat_map(|(wi, w)| w.entries.iter().filter_map(move |(k, v)| v.map(|v| (v, (wi, *k))))).collect();
        // exposure (the trigger of D-6): the read's timestamp covers a write that is still in
        // flight on one of the keys the read looks at.  What an exposed read returns depends on how
        // far that write has got, so an anomaly of an exposed read belongs to that finding.
        let mut exposed: BTreeSet<u64> = BTreeSet::new();
        for r in &rs {
            let ts = r.ts.unwrap_or(0);
            if ws.iter().any(|w| w.begin < r.snap && w.finish.map(|f| r.snap < f).unwrap_or(true) && w.seq <= ts && w.entries.iter().any(|e| r.seen.iter().any(|s| s.0 == e.0))) {
                exposed.insert(r.rid);
            }
        }
        st.exposed_reads = exposed.len() as u64;
        let cls = |rid: u64, c: &str| -> String { if exposed.contains(&rid) { D6.to_string() } else { c.to_string() } };
        // per key: which write does each read return?  A value names its write.  "Nothing" does not
        // (tombstones carry no payload): it may come from the empty start or from any delete not
        // newer than the read's timestamp and invoked before the read returned; the read is
        // attributed to the OLDEST of those that is not older than what had completed or had been
        // observed before the read began (the least committing choice), and the newest candidate is
        // kept for the batch check.
        let mut src_range: HashMap<(u64, usize), (u64, u64)> = HashMap::new();
        for k in 0..h.keys.len() {
            let mut kw: Vec<&WInfo> = ws.iter().copied().filter(|w| w.entries.iter().any(|e| e.0 == k)).collect();
            kw.sort_by_key(|w| w.seq);
            let mut obs_k: Vec<(&RInfo, Option<u64>)> = vec![];
            for r in &rs {
                for (rk, v) in &r.seen {
                    if *rk == k {
                        obs_k.push((r, *v));
                    }
                }
            }
            obs_k.sort_by_key(|o| o.0.inv);
            // (read, source sequence number; 0 = nothing written yet)
            let mut kr: Vec<(&RInfo, u64)> = vec![];
            for (r, v) in &obs_k {
                match v {
                    Some(vid) => match by_vid.get(vid) {
                        Some((wi, wk)) if *wk == k => {
                            let s = ws[*wi].seq;
                            src_range.insert((r.rid, k), (s, s));
                            kr.push((r, s));
                        }
                        _ => fails.push(("phantom-read".into(), format!("read {} of key {} returned value {} that no write put there", r.rid, k, vid))),
                    },
                    None => {
                        let ts = r.ts.unwrap_or(u64::MAX);
                        let lo_w = kw.iter().filter(|w| w.resp < r.inv).map(|w| w.seq).max().unwrap_or(0);
                        let lo_r = kr.iter().filter(|(r2, _)| r2.resp < r.inv).map(|x| x.1).max().unwrap_or(0);
                        let lo = lo_w.max(lo_r);
                        let mut cands: Vec<u64> = vec![0];
                        cands.extend(kw.iter().filter(|w| w.seq <= ts && w.inv < r.resp && w.entries.iter().any(|e| e.0 == k && e.1.is_none())).map(|w| w.seq));
                        let hi = *cands.iter().max().unwrap();
                        match cands.iter().copied().filter(|c| *c >= lo).min() {
                            Some(c) => {
                                src_range.insert((r.rid, k), (c, hi));
                                kr.push((r, c));
                            }
                            None => fails.push((cls(r.rid, "stale-read"), format!("read {} of key {} returned nothing although a write or an earlier read's source with seq {} preceded it and no delete at or after that is covered by its timestamp {}", r.rid, k, lo, ts))),
                        }
                    }
                }
            }
            for (r, s) in &kr {
                if let Some(w) = kw.iter().find(|w| w.seq == *s) {
                    if w.inv > r.resp {
                        fails.push(("future-read".into(), format!("read {} of key {} returned write {} invoked after the read returned", r.rid, k, w.rid)));
                    }
                    if w.resp > r.snap && w.begin < r.snap {
                        st.reads_of_unreturned_write += 1;
                    }
                }
                if let Some(w2) = kw.iter().find(|w| w.seq > *s && w.resp < r.inv) {
                    fails.push((cls(r.rid, "stale-read"), format!("read {} of key {} returned seq {} although write {} (seq {}) had returned before the read began", r.rid, k, s, w2.rid, w2.seq)));
                }
                for (r2, s2) in &kr {
                    if r.resp < r2.inv && s2 < s {
                        fails.push((if exposed.contains(&r.rid) || exposed.contains(&r2.rid) { D6.to_string() } else { "read-inversion".to_string() }, format!("key {}: read {} saw seq {}, the later read {} saw the older seq {}", k, r.rid, s, r2.rid, s2)));
                    }
                }
            }
            // the exact check: linearization points, clusters in sequence order
            let mut t: usize = 0;
            let mut cl: Vec<u64> = vec![0];
            cl.extend(kw.iter().map(|w| w.seq));
            'clusters: for s in cl {
                let pw = match kw.iter().find(|w| w.seq == s) {
                    Some(w) => {
                        let p = t.max(w.inv);
                        if p > w.resp {
                            fails.push(("not-linearizable".into(), format!("key {}: write {} (seq {}) must take effect after an operation invoked at {} but returned at {}", k, w.rid, s, t, w.resp)));
                            break 'clusters;
                        }
                        p
                    }
                    None => t,
                };
                t = pw;
                for (r, rs_) in &kr {
                    if *rs_ == s {
                        let p = pw.max(r.inv);
                        if p > r.resp {
                            fails.push((cls(r.rid, "not-linearizable"), format!("key {}: read {} returned seq {} but returned (at {}) before that write could take effect (at {})", k, r.rid, s, r.resp, pw)));
                            break 'clusters;
                        }
                        t = t.max(p);
                    }
                }
            }
        }
        // batch atomicity: no scan sees some keys of a batch at or beyond the batch and others
        // before it ("nothing" counts only where every reading of it agrees)
        for r in rs.iter().filter(|r| r.is_scan) {
            for w in ws.iter().filter(|w| w.entries.len() > 1) {
                let mut upd = 0;
                let mut old = 0;
                let mut inrange = 0;
                for (k, _) in &w.entries {
                    let Some((lo, hi)) = src_range.get(&(r.rid, *k)) else { continue };
                    inrange += 1;
                    if *lo >= w.seq {
                        upd += 1;
                    } else if *hi < w.seq {
                        old += 1;
                    }
                }
                if inrange >= 2 {
                    st.scans_crossing_batch += 1;
                }
                if upd > 0 && old > 0 {
                    let mid = w.begin < r.snap && w.finish.map(|f| r.snap < f).unwrap_or(true);
                    let class = if mid { D6.to_string() } else { cls(r.rid, "batch-not-atomic") };
                    fails.push((class, format!("scan {} shows {} key(s) of batch {} (seq {}) updated and {} not; snapshot taken {} the batch's begin and finish", r.rid, upd, w.rid, w.seq, old, if mid { "between" } else { "outside" })));
                }
            }
        }
    }
    let verdict = if let Some(f) = fails.iter().find(|f| f.0 != D6 && f.0 != D16).or(fails.first()) {
        Verdict::Fail { class: f.0.clone(), detail: fails.iter().take(3).map(|f| f.1.clone()).collect::<Vec<_>>().join(" | ") }
    } else if st.exposed_reads > 0 {
        Verdict::Taint { class: D6.into() }
    } else {
        Verdict::Ok
    };
    Analysis { req, obs: obs_line, verdict, stats: st, fails }
}

// ===================================================================================== runs =====

fn store_cfg(rng: &mut Rng, mem_bytes: u64) -> Cfg {
    Cfg {
        memtable_bytes: mem_bytes,
        target_file: *rng.pick(&[512, 4096]),
        min_file: 64,
        target_block: *rng.pick(&[64, 256]),
        l0_mandatory_files: *rng.pick(&[2, 4]),
        l0_stall_files: 8,
        max_compaction_files: 16,
        gc_versions: *rng.pick(&[1, 1, 2, 3]),
        mani_ratio: *rng.pick(&[2, 10]),
    }
}

fn pick_keys(rng: &mut Rng, n: usize) -> Vec<Vec<u8>> {
    let mut idx: Vec<usize> = (0..KEYS.len()).collect();
    rng.shuffle(&mut idx);
    let mut idx: Vec<usize> = idx.into_iter().take(n).collect();
    idx.sort();
    idx.into_iter().map(|i| KEYS[i].to_vec()).collect()
}

fn open_world(tag: &str, cfg: &Cfg, keys: Vec<Vec<u8>>, pad: usize, directed: bool, gated: bool) -> Result<(Arc<World>, String), String> {
    let root = scratch_dir(tag);
    let kvs = KeyValueStore::open(cfg.options(&root)).map_err(errs)?;
    Ok((Arc::new(World { kvs: Arc::new(kvs), sched: Sched::new(directed, gated), keys, pad }), root))
}

fn close_world(w: Arc<World>, root: &str) {
    drop(w);
    let _ = std::fs::remove_dir_all(root);
}

fn vid(cid: u64, idx: u64, j: u64) -> u64 {
    (cid + 1) * 1_000_000 + idx * 10 + j
}

fn gen_ops(rng: &mut Rng, cid: u64, n: usize, nkeys: usize, mix: u64, fail_pct: u64) -> Vec<Op> {
    let mut ops = vec![];
    for i in 0..n {
        let idx = i as u64;
        if fail_pct > 0 && rng.below(100) < fail_pct {
            // a write the store must refuse: the empty batch, or 1..3 valid entries and then one
            // whose key / value is too long
            let kind = *rng.pick(&[0u8, 0, 1, 1, 2]);
            let es: Vec<(usize, Option<u64>)> = if kind == 0 {
                vec![]
            } else {
                let n = (rng.range(1, 3) as usize).min(nkeys);
                let mut ks: Vec<usize> = (0..nkeys).collect();
                rng.shuffle(&mut ks);
                ks.into_iter().take(n).enumerate().map(|(j, k)| (k, if rng.chance(1, 4) { None } else { Some(vid(cid, idx, j as u64)) })).collect()
            };
            ops.push(Op::FailWrite(kind, es));
            continue;
        }
        let r = rng.below(100);
        // mix 0: balanced; 1: write-heavy with many batches; 2: read-heavy
        let (p_put, p_del, p_batch, p_get) = match mix {
            0 => (28, 40, 60, 85),
            1 => (30, 42, 78, 90),
            _ => (15, 22, 36, 72),
        };
        let op = if r < p_put {
            Op::Write(vec![(rng.below(nkeys as u64) as usize, Some(vid(cid, idx, 0)))])
        } else if r < p_del {
            Op::Write(vec![(rng.below(nkeys as u64) as usize, None)])
        } else if r < p_batch {
            let n = (rng.range(2, 4) as usize).min(nkeys);
            let mut ks: Vec<usize> = (0..nkeys).collect();
            rng.shuffle(&mut ks);
            Op::Write(ks.into_iter().take(n).enumerate().map(|(j, k)| (k, if rng.chance(1, 4) { None } else { Some(vid(cid, idx, j as u64)) })).collect())
        } else if r < p_get {
            Op::Get(rng.below(nkeys as u64) as usize)
        } else if rng.chance(1, 2) {
            Op::Scan(0, nkeys - 1)
        } else {
            let lo = rng.below(nkeys as u64) as usize;
            let hi = lo + rng.below((nkeys - lo) as u64) as usize;
            Op::Scan(lo, hi)
        };
        ops.push(op);
    }
    ops
}

/// the wait list as the events so far show it: does its head sleep (it went into `naked_wait`
/// while another ticket was head, that ticket has left since, and nothing has been heard of it)?
fn head_of_wait_list_asleep(events: &[Event]) -> bool {
    let mut queue: Vec<Tk> = vec![];
    let mut asleep: BTreeSet<Tk> = BTreeSet::new();
    for (_, _, tag, a) in events {
        match *tag {
            "kvs.write.begin.locked" => queue.push((false, a[0])),
            "kvs.flush.rotate.locked" => queue.push((true, a[0])),
            "kvs.write.wait.locked" => {
                asleep.insert((false, a[0]));
            }
            "kvs.flush.wait.locked" => {
                asleep.insert((true, a[0]));
            }
            "kvs.write.finish.locked" | "kvs.write.abandon" | "kvs.write.abandon.locked" => {
                queue.retain(|t| *t != (false, a[0]));
                asleep.remove(&(false, a[0]));
            }
            "kvs.flush.head.locked" => {
                queue.retain(|t| *t != (true, a[0]));
                asleep.remove(&(true, a[0]));
            }
            _ => {}
        }
    }
    queue.first().map(|h| asleep.contains(h)).unwrap_or(false)
}

struct RandomOut {
    hist: History,
    desc: String,
    compactions: u64,
    clients: u64,
    gated: bool,
}

fn final_reads(w: &Arc<World>, cid: u64, nkeys: usize) -> Vec<OpRec> {
    enter_thread(&w.sched, Rng::new(0), 0);
    lsmtk::verif::emit("c06.client", [cid, 0, 0]);
    let mut out = vec![];
    out.push(do_op(w, cid, 0, &Op::Scan(0, nkeys - 1)));
    for k in 0..nkeys {
        out.push(do_op(w, cid, 1 + k as u64, &Op::Get(k)));
    }
    leave_thread();
    out
}

fn run_random(seed: u64, case: u64, thorough: bool, completed: bool) -> Result<RandomOut, String> {
    let mut rng = Rng::for_case(seed, 3, case);
    let clients = if case == 0 { 2 } else if case == 1 { 8 } else { rng.range(2, 8) };
    let compactors = rng.range(1, 3);
    let nkeys = rng.range(2, 8) as usize;
    let nops = if thorough { rng.range(60, 400) } else { rng.range(20, 120) } as usize;
    let mem_bytes = *rng.pick(&[64u64, 64, 160, 512, 4096]);
    let pad = *rng.pick(&[0usize, 0, 40]);
    let level = rng.below(4);
    let jitter = rng.below(3);
    let mix = rng.below(3);
    // half of the runs keep scans apart from the memtable drop and from compaction steps (the
    // gate of the first version of this check, from before the D-4 / D-5 repairs); the other half
    // lets them overlap
    let gated = rng.chance(1, 2);
    let cfg = store_cfg(&mut rng, mem_bytes);
    let keys = pick_keys(&mut rng, nkeys);
    // writes that fail: in none / few / many of the operations of this run
    let fail_pct = *Rng::for_case(seed, 4, case).pick(&[0u64, 0, 3, 3, 12, 30]);
    let desc = format!("clients={} compactors={} keys={} ops={} mem={} pad={} yield={} jitter={} mix={} scan-gate={} failing-writes={}% {}", clients, compactors, nkeys, nops, mem_bytes, pad, level, jitter, mix, gated, fail_pct, cfg.render());
    lsmtk::verif::versions_reset();
    let (w, root) = open_world(&format!("c06r{}", case), &cfg, keys.clone(), pad, false, gated)?;
    let _ = lsmtk::verif::take_events();
    let (seq0, mem0, _, _) = w.kvs.verif_state();
    lsmtk::verif::events_enable(true);
    let stop_flush = Arc::new(AtomicBool::new(false));
    let stop_comp = Arc::new(AtomicBool::new(false));
    let errors = Arc::new(Mutex::new(vec![]));
    let ncomp = Arc::new(Mutex::new(0u64));
    let flush = {
        let (w, s, e) = (Arc::clone(&w), Arc::clone(&stop_flush), Arc::clone(&errors));
        let r = Rng::for_case(seed, 900, case);
        std::thread::spawn(move || flush_main(w, s, r, level, e))
    };
    let comps: Vec<_> = (0..compactors)
        .map(|_| {
            let (w, s, e, d) = (Arc::clone(&w), Arc::clone(&stop_comp), Arc::clone(&errors), Arc::clone(&ncomp));
            std::thread::spawn(move || compaction_main(w, s, e, d))
        })
        .collect();
    let barrier = Arc::new(std::sync::Barrier::new(clients as usize));
    let (tx, rx) = std::sync::mpsc::channel::<Vec<OpRec>>();
    for cid in 0..clients {
        let w = Arc::clone(&w);
        let tx = tx.clone();
        let barrier = Arc::clone(&barrier);
        let ops = gen_ops(&mut Rng::for_case(seed, 100 + cid, case), cid, nops, nkeys, mix, fail_pct);
        let r = Rng::for_case(seed, 500 + cid, case);
        std::thread::spawn(move || {
            barrier.wait();
            let recs = client_main(w, cid, ops, r, level, jitter);
            let _ = tx.send(recs);
        });
    }
    drop(tx);
    let deadline = Instant::now() + Duration::from_secs(if thorough { 240 } else { 90 });
    let mut ops: Vec<OpRec> = vec![];
    let mut finished = 0;
    let mut stuck = None;
    // the log is drained as the run goes; no operation finished and no event for a while = no progress
    let mut events: Vec<Event> = vec![];
    let mut last_done = OPS_DONE.load(Ordering::SeqCst);
    let mut last_progress = Instant::now();
    while finished < clients {
        match rx.recv_timeout(Duration::from_millis(200)) {
            Ok(r) => {
                ops.extend(r);
                finished += 1;
                last_progress = Instant::now();
                continue;
            }
            Err(std::sync::mpsc::RecvTimeoutError::Disconnected) => {
                stuck = Some(format!("{} of {} clients ended without a result", clients - finished, clients));
                break;
            }
            Err(_) => {}
        }
        let done = OPS_DONE.load(Ordering::SeqCst);
        let mut fresh = lsmtk::verif::take_events();
        // (the polled flush / compaction loops emit events all the time: only client progress counts)
        if done != last_done {
            last_done = done;
            last_progress = Instant::now();
        }
        events.append(&mut fresh);
        let quiet = last_progress.elapsed();
        // a head of the wait list that sleeps is woken by nobody: no need to wait long for that
        if (quiet > Duration::from_secs(5) && head_of_wait_list_asleep(&events)) || quiet > Duration::from_secs(60) || Instant::now() > deadline {
            stuck = Some(format!("{} of {} clients did not finish: no client operation returned for {} s", clients - finished, clients, quiet.as_secs()));
            break;
        }
    }
    if stuck.is_some() {
        // threads may be parked inside the store for ever: leave them and the store behind
        lsmtk::verif::events_enable(false);
        events.append(&mut lsmtk::verif::take_events());
        stop_flush.store(true, Ordering::SeqCst);
        stop_comp.store(true, Ordering::SeqCst);
        let hist = History { completed, seq0, mem0, keys, ops, events, explicit_looks: false, look_obs: vec![], end_state: (0, 0, false), bg_errors: errors.lock().unwrap().clone(), stuck };
        std::mem::forget(w);
        return Ok(RandomOut { hist, desc, compactions: 0, clients, gated });
    }
    stop_flush.store(true, Ordering::SeqCst);
    let _ = flush.join();
    stop_comp.store(true, Ordering::SeqCst);
    for c in comps {
        let _ = c.join();
    }
    ops.extend(final_reads(&w, clients, nkeys));
    lsmtk::verif::events_enable(false);
    events.append(&mut lsmtk::verif::take_events());
    let (s, m, _, imm) = w.kvs.verif_state();
    let bg_errors = errors.lock().unwrap().clone();
    let compactions = *ncomp.lock().unwrap();
    close_world(w, &root);
    Ok(RandomOut { hist: History { completed, seq0, mem0, keys, ops, events, explicit_looks: false, look_obs: vec![], end_state: (s, m, imm), bg_errors, stuck: None }, desc, compactions, clients, gated })
}

// ---------------------------------------------------------------------------- directed runs -----

/// the director: client 0 of a directed run; every read it makes is followed by a `c06.look.*`
/// event at which the model must compute the same answer
struct Director {
    w: Arc<World>,
    next: u64,
    ops: Vec<OpRec>,
    look_obs: Vec<String>,
}

impl Director {
    fn write(&mut self, es: Vec<(usize, Option<u64>)>) {
        let r = do_op(&self.w, 0, self.next, &Op::Write(es));
        self.next += 1;
        self.ops.push(r);
    }
    fn put(&mut self, k: usize) {
        let v = vid(0, self.next, 0);
        self.write(vec![(k, Some(v))]);
    }
    fn get(&mut self, k: usize) {
        let r = do_op(&self.w, 0, self.next, &Op::Get(k));
        let rid = rid_of(0, self.next);
        lsmtk::verif::emit("c06.look.get", [rid, k as u64, 0]);
        self.look_obs.push(render_get(&self.w.keys, rid, &r.res));
        self.next += 1;
        self.ops.push(r);
    }
    fn scan(&mut self, lo: usize, hi: usize) {
        let r = do_op(&self.w, 0, self.next, &Op::Scan(lo, hi));
        let rid = rid_of(0, self.next);
        lsmtk::verif::emit("c06.look.scan", [rid, lo as u64, hi as u64]);
        self.look_obs.push(render_scan(&self.w.keys, rid, &r.res));
        self.next += 1;
        self.ops.push(r);
    }
    /// a scan taken in steps: after the first entry has been read, `between` runs (it lets a
    /// parked writer finish), then the cursor is walked to its end
    fn scan_in_steps(&mut self, lo: usize, hi: usize, between: impl FnOnce()) {
        let w = Arc::clone(&self.w);
        let idx = self.next;
        let rid = rid_of(0, idx);
        let keys = w.keys.clone();
        w.sched.gate.read_lock();
        lsmtk::verif::emit("c06.inv", [0, idx, 0]);
        let mut look_obs: Vec<String> = vec![];
        let r = guarded(AssertUnwindSafe(|| -> Result<Vec<(Vec<u8>, Option<Vec<u8>>)>, String> {
            let lo_b: Bound<&[u8]> = Bound::Included(keys[lo].as_slice());
            let hi_b: Bound<&[u8]> = Bound::Included(keys[hi].as_slice());
            let mut c = w.kvs.range_scan::<&[u8]>(&lo_b, &hi_b).map_err(errs)?;
            c.seek_to_first().map_err(errs)?;
            let mut out: Vec<(Vec<u8>, Option<Vec<u8>>)> = vec![];
            let mut covered = lo; // next key index not yet reported
            let mut between = Some(between);
            loop {
                c.next().map_err(errs)?;
                let ent = c.key_value().map(|kv| (kv.key.to_vec(), kv.value.map(|v| v.to_vec())));
                match ent {
                    Some(e) => {
                        let ki = keys.iter().position(|x| *x == e.0).unwrap_or(hi);
                        lsmtk::verif::emit("c06.look.scan", [rid, covered as u64, ki as u64]);
                        look_obs.push(render_scan_entries(&keys, rid, std::slice::from_ref(&e)));
                        covered = ki + 1;
                        out.push(e);
                        if let Some(f) = between.take() {
                            f();
                        }
                    }
                    None => {
                        if covered <= hi {
                            lsmtk::verif::emit("c06.look.scan", [rid, covered as u64, hi as u64]);
                            look_obs.push(render_scan_entries(&keys, rid, &[]));
                        }
                        break;
                    }
                }
                if out.len() > 1000 {
                    return Err("scan-does-not-end".into());
                }
            }
            Ok(out)
        }));
        lsmtk::verif::emit("c06.resp", [0, idx, 0]);
        w.sched.gate.read_unlock();
        self.look_obs.extend(look_obs);
        let res = match r {
            Ok(r) => Res::S(r),
            Err(m) => Res::Panic(m),
        };
        self.next += 1;
        self.ops.push(OpRec { cid: 0, idx, op: Op::Scan(lo, hi), res });
    }
}

fn spawn_client(w: &Arc<World>, cid: u64, ops: Vec<Op>) -> std::thread::JoinHandle<Vec<OpRec>> {
    let w = Arc::clone(w);
    std::thread::spawn(move || client_main(w, cid, ops, Rng::new(cid), 0, 0))
}

/// join a client thread, waiting at most `secs` for it (a thread that does not come back is left
/// behind, asleep inside the store)
fn join_bounded(t: std::thread::JoinHandle<Vec<OpRec>>, secs: u64) -> Option<Vec<OpRec>> {
    let deadline = Instant::now() + Duration::from_secs(secs);
    while !t.is_finished() {
        if Instant::now() > deadline {
            return None;
        }
        std::thread::sleep(Duration::from_millis(2));
    }
    t.join().ok()
}

struct DirectedOut {
    hist: History,
    desc: String,
}

/// variant 0: snapshot between two inserts of one batch; 1: a writer in flight at scan-open time
/// finishes while the cursor is open; 2: a batch fully inserted behind a slower, earlier writer;
/// 3: the probe (one put parked after its log append, one load); 4: a reader parked right after it
/// cloned the tree version while the flush thread installs its version and clears `imm`; 5: a write
/// that fails while it is queued behind a batch parked between two of its inserts, readers in the
/// window; 6: a write that fails as HEAD of the wait list while two writers sleep behind it
fn run_directed(seed: u64, case: u64, variant: u64, completed: bool) -> Result<DirectedOut, String> {
    let mut rng = Rng::for_case(seed, 1, case);
    let nkeys = rng.range(3, 6) as usize;
    let keys = pick_keys(&mut rng, nkeys);
    let cfg = store_cfg(&mut rng, 1 << 20);
    lsmtk::verif::versions_reset();
    let (w, root) = open_world(&format!("c06d{}", case), &cfg, keys.clone(), 0, true, false)?;
    let _ = lsmtk::verif::take_events();
    let (seq0, mem0, _, _) = w.kvs.verif_state();
    lsmtk::verif::events_enable(true);
    enter_thread(&w.sched, Rng::new(0), 0);
    lsmtk::verif::emit("c06.client", [0, 0, 0]);
    let mut d = Director { w: Arc::clone(&w), next: 0, ops: vec![], look_obs: vec![] };
    let mut others: Vec<OpRec> = vec![];
    let mut stuck: Option<String> = None;
    let prepopulate = rng.chance(1, 2);
    // three distinct key indexes a < b < c
    let mut ks: Vec<usize> = (0..nkeys).collect();
    rng.shuffle(&mut ks);
    let mut abc: Vec<usize> = ks.into_iter().take(3).collect();
    abc.sort();
    let (a, b, c) = (abc[0], abc[1], abc[2]);
    let del_second = rng.chance(1, 4);
    let desc;
    match variant {
        0 => {
            let three = rng.chance(1, 3);
            let after = if three { rng.below(2) } else { 0 };
            desc = format!("between-inserts keys={} batch={} parked-after-insert={} prepopulated={} del={}", nkeys, if three { 3 } else { 2 }, after, prepopulate, del_second);
            if prepopulate {
                d.put(a);
                d.put(b);
                d.put(c);
            }
            let blk = w.sched.block("kvs.write.insert", u64::MAX, after);
            let mut es = vec![(a, Some(vid(1, 0, 0))), (b, if del_second && prepopulate { None } else { Some(vid(1, 0, 1)) })];
            if three {
                es.push((c, Some(vid(1, 0, 2))));
            }
            let t = spawn_client(&w, 1, vec![Op::Write(es)]);
            if !w.sched.wait_hit(blk) {
                stuck = Some("the writer never reached its first insert".into());
            }
            d.scan(0, nkeys - 1);
            d.get(a);
            d.get(b);
            w.sched.release(blk);
            others.extend(t.join().unwrap_or_default());
            d.scan(0, nkeys - 1);
        }
        1 => {
            desc = format!("open-cursor keys={} del={}", nkeys, del_second);
            d.put(a);
            d.put(b);
            d.put(c);
            let blk = w.sched.block("kvs.write.logged", u64::MAX, u64::MAX);
            let es = vec![(a, Some(vid(1, 0, 0))), (c, if del_second { None } else { Some(vid(1, 0, 1)) })];
            let t = spawn_client(&w, 1, vec![Op::Write(es)]);
            if !w.sched.wait_hit(blk) {
                stuck = Some("the writer never reached its log append".into());
            }
            let mut t = Some(t);
            let sched = Arc::clone(&w.sched);
            let mut joined: Vec<OpRec> = vec![];
            d.scan_in_steps(0, nkeys - 1, || {
                sched.release(blk);
                if let Some(t) = t.take() {
                    joined = t.join().unwrap_or_default();
                }
            });
            others.extend(joined);
            d.scan(0, nkeys - 1);
        }
        2 => {
            desc = format!("inserted-behind-slower-writer keys={} prepopulated={}", nkeys, prepopulate);
            if prepopulate {
                d.put(a);
                d.put(b);
            }
            let blk = w.sched.block("kvs.write.logged", u64::MAX, u64::MAX);
            let t1 = spawn_client(&w, 1, vec![Op::Write(vec![(c, Some(vid(1, 0, 0)))])]);
            if !w.sched.wait_hit(blk) {
                stuck = Some("the first writer never reached its log append".into());
            }
            let t2 = spawn_client(&w, 2, vec![Op::Write(vec![(a, Some(vid(2, 0, 0))), (b, Some(vid(2, 0, 1)))])]);
            if !w.sched.wait_passed("kvs.write.inserted", None) {
                stuck = Some("the second writer never finished inserting".into());
            }
            std::thread::sleep(Duration::from_millis(2));
            d.scan(0, nkeys - 1);
            d.get(a);
            d.get(c);
            w.sched.release(blk);
            others.extend(t1.join().unwrap_or_default());
            others.extend(t2.join().unwrap_or_default());
            d.scan(0, nkeys - 1);
        }
        4 => {
            // C06-tree-snapshot-outside-lock: a reader that holds a tree version while the flush
            // thread installs the version with the flushed file and clears `imm`
            let older = rng.chance(1, 2);
            desc = format!("tree-version-vs-clear keys={} older-version-flushed={}", nkeys, older);
            let stop = Arc::new(AtomicBool::new(false));
            let errors = Arc::new(Mutex::new(vec![]));
            let flush = {
                let (w, s, e) = (Arc::clone(&w), Arc::clone(&stop), Arc::clone(&errors));
                std::thread::spawn(move || flush_main(w, s, Rng::new(7), 0, e))
            };
            if older {
                // an older value of the key, flushed completely first
                d.put(a);
                d.put(b);
                w.kvs.verif_request_flush();
                if !w.sched.wait_passed_for("kvs.flush.cleared.locked", Duration::from_secs(30)) {
                    stuck = Some("the first flush never completed".into());
                }
            }
            d.put(a);
            d.put(c);
            // the flush thread parks inside `_ingest`, holding the old version, before the install
            let f1 = w.sched.block_role("tree.snapshot", ANY, ANY, ROLE_FLUSH);
            w.kvs.verif_request_flush();
            if !w.sched.wait_hit(f1) {
                stuck = Some("the flush thread never reached its ingest".into());
            }
            // the reader parks right after it cloned the tree version
            let r1 = w.sched.block_role("tree.snapshot", ANY, ANY, ROLE_CLIENT);
            let reader_scans = rng.chance(1, 3);
            let t = spawn_client(&w, 1, vec![if reader_scans { Op::Scan(0, nkeys - 1) } else { Op::Get(a) }]);
            if !w.sched.wait_hit(r1) {
                stuck = Some("the reader never cloned the tree version".into());
            }
            let cleared_before = w.sched.dir.lock().unwrap().passed.iter().filter(|p| p.0 == "kvs.flush.cleared.locked").count();
            w.sched.release(f1);
            // the flush thread goes on: install, then `imm = None` under the store mutex.  A store
            // that clones the version inside its critical section has the reader holding that
            // mutex: the flush thread waits, and so do we — for a bounded time.
            let deadline = Instant::now() + Duration::from_millis(150);
            loop {
                let n = w.sched.dir.lock().unwrap().passed.iter().filter(|p| p.0 == "kvs.flush.cleared.locked").count();
                if n > cleared_before || Instant::now() >= deadline {
                    break;
                }
                std::thread::sleep(Duration::from_micros(200));
            }
            w.sched.release(r1);
            others.extend(t.join().unwrap_or_default());
            if !w.sched.wait_passed_for("kvs.flush.cleared.locked", Duration::from_secs(30)) {
                stuck = Some("the flush never completed".into());
            }
            // (with `older`, the first flush's event satisfies the wait above: wait for the count)
            let t0 = Instant::now();
            while w.sched.dir.lock().unwrap().passed.iter().filter(|p| p.0 == "kvs.flush.cleared.locked").count() <= cleared_before && t0.elapsed() < Duration::from_secs(30) {
                std::thread::sleep(Duration::from_micros(200));
            }
            stop.store(true, Ordering::SeqCst);
            let _ = flush.join();
            for e in errors.lock().unwrap().iter() {
                stuck = Some(format!("flush thread: {}", e));
            }
            d.get(a);
            d.get(c);
        }
        5 => {
            let kind = *rng.pick(&[0u8, 0, 1, 2]);
            let three = rng.chance(1, 3);
            let after = if three { rng.below(2) } else { 0 };
            desc = format!("failing-write-behind-batch-mid-insert keys={} batch={} parked-after-insert={} failing={} prepopulated={}", nkeys, if three { 3 } else { 2 }, after, fail_code(kind), prepopulate);
            if prepopulate {
                d.put(a);
                d.put(b);
                d.put(c);
            }
            let blk = w.sched.block("kvs.write.insert", u64::MAX, after);
            let mut es = vec![(a, Some(vid(1, 0, 0))), (b, Some(vid(1, 0, 1)))];
            if three {
                es.push((c, Some(vid(1, 0, 2))));
            }
            let t1 = spawn_client(&w, 1, vec![Op::Write(es)]);
            if !w.sched.wait_hit(blk) {
                stuck = Some("the batch writer never reached its insert".into());
            }
            let from = w.sched.passed_len();
            // the failing write names a key of the parked batch (its value must never show)
            let fes = if kind == 0 { vec![] } else { vec![(b, Some(vid(2, 0, 0)))] };
            let t2 = spawn_client(&w, 2, vec![Op::FailWrite(kind, fes)]);
            // it fails behind the parked batch.  The repaired store makes it wait for its turn (it
            // goes to sleep in the wait list); the store as found lets it leave at once.
            if !w.sched.wait_passed_since(from, &["kvs.write.failed", "kvs.write.finish.locked"], 1, Duration::from_secs(30)) {
                stuck = Some("the failing write never failed".into());
            }
            // (… until it sleeps there or has left: a bounded wait, the window is the same either way)
            let _ = w.sched.wait_passed_since(from, &["kvs.write.wait.locked", "kvs.write.abandon.locked", "kvs.write.finish.locked"], 1, Duration::from_millis(300));
            let _ = w.kvs.verif_state();
            d.scan(0, nkeys - 1);
            d.get(a);
            d.get(b);
            w.sched.release(blk);
            for (n, t) in [(1, t1), (2, t2)] {
                match join_bounded(t, 30) {
                    Some(r) => others.extend(r),
                    None => stuck = Some(format!("client {} did not return within 30 s of the batch writer's release", n)),
                }
            }
            d.scan(0, nkeys - 1);
            d.get(b);
        }
        6 => {
            let kind = *rng.pick(&[0u8, 0, 1, 2]);
            desc = format!("failing-write-at-head-with-successors-asleep keys={} failing={} prepopulated={}", nkeys, fail_code(kind), prepopulate);
            if prepopulate {
                d.put(a);
                d.put(c);
            }
            // the failing write parks right after it has taken its place: it is the head
            let blk = w.sched.block("kvs.write.linked", u64::MAX, u64::MAX);
            let fes = if kind == 0 { vec![] } else { vec![(a, Some(vid(1, 0, 0)))] };
            let t1 = spawn_client(&w, 1, vec![Op::FailWrite(kind, fes)]);
            if !w.sched.wait_hit(blk) {
                stuck = Some("the failing writer never took its place in the wait list".into());
            }
            let from = w.sched.passed_len();
            let t2 = spawn_client(&w, 2, vec![Op::Write(vec![(a, Some(vid(2, 0, 0))), (b, Some(vid(2, 0, 1)))])]);
            if !w.sched.wait_passed_since(from, &["kvs.write.wait.locked"], 1, Duration::from_secs(30)) {
                stuck = Some("the second writer never queued behind the head".into());
            }
            let t3 = spawn_client(&w, 3, vec![Op::Write(vec![(c, Some(vid(3, 0, 0)))])]);
            if !w.sched.wait_passed_since(from, &["kvs.write.wait.locked"], 2, Duration::from_secs(30)) {
                stuck = Some("the third writer never queued behind the head".into());
            }
            // both have given the store mutex up in `naked_wait` (the point is passed under it): asleep
            let _ = w.kvs.verif_state();
            d.get(a);
            d.scan(0, nkeys - 1);
            w.sched.release(blk);
            // the head fails and leaves; the writers behind it must be woken and return
            match join_bounded(t1, 30) {
                Some(r) => others.extend(r),
                None => stuck = Some("the failing write did not return".into()),
            }
            for (n, t) in [(2, t2), (3, t3)] {
                match join_bounded(t, 8) {
                    Some(r) => others.extend(r),
                    None => stuck = Some(format!("writer {} did not return within 8 s of the return of the write that failed ahead of it", n)),
                }
            }
            d.get(a);
            d.get(c);
            d.scan(0, nkeys - 1);
        }
        _ => {
            desc = "probe".to_string();
            let blk = w.sched.block("kvs.write.logged", u64::MAX, u64::MAX);
            let t = spawn_client(&w, 1, vec![Op::Write(vec![(a, Some(vid(1, 0, 0)))])]);
            if !w.sched.wait_hit(blk) {
                stuck = Some("the writer never reached its log append".into());
            }
            d.get(a);
            w.sched.release(blk);
            others.extend(t.join().unwrap_or_default());
            d.get(a);
        }
    }
    w.sched.release_all();
    leave_thread();
    lsmtk::verif::events_enable(false);
    let events = lsmtk::verif::take_events();
    let (s, m, _, imm) = w.kvs.verif_state();
    let mut ops = std::mem::take(&mut d.ops);
    ops.extend(others);
    let look_obs = std::mem::take(&mut d.look_obs);
    drop(d);
    close_world(w, &root);
    Ok(DirectedOut { hist: History { completed, seq0, mem0, keys, ops, events, explicit_looks: true, look_obs, end_state: (s, m, imm), bg_errors: vec![], stuck }, desc })
}

/// which timestamp do readers use?  From the probe's events: the load ran while a write with an
/// assigned sequence number was parked before its first insert.
fn detect_policy(h: &History) -> Option<bool> {
    let mut seq_no = None;
    for (_, _, tag, a) in &h.events {
        match *tag {
            "kvs.load.snap.locked" if seq_no.is_none() => seq_no = Some(a[0]),
            "kvs.load.ts" => return seq_no.map(|s| a[0] < s),
            _ => {}
        }
    }
    None
}

/// D-16: a batch naming one key twice, on its own
fn run_dup(seed: u64, case: u64, completed: bool) -> Result<(DirectedOut, String), String> {
    let mut rng = Rng::for_case(seed, 2, case);
    let nkeys = rng.range(2, 5) as usize;
    let keys = pick_keys(&mut rng, nkeys);
    let cfg = store_cfg(&mut rng, 1 << 20);
    lsmtk::verif::versions_reset();
    let (w, root) = open_world(&format!("c06u{}", case), &cfg, keys.clone(), 0, true, false)?;
    let _ = lsmtk::verif::take_events();
    let (seq0, mem0, _, _) = w.kvs.verif_state();
    lsmtk::verif::events_enable(true);
    enter_thread(&w.sched, Rng::new(0), 0);
    lsmtk::verif::emit("c06.client", [0, 0, 0]);
    let mut d = Director { w: Arc::clone(&w), next: 0, ops: vec![], look_obs: vec![] };
    let k = rng.below(nkeys as u64) as usize;
    let other = (k + 1) % nkeys;
    if rng.chance(1, 2) {
        d.put(other);
    }
    let i = d.next;
    let es: Vec<(usize, Option<u64>)> = match case % 4 {
        0 => vec![(k, Some(vid(0, i, 0))), (k, Some(vid(0, i, 1)))],
        1 => vec![(k, Some(vid(0, i, 0))), (other, Some(vid(0, i, 1))), (k, Some(vid(0, i, 2)))],
        2 => vec![(k, None), (k, None)],
        _ => vec![(other, Some(vid(0, i, 0))), (k, Some(vid(0, i, 1))), (k, None)],
    };
    let desc = format!("dup keys={} batch={}", nkeys, render_batch(&es));
    d.write(es);
    let panicked = matches!(d.ops.last().map(|o| &o.res), Some(Res::Panic(_)));
    // the store afterwards: does another write still work, does it reopen?
    let after = guarded(AssertUnwindSafe(|| w.kvs.put(&w.keys[other], b"after").map_err(errs)));
    leave_thread();
    lsmtk::verif::events_enable(false);
    let events = lsmtk::verif::take_events();
    let (s, m, _, imm) = w.kvs.verif_state();
    let ops = std::mem::take(&mut d.ops);
    drop(d);
    drop(w);
    let reopen = guarded(AssertUnwindSafe(|| KeyValueStore::open(cfg.options(&root)).map(|_| ()).map_err(errs)));
    let _ = std::fs::remove_dir_all(&root);
    let note = format!(
        "panicked={} write-after={} reopen={}",
        panicked,
        match after {
            Ok(Ok(())) => "ok".to_string(),
            Ok(Err(e)) => format!("err:{}", e),
            Err(m) => format!("panic:{}", m),
        },
        match reopen {
            Ok(Ok(())) => "ok".to_string(),
            Ok(Err(e)) => format!("err:{}", e.chars().take(60).collect::<String>()),
            Err(m) => format!("panic:{}", m.chars().take(60).collect::<String>()),
        }
    );
    Ok((DirectedOut { hist: History { completed, seq0, mem0, keys, ops, events, explicit_looks: true, look_obs: vec![], end_state: (s, m, imm), bg_errors: vec![], stuck: None }, desc }, note))
}

// ====================================================================================== main =====

fn add_stats(rec: &mut Recorder, prefix: &str, st: &Stats) {
    for (k, v) in [
        ("writes", st.writes),
        ("batches", st.batches),
        ("gets", st.gets),
        ("scans", st.scans),
        ("rotations", st.rotations),
        ("version_installs", st.installs),
        ("snapshots", st.snaps),
        ("snapshots_with_writer_in_flight", st.snaps_with_writer_in_flight),
        ("snapshots_with_imm", st.snaps_with_imm),
        ("snapshots_between_install_and_clear", st.snaps_between_install_and_clear),
        ("snapshots_between_rotate_and_wait_list_head", st.snaps_between_rotate_and_head),
        ("exposed_reads", st.exposed_reads),
        ("reads_returning_a_write_that_had_not_returned", st.reads_of_unreturned_write),
        ("scan_x_batch_pairs_checked", st.scans_crossing_batch),
        ("events", st.events),
        ("reader_tree_snapshots", st.tree_snapshots),
        ("reader_tree_snapshots_between_install_and_clear", st.tree_snapshots_between_install_and_clear),
        ("failed_writes", st.failed_writes),
        ("failed_writes_leaving_as_head", st.failed_at_head),
        ("failed_writes_leaving_as_head_with_a_successor_asleep", st.failed_at_head_with_successor_asleep),
        ("writes_failing_while_queued_behind_a_batch_mid_insert", st.failed_behind_batch_mid_insert),
        ("failed_writes_leaving_out_of_turn", st.failed_left_out_of_turn),
        ("snapshots_with_a_failing_write_linked", st.snaps_with_failed_write_linked),
        ("writers_that_slept_in_the_wait_list", st.writers_that_slept_in_the_wait_list),
    ] {
        rec.add(&format!("{}.{}", prefix, k), v);
    }
}

pub fn run(args: &Args) {
    let mut rec = Recorder::new(&args.out, args.only_case);
    install_hook();
    let n_dir: u64 = if args.thorough { 60 } else { 18 };
    let n_dup: u64 = if args.thorough { 12 } else { 4 };
    let n_rand: u64 = if args.thorough { 600 } else { 140 };
    let mut policy_note = String::new();

    // ---- case 0: the probe decides which read-timestamp policy the tree under test has -------
    let completed = match run_directed(args.seed, 0, 3, false) {
        Ok(out) => {
            let c = detect_policy(&out.hist);
            let completed = c.unwrap_or(false);
            policy_note = match c {
                Some(true) => "readers use the sequence number of the last write that left the wait list (repaired)".into(),
                Some(false) => "readers use the last assigned sequence number (D-6 present)".into(),
                None => "undetermined (no snapshot event in the probe)".into(),
            };
            if rec.wants() {
                let mut h = out.hist;
                h.completed = completed;
                let an = analyse(&h);
                rec.count("probe");
                rec.aux(&format!("case {} directed {} policy-completed={}", rec.n, out.desc, completed));
                rec.case(&an.req, &an.obs, an.verdict, Some(fnv(an.req.as_bytes())));
            } else {
                rec.skip();
            }
            completed
        }
        Err(e) => {
            rec.case("kvsw open-failed", "open-failed", Verdict::Fail { class: "open-failed".into(), detail: e }, None);
            false
        }
    };
    rec.count(if completed { "policy.read_at_last_completed" } else { "policy.read_at_last_assigned" });

    // ---- stream 1: directed schedules around D-6 ------------------------------------------------
    for i in 0..n_dir {
        if !rec.wants() {
            rec.skip();
            continue;
        }
        let variant = [0, 4, 1, 2, 5, 6][(i % 6) as usize];
        match run_directed(args.seed, 1 + i, variant, completed) {
            Ok(out) => {
                let an = analyse(&out.hist);
                rec.count(&format!("directed.variant{}", variant));
                if an.fails.iter().any(|f| f.0 == D6) {
                    rec.count(&format!("directed.variant{}.partial_batch_observed", variant));
                }
                add_stats(&mut rec, "directed", &an.stats);
                rec.aux(&format!("case {} directed {} fails={:?}", rec.n, out.desc, an.fails));
                rec.case(&an.req, &an.obs, an.verdict, Some(fnv(an.req.as_bytes())));
            }
            Err(e) => rec.case("kvsw open-failed", "open-failed", Verdict::Fail { class: "open-failed".into(), detail: e }, None),
        }
    }

    // ---- stream 2: D-16, a batch naming one key twice (only here) --------------------------------
    for i in 0..n_dup {
        if !rec.wants() {
            rec.skip();
            continue;
        }
        match run_dup(args.seed, i, completed) {
            Ok((out, note)) => {
                rec.count("dup");
                rec.aux(&format!("case {} {} {}", rec.n, out.desc, note));
                let last = out.hist.ops.last().map(|o| o.res.clone());
                match last {
                    Some(Res::W(Err(e))) => {
                        // the store refused the batch: nothing happened, nothing to replay
                        rec.count("dup.rejected");
                        let line = format!("# D-16 batch refused by write(): {} ({})", e, out.desc);
                        rec.case(&line, &line, Verdict::Ok, None);
                    }
                    _ => {
                        let an = analyse(&out.hist);
                        if an.fails.iter().any(|f| f.0 == D16) {
                            rec.count("dup.panicked");
                        }
                        if note.contains("reopen=err") || note.contains("reopen=panic") {
                            rec.count("dup.reopen_fails_afterwards");
                        }
                        if note.contains("write-after=ok") {
                            rec.count("dup.store_usable_afterwards");
                        }
                        let v = match an.verdict {
                            Verdict::Fail { class, detail } => Verdict::Fail { class, detail: format!("{} [{}] {}", out.desc, note, detail) },
                            v => v,
                        };
                        rec.case(&an.req, &an.obs, v, Some(fnv(an.req.as_bytes())));
                    }
                }
            }
            Err(e) => rec.case("kvsw open-failed", "open-failed", Verdict::Fail { class: "open-failed".into(), detail: e }, None),
        }
    }

    // ---- stream 3: random concurrent histories --------------------------------------------------
    for i in 0..n_rand {
        if !rec.wants() {
            rec.skip();
            continue;
        }
        match run_random(args.seed, i, args.thorough, completed) {
            Ok(out) => {
                let an = analyse(&out.hist);
                rec.count("random");
                rec.count(if out.gated { "random.scans_kept_apart_from_release" } else { "random.scans_overlap_release" });
                rec.count(&format!("random.clients{}", out.clients));
                rec.add("random.compactions", out.compactions);
                add_stats(&mut rec, "random", &an.stats);
                rec.aux(&format!("case {} random {} rotations={} compactions={} fails={:?}", rec.n, out.desc, an.stats.rotations, out.compactions, an.fails.iter().take(3).collect::<Vec<_>>()));
                // non-trivial: a snapshot was taken while a writer was in flight, and the memtable
                // was rotated at least once during the run
                let nt = if an.stats.snaps_with_writer_in_flight > 0 && an.stats.rotations > 0 { Some(fnv(an.req.as_bytes())) } else { None };
                if nt.is_some() {
                    rec.count("random.nontrivial");
                }
                rec.case(&an.req, &an.obs, an.verdict, nt);
            }
            Err(e) => rec.case("kvsw open-failed", "open-failed", Verdict::Fail { class: "open-failed".into(), detail: e }, None),
        }
    }
    lsmtk::verif::set_pause_hook(None);
    rec.finish(
        "one case = one recorded run of the real store (one request line = its whole event trace): a probe, directed schedules (snapshot between two inserts of a batch; writer in flight while a cursor is open; batch inserted behind a slower earlier writer; reader parked after cloning the tree version while the flush installs and clears; a write that fails - empty batch / last key or value over-long - queued behind a batch parked between two inserts with readers in the window; a write that fails parked as head of the wait list with two writers asleep behind it), duplicate-key batches (D-16, only there), and random histories of 2..8 client threads (put/del/2..4-key batch/load/scan over 2..8 keys; in two thirds of the runs 3%, 12% or 30% of the operations are writes that must fail) with the flush loop and 1..3 compaction loops running and memtables of 64..4096 bytes; non-trivial = directed runs, and random runs in which a snapshot was taken while a writer was in flight and the memtable was rotated at least once; distinct by trace text",
        &[("read_timestamp_policy", json_str(&policy_note))],
    );
}
