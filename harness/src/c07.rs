//! C07 — a scan cursor is a stable, memory-safe snapshot while the store moves under it.
//!
//! Single-stepped histories on the real `KeyValueStore` (`Sim`) in which range-scan cursors are
//! OPENED at some point — between operations, or inside a flush / a compaction through the
//! observer call-outs of `lsmtk::verif::set_probe` (immutable memtable present; the version about
//! to be replaced) — and then HELD while the store moves: writes (overwrites and deletes of keys
//! the cursor will visit, new keys inside its range), memtable rollovers and flushes (which drop
//! the memtable the cursor reads), compaction steps (which retire the SSTs the cursor reads;
//! trivial moves; garbage collection at the last level), verifier passes (which unlink trash).
//! Between the events every held cursor is stepped a little further through its program of
//! seek_to_first / seek_to_last / seek / next / prev; some cursors are not touched at all before
//! the events, so that their lazy cursors open their files late.  No reopen while a cursor is held.
//!
//! Oracle (no model): every call shows what a reference cursor over the sequential map AS IT WAS
//! WHEN THE SCAN WAS OPENED (restricted to the bounds) shows; no error, no panic; while a cursor
//! is held every file of the version it was opened on is in `sst/`; the skipfree allocation
//! registry reports no dereference of a released node, and the number of live nodes is the number
//! of nodes of the memtables that the store or a held cursor still has (released with the last
//! holder, not earlier, not later).  Thorough tier: a few histories are re-run under valgrind.
//!
//! Correspondence:
//!  (a) `kvs scan <state dumped at open time> :: <bounds> :: <whole program>` — the right-hand
//!      side of `scan_spec` on the open-time state — must equal what the held cursor showed;
//!  (b) `snap run <state dumped at open time> :: <bounds> :: <script>` — `Blue.Snap.run`: the
//!      program interleaved with the entries written into the captured memtable after the open
//!      and with markers for the other events; the model looks at the captured components as
//!      they are at each call;
//!  (c) `refs run <v0> :: I:… S … R:i …` — the FileRefs model with a snapshot event per cursor
//!      open and a release per cursor drop says which names are in `sst/` and which have left;
//!      compared with the real listing after every event.
//!
//! Streams: `limit` (directed: a cursor that let go of its files goes back to them while another
//! cursor holds every slot of a store sitting exactly at `--max-open-files`), `held` (seeded histories), `d5` (directed: the smallest histories in which the files a
//! cursor has not opened yet are retired under it), `conc` (writers, the flush loop and the
//! compaction loop as real threads while the main thread steps cursors opened at quiescent
//! points; traces vary with the schedule, verdicts do not), `window` (directed through the pause
//! hook: scans opened while an earlier-numbered batch is half inserted and a later-numbered write
//! has inserted and queues behind it; request `snap open`: the model computes the read timestamp
//! from the numbers in flight), `race2` (scans opened at arbitrary moments while a batch writer
//! and a side writer run freely, each walked twice: one round per batch, both walks equal, nothing
//! stale, nothing from the future, read timestamp below every write in flight).  The last two
//! are the property's "never shows a write that completed after the scan was opened" for writes
//! that OVERLAP the open (finding D-6 and its relatives; the proof for all interleavings is C06).
use crate::c01::{d9_trigger, state_with_ids};
use crate::common::*;
use crate::store::*;
use lsmtk::KeyValueStore;
use skipfree::verif as sv;
use sst::Cursor;
use std::collections::{BTreeMap, BTreeSet};
use std::ops::Bound;
use std::panic::AssertUnwindSafe;

/// finding D-5: decidable on the history — a compaction or flush replaced the version a held
/// cursor was opened on by one that no longer lists one of its files, and the cursor was used
/// (or its files were looked for) afterwards
const D5: &str = "cursor-held-across-retirement-of-its-files";

/// a scan shows (part of) a write that had not finished inserting when the scan was opened
const LATE: &str = "scan-shows-write-completed-after-open";

// ============================================================================ cursor programs ==

#[derive(Clone, Debug)]
enum COp {
    First,
    Last,
    Next,
    Prev,
    Seek(Vec<u8>),
}

fn gen_bound(rng: &mut Rng, nkeys: usize) -> Bound<Vec<u8>> {
    match rng.below(6) {
        0 | 1 | 2 => Bound::Unbounded,
        3 | 4 => Bound::Included(gen_key(rng, nkeys)),
        _ => Bound::Excluded(gen_key(rng, nkeys)),
    }
}

fn render_bound(b: &Bound<Vec<u8>>) -> String {
    match b {
        Bound::Unbounded => "u".into(),
        Bound::Included(k) => format!("i{}", hex(k)),
        Bound::Excluded(k) => format!("e{}", hex(k)),
    }
}

/// `shape` 0: forward walk, 1: backward walk, 2: mixed with seeks and reversals,
/// 3: walks that run off an end and come back (lazy cursors drop and re-open their file)
fn gen_program(rng: &mut Rng, nkeys: usize, shape: u64, len: usize) -> Vec<COp> {
    let mut ops = vec![];
    match shape {
        0 => {
            ops.push(if rng.chance(1, 4) { COp::Seek(gen_key(rng, nkeys)) } else { COp::First });
            while ops.len() < len {
                ops.push(COp::Next);
            }
        }
        1 => {
            ops.push(COp::Last);
            while ops.len() < len {
                ops.push(COp::Prev);
            }
        }
        2 => {
            ops.push(match rng.below(4) {
                0 => COp::Last,
                1 => COp::Seek(gen_key(rng, nkeys)),
                _ => COp::First,
            });
            while ops.len() < len {
                ops.push(match rng.below(12) {
                    0 => COp::First,
                    1 => COp::Last,
                    2 | 3 => COp::Seek(if rng.chance(1, 5) {
                        let mut k = gen_key(rng, nkeys);
                        k.push(0);
                        k
                    } else {
                        gen_key(rng, nkeys)
                    }),
                    4..=7 => COp::Next,
                    _ => COp::Prev,
                });
            }
        }
        _ => {
            // forward to the end and beyond, back again, and once more forward
            ops.push(COp::First);
            let third = (len / 3).max(2);
            for _ in 0..third {
                ops.push(COp::Next);
            }
            ops.push(COp::Last);
            for _ in 0..third {
                ops.push(COp::Prev);
            }
            ops.push(COp::First);
            while ops.len() < len {
                ops.push(COp::Next);
            }
        }
    }
    ops
}

fn render_op(o: &COp) -> String {
    match o {
        COp::First => "F".to_string(),
        COp::Last => "L".to_string(),
        COp::Next => "N".to_string(),
        COp::Prev => "P".to_string(),
        COp::Seek(k) => format!("S{}", hex(k)),
    }
}

fn render_ops(ops: &[COp]) -> String {
    ops.iter().map(render_op).collect::<Vec<_>>().join(" ")
}

fn in_range(k: &[u8], lo: &Bound<Vec<u8>>, hi: &Bound<Vec<u8>>) -> bool {
    let a = match lo {
        Bound::Unbounded => true,
        Bound::Included(b) => k >= b.as_slice(),
        Bound::Excluded(b) => k > b.as_slice(),
    };
    let b = match hi {
        Bound::Unbounded => true,
        Bound::Included(b) => k <= b.as_slice(),
        Bound::Excluded(b) => k < b.as_slice(),
    };
    a && b
}

type Shown = Option<(Vec<u8>, Vec<u8>)>;

/// reference cursor from the specification: position 0 = before first, n+1 = after last
fn ref_run(list: &[(Vec<u8>, Vec<u8>)], ops: &[COp]) -> Vec<Shown> {
    let n = list.len();
    let mut pos = 0usize;
    let mut out = vec![];
    for op in ops {
        match op {
            COp::First => pos = 0,
            COp::Last => pos = n + 1,
            COp::Next => {
                if pos <= n {
                    pos += 1
                }
            }
            COp::Prev => {
                if pos > 0 {
                    pos -= 1
                }
            }
            COp::Seek(k) => pos = list.iter().position(|e| e.0.as_slice() >= k.as_slice()).unwrap_or(n) + 1,
        }
        out.push(if pos >= 1 && pos <= n { Some(list[pos - 1].clone()) } else { None });
    }
    out
}

fn err_enum(e: &lsmtk::SError) -> String {
    let s = format!("{:?}", e);
    if s.contains("NotFound") || s.contains("No such file") {
        "file-gone".to_string()
    } else {
        let mut out = String::from("other:");
        for c in s.chars().filter(|c| c.is_ascii_alphanumeric() || *c == '_').take(60) {
            out.push(c);
        }
        out
    }
}

// ================================================================================ held cursor ==

struct Spec {
    lo: Bound<Vec<u8>>,
    hi: Bound<Vec<u8>>,
    prog: Vec<COp>,
    shape: u64,
}

struct Held {
    id: usize,
    cur: Option<Box<dyn Cursor>>,
    /// the bounds the cursor borrows; freed after the cursor
    bounds: *mut (Bound<Vec<u8>>, Bound<Vec<u8>>),
    spec: Spec,
    done: usize,
    rendered: Vec<String>,
    got: Vec<Shown>,
    err: Option<String>,
    open_state: String,
    snapshot_len: usize,
    want: Vec<Shown>,
    files: Vec<String>,
    mem_gen: u64,
    imm_gen: Option<u64>,
    opened_at: String,
    /// model script: cursor ops, `w:` entries written into the captured memtable, `e:` markers
    script: Vec<String>,
    events_crossed: usize,
    relevant_events: usize,
    stepped_after_event: bool,
    untouched_before_first_event: bool,
    mem_dropped_under: bool,
    retired_under: bool,
    used_after_retire: bool,
    unlinked_under: bool,
    /// called while other threads move the store (stream `conc`): a retirement seen after the
    /// phase may have happened before any of those calls
    called_concurrently: bool,
    /// stream `window`: the sequence numbers of the writes that were in flight (number assigned,
    /// wait list not yet left) when the scan took its snapshot, as the hooks saw them under the
    /// store's mutex; the model computes the read timestamp from them
    inflight: Option<Vec<u64>>,
    /// stream `window`: what the cursor may show instead if a write that had inserted all its
    /// entries but had not returned when the scan was opened counts as before the scan
    alt_want: Option<Vec<Shown>>,
    /// the read timestamp the scan took (event `kvs.scan.ts`), for the report
    read_ts: Option<u64>,
}

fn version_files(d: &StateDump) -> Vec<String> {
    let mut v: Vec<String> = d.levels.iter().flat_map(|l| l.iter().map(|f| hex(&f.setsum)[..12].to_string())).collect();
    v.sort();
    v
}

fn short(names: &[String]) -> BTreeSet<String> {
    names.iter().filter(|n| n.ends_with(".sst")).map(|n| n[..12].to_string()).collect()
}

fn plus(v: &[String]) -> String {
    if v.is_empty() {
        "-".into()
    } else {
        v.join("+")
    }
}

// ======================================================================= version-refs tracker ==

/// one store incarnation's event sequence for the FileRefs model, with the listing seen after
/// each event, and the oracle on the listing (files of held versions are in sst/)
struct Tracker {
    v0: Vec<String>,
    events: Vec<String>,
    observed: Vec<String>,
    sst_at_start: BTreeSet<String>,
    left: BTreeSet<String>,
    known: BTreeSet<String>,
    prev_files: Vec<String>,
    prev_levels: Vec<Vec<String>>,
    installs: usize,
    /// cursor id -> (model version index, files of that version)
    held: BTreeMap<usize, (usize, Vec<String>)>,
    complaints: Vec<String>,
    d5_fired: bool,
    snapshots: u64,
    releases: u64,
}

impl Tracker {
    fn new(sim: &Sim) -> Result<Tracker, String> {
        let d = sim.dump()?;
        let l = sim.listing();
        let sst = short(l.get("sst").ok_or("no sst dir")?);
        let v0 = version_files(&d);
        let levels = d.levels.iter().map(|l| l.iter().map(|f| hex(&f.setsum)[..12].to_string()).collect()).collect();
        Ok(Tracker { known: v0.iter().cloned().collect(), prev_files: v0.clone(), v0, events: vec![], observed: vec![], sst_at_start: sst, left: BTreeSet::new(), prev_levels: levels, installs: 0, held: BTreeMap::new(), complaints: vec![], d5_fired: false, snapshots: 0, releases: 0 })
    }

    fn observe(&mut self, sim: &Sim, what: &str) {
        let l = sim.listing();
        let sst_now = short(l.get("sst").unwrap());
        for f in self.sst_at_start.iter().chain(self.known.iter()) {
            if !sst_now.contains(f) {
                self.left.insert(f.clone());
            }
        }
        let sst_known: Vec<String> = sst_now.iter().filter(|n| self.known.contains(*n)).cloned().collect();
        let left_known: Vec<String> = self.left.iter().filter(|n| self.known.contains(*n)).cloned().collect();
        self.observed.push(format!("sst={} trash={}", plus(&sst_known), plus(&left_known)));
        for (id, (_, files)) in self.held.iter() {
            for f in files {
                if !sst_now.contains(f) {
                    self.complaints.push(format!("after {}: file {} of the version cursor {} holds is not in sst/", what, f, id));
                }
            }
        }
    }

    /// emit `I:` when the current version differs from the last one seen
    fn sync_version(&mut self, sim: &Sim, what: &str) -> Result<(), String> {
        let d = sim.dump()?;
        let files = version_files(&d);
        let levels: Vec<Vec<String>> = d.levels.iter().map(|l| l.iter().map(|f| hex(&f.setsum)[..12].to_string()).collect()).collect();
        if levels != self.prev_levels || files != self.prev_files {
            for f in &files {
                self.known.insert(f.clone());
            }
            self.events.push(format!("I:{}", plus(&files)));
            self.installs += 1;
            for (_, (_, held_files)) in self.held.iter() {
                if held_files.iter().any(|f| !files.contains(f)) {
                    self.d5_fired = true;
                }
            }
            self.observe(sim, what);
            self.prev_files = files;
            self.prev_levels = levels;
        }
        Ok(())
    }

    fn snapshot(&mut self, sim: &Sim, id: usize, files: &[String]) {
        self.events.push("S".to_string());
        self.snapshots += 1;
        self.held.insert(id, (self.installs, files.to_vec()));
        self.observe(sim, &format!("open of cursor {}", id));
    }

    fn release(&mut self, sim: &Sim, id: usize) {
        if let Some((idx, _)) = self.held.remove(&id) {
            self.events.push(format!("R:{}", idx));
            self.releases += 1;
            self.observe(sim, &format!("drop of cursor {}", id));
        }
    }

    fn flush_case(&mut self, rec: &mut Recorder, tag: &str) {
        if self.events.is_empty() {
            return;
        }
        let req = format!("refs run {} :: {}", plus(&self.v0), self.events.join(" "));
        rec.count("refs.incarnations");
        rec.add("refs.installs", self.installs as u64);
        rec.add("refs.snapshots", self.snapshots);
        rec.add("refs.releases", self.releases);
        let v = if !self.complaints.is_empty() {
            Verdict::Fail { class: if self.d5_fired { D5.to_string() } else { "held-file-not-in-sst".to_string() }, detail: format!("{} {}", tag, self.complaints.iter().take(3).cloned().collect::<Vec<_>>().join("; ")) }
        } else {
            Verdict::Ok
        };
        let nontrivial = self.snapshots >= 1 && self.installs >= 1;
        rec.case(&req, &self.observed.join(" | "), v, if nontrivial { Some(fnv(req.as_bytes())) } else { None });
    }
}

// ==================================================================================== history ==

struct Hist {
    sim: Sim,
    cache: u64,
    trk: Tracker,
    cursors: Vec<Held>,
    next_id: usize,
    /// generation of the store's current memtable = gen_base + sim.flushes
    gen_base: u64,
    /// nodes allocated per memtable generation (head included)
    gen_nodes: BTreeMap<u64, usize>,
    tag: String,
    fails: Vec<(String, String)>,
    /// what the implementation showed, per emitted case (for the valgrind comparison)
    impl_log: Vec<String>,
    in_flush: bool,
    /// cursors to open inside the next flush / compaction: (probe tag, spec)
    pending: Vec<(&'static str, Spec)>,
    opened_in_probe: BTreeMap<String, u64>,
    defer_snapshot: bool,
    deferred: Vec<(usize, Vec<String>)>,
}

fn options(cfg: &Cfg, root: &str, cache: u64) -> lsmtk::LsmtkOptions {
    use arrrg::CommandLine;
    let args: Vec<String> = vec![
        "--path".into(),
        root.into(),
        "--memtable-size-bytes".into(),
        cfg.memtable_bytes.to_string(),
        "--sst-target-file-size".into(),
        cfg.target_file.to_string(),
        "--sst-minimum-file-size".into(),
        cfg.min_file.to_string(),
        "--sst-target-block-size".into(),
        cfg.target_block.to_string(),
        "--l0-mandatory-compaction-threshold-files".into(),
        cfg.l0_mandatory_files.to_string(),
        "--l0-write-stall-threshold-files".into(),
        cfg.l0_stall_files.to_string(),
        "--max-compaction-files".into(),
        cfg.max_compaction_files.to_string(),
        "--gc-policy".into(),
        format!("versions = {}", cfg.gc_versions),
        "--mani-log-rollover-ratio".into(),
        cfg.mani_ratio.to_string(),
        "--sst-cache-bytes".into(),
        cache.to_string(),
    ];
    let refs: Vec<&str> = args.iter().map(|s| s.as_str()).collect();
    let (opts, free) = lsmtk::LsmtkOptions::from_arguments_relaxed("blueharness", &refs);
    assert!(free.is_empty(), "free args: {:?}", free);
    opts
}

fn open_sim(root: &str, cfg: &Cfg, cache: u64) -> Result<Sim, String> {
    let mut sim = Sim::open(root, cfg)?;
    // the same store again with the SST cache size of this history
    sim.kvs = None;
    sim.kvs = Some(KeyValueStore::open(options(cfg, root, cache)).map_err(|e| err_enum(&e))?);
    Ok(sim)
}

impl Hist {
    fn cur_gen(&self) -> u64 {
        self.gen_base + self.sim.flushes + if self.in_flush { 1 } else { 0 }
    }

    fn fail(&mut self, class: &str, detail: String) {
        self.fails.push((class.to_string(), detail));
    }

    /// nodes alive according to who still holds which memtable
    fn check_registry(&mut self, at: &str) {
        let (live, _freed, viol) = sv::registry_report();
        if !viol.is_empty() {
            self.fail("node-dereferenced-after-release", format!("{} {}: the allocation registry saw {} ({} in all)", self.tag, at, viol[0].0, viol.len()));
        }
        let mut alive: BTreeSet<u64> = BTreeSet::new();
        alive.insert(self.cur_gen());
        for c in &self.cursors {
            alive.insert(c.mem_gen);
            if let Some(g) = c.imm_gen {
                alive.insert(g);
            }
        }
        let expected: usize = alive.iter().map(|g| *self.gen_nodes.get(g).unwrap_or(&1)).sum();
        if live != expected {
            self.fail("memtable-nodes-not-released-with-last-holder", format!("{} {}: {} skiplist nodes alive, {} expected (memtable generations held: {:?})", self.tag, at, live, expected, alive));
        }
    }

    fn open_cursor(&mut self, spec: Spec, at: &str) {
        let id = self.next_id;
        self.next_id += 1;
        let dump = self.sim.dump();
        let (open_state, files) = match &dump {
            Ok(d) => (state_with_ids(d), version_files(d)),
            Err(e) => {
                self.fail("dump-error", format!("{} {}", self.tag, e));
                return;
            }
        };
        let snapshot: Vec<(Vec<u8>, Vec<u8>)> = self.sim.oracle.iter().filter_map(|(k, v)| v.as_ref().map(|v| (k.clone(), v.clone()))).filter(|(k, _)| in_range(k, &spec.lo, &spec.hi)).collect();
        let want = ref_run(&snapshot, &spec.prog);
        let bounds = Box::into_raw(Box::new((spec.lo.clone(), spec.hi.clone())));
        // SAFETY: the store outlives every held cursor (cursors are closed before the store is
        // dropped or reopened) and does not move (it lives inside `self.sim`, which stays put
        // while the history runs); the bounds are freed after the cursor.
        let kvs: &'static KeyValueStore = unsafe { &*(self.sim.kvs() as *const KeyValueStore) };
        let b: &'static (Bound<Vec<u8>>, Bound<Vec<u8>>) = unsafe { &*bounds };
        let opened = guarded(AssertUnwindSafe(|| kvs.range_scan(&b.0, &b.1).map(|c| Box::new(c) as Box<dyn Cursor>)));
        let (cur, err) = match opened {
            Ok(Ok(c)) => (Some(c), None),
            Ok(Err(e)) => (None, Some(err_enum(&e))),
            Err(p) => (None, Some(format!("panic:{}", p.chars().filter(|c| !c.is_whitespace()).take(40).collect::<String>()))),
        };
        let mem_gen = self.cur_gen();
        let imm_gen = if self.in_flush { Some(mem_gen - 1) } else { None };
        if cur.is_some() {
            if self.defer_snapshot {
                self.deferred.push((id, files.clone()));
            } else {
                self.trk.snapshot(&self.sim, id, &files);
            }
        }
        self.cursors.push(Held {
            id,
            cur,
            bounds,
            spec,
            done: 0,
            rendered: vec![],
            got: vec![],
            err,
            open_state,
            snapshot_len: snapshot.len(),
            want,
            files,
            mem_gen,
            imm_gen,
            opened_at: at.to_string(),
            script: vec![],
            events_crossed: 0,
            relevant_events: 0,
            stepped_after_event: false,
            untouched_before_first_event: false,
            mem_dropped_under: false,
            retired_under: false,
            used_after_retire: false,
            unlinked_under: false,
            called_concurrently: false,
            inflight: None,
            alt_want: None,
            read_ts: None,
        });
    }

    /// run the next `n` calls of cursor `i`
    fn step_cursor(&mut self, i: usize, n: usize) {
        let c = &mut self.cursors[i];
        for _ in 0..n {
            if c.err.is_some() || c.done >= c.spec.prog.len() {
                return;
            }
            let op = c.spec.prog[c.done].clone();
            let cur = c.cur.as_mut().unwrap();
            let r = guarded(AssertUnwindSafe(|| -> Result<Option<(Vec<u8>, u64, Option<Vec<u8>>)>, lsmtk::SError> {
                match &op {
                    COp::First => cur.seek_to_first()?,
                    COp::Last => cur.seek_to_last()?,
                    COp::Next => cur.next()?,
                    COp::Prev => cur.prev()?,
                    COp::Seek(k) => cur.seek(k)?,
                }
                Ok(cur.key_value().map(|kv| (kv.key.to_vec(), kv.timestamp, kv.value.map(|v| v.to_vec()))))
            }));
            c.script.push(render_op(&op));
            c.done += 1;
            if c.events_crossed > 0 {
                c.stepped_after_event = true;
            }
            if c.retired_under {
                c.used_after_retire = true;
            }
            match r {
                Ok(Ok(x)) => {
                    c.rendered.push(match &x {
                        None => "none".to_string(),
                        Some((k, t, Some(v))) => format!("{}@{}={}", hex(k), t, hex(v)),
                        Some((k, t, None)) => format!("{}@{}!", hex(k), t),
                    });
                    c.got.push(x.map(|(k, _, v)| (k, v.unwrap_or_else(|| b"<tombstone>".to_vec()))));
                }
                Ok(Err(e)) => {
                    c.err = Some(err_enum(&e));
                    c.rendered.push(format!("err:{}", c.err.as_ref().unwrap()));
                }
                Err(p) => {
                    c.err = Some("panic".to_string());
                    c.rendered.push(format!("err:panic:{}", p.chars().filter(|c| !c.is_whitespace()).take(40).collect::<String>()));
                }
            }
        }
    }

    /// drop cursor `i` and emit its cases
    fn close_cursor(&mut self, rec: &mut Recorder, i: usize) {
        let mut c = self.cursors.remove(i);
        let cur = c.cur.take();
        let dropped = guarded(AssertUnwindSafe(move || drop(cur)));
        // SAFETY: the cursor that borrowed the bounds is gone
        unsafe { drop(Box::from_raw(c.bounds)) };
        self.trk.release(&self.sim, c.id);
        self.check_registry(&format!("after the drop of cursor {}", c.id));
        let prog = &c.spec.prog[..c.done];
        let bounds = format!("{} {}", render_bound(&c.spec.lo), render_bound(&c.spec.hi));
        let req_a = format!("kvs scan {} :: {} :: {}", c.open_state, bounds, render_ops(prog));
        let req_b = format!("snap run {} :: {} :: {}", c.open_state, bounds, c.script.join(" "));
        let observed = if c.rendered.is_empty() { "-".to_string() } else { c.rendered.join(" ") };
        let req_a = match &c.inflight {
            Some(inf) => format!("snap open {} :: {} :: {} :: {}", c.open_state, if inf.is_empty() { "-".to_string() } else { inf.iter().map(|x| x.to_string()).collect::<Vec<_>>().join(",") }, bounds, c.script.join(" ")),
            None => req_a,
        };
        let d5 = c.retired_under && (c.used_after_retire || c.called_concurrently);
        let mut bad = vec![];
        if let Err(p) = dropped {
            bad.push(format!("drop of the cursor panicked: {}", p));
        }
        if let Some(e) = &c.err {
            bad.push(format!("call {} of [{}] failed: {}", c.done.saturating_sub(1), render_ops(prog), e));
        } else if c.got[..] != c.want[..c.done] && c.alt_want.as_ref().map(|a| c.got[..] != a[..c.done]).unwrap_or(true) {
            let j = (0..c.done).find(|&j| c.got[j] != c.want[j]).unwrap();
            let f = |x: &Shown| x.as_ref().map(|(k, v)| format!("{}={}", hex(k), hex(v)));
            bad.push(format!("call {} of [{}] bounds {} shows {:?}, the store had {:?} there when the scan was opened", j, render_ops(prog), bounds, f(&c.got[j]), f(&c.want[j])));
        }
        let verdict = if bad.is_empty() {
            Verdict::Ok
        } else {
            let class = if d5 && c.err.is_some() {
                D5.to_string()
            } else if c.inflight.is_some() && c.err.is_none() {
                LATE.to_string()
            } else if c.err.is_some() {
                "held-cursor-error".to_string()
            } else {
                "held-cursor-differs-from-open-time-snapshot".to_string()
            };
            let ts = match (&c.inflight, c.read_ts) {
                (Some(inf), Some(t)) => format!(" (read timestamp {}, writes in flight at open: {:?})", t, inf),
                _ => String::new(),
            };
            Verdict::Fail { class, detail: format!("{} cursor {} opened {} held across {} event(s){}: {}", self.tag, c.id, c.opened_at, c.events_crossed, ts, bad.join("; ")) }
        };
        let second = match &verdict {
            Verdict::Fail { class, .. } => Verdict::Taint { class: class.clone() },
            _ => Verdict::Ok,
        };
        // distribution
        rec.count("cursors");
        rec.count(match c.events_crossed {
            0 => "cursors.held_across_0_events",
            1 => "cursors.held_across_1_event",
            2..=3 => "cursors.held_across_2_3_events",
            _ => "cursors.held_across_4plus_events",
        });
        rec.count(&format!("cursors.program_shape_{}", ["forward", "backward", "mixed", "off_the_end_and_back"][c.spec.shape as usize % 4]));
        if c.untouched_before_first_event {
            rec.count("cursors.untouched_before_first_event");
        }
        if c.mem_dropped_under {
            rec.count("cursors.captured_memtable_flushed_while_held");
        }
        if c.imm_gen.is_some() {
            rec.count("cursors.opened_with_immutable_memtable");
        }
        if c.retired_under {
            rec.count("cursors.files_retired_while_held");
        }
        if d5 {
            rec.count("cursors.used_after_files_retired");
        }
        if c.unlinked_under {
            rec.count("cursors.files_unlinked_by_verifier_while_held");
        }
        if c.script.iter().any(|t| t.starts_with("w:")) {
            rec.count("cursors.writes_into_captured_memtable_while_held");
        }
        if c.err.is_some() {
            rec.count("cursors.error");
        }
        rec.add("cursor_calls", c.done as u64);
        let nontrivial = c.snapshot_len >= 2 && c.relevant_events >= 1 && c.stepped_after_event;
        if c.done == 0 {
            // opened, held, dropped without a call: nothing to show, only its reference and its
            // memtables were held (refs run, node accounting)
            rec.count("cursors.never_called");
            if let Verdict::Fail { class, detail } = verdict {
                self.fail(&class, detail);
            }
            return;
        }
        if c.inflight.is_some() {
            // stream `window`: one request, the model computes the read timestamp itself
            rec.count("window.cursors");
            let nontrivial = c.snapshot_len >= 2 && c.inflight.as_ref().map(|i| !i.is_empty()).unwrap_or(false);
            self.impl_log.push(observed.clone());
            rec.case(&req_a, &observed, verdict, if nontrivial { Some(fnv(req_a.as_bytes())) } else { None });
            return;
        }
        self.impl_log.push(observed.clone());
        self.impl_log.push(observed.clone());
        rec.case(&req_a, &observed, verdict, if nontrivial { Some(fnv(req_a.as_bytes())) } else { None });
        rec.case(&req_b, &observed, second, if nontrivial { Some(fnv(req_b.as_bytes())) } else { None });
    }

    /// bookkeeping common to every event: what happened to the things the held cursors captured
    fn after_event(&mut self, label: &str, gen_before: u64, trash_before: &BTreeSet<String>) -> Result<(), String> {
        let r = self.trk.sync_version(&self.sim, label);
        for (id, files) in std::mem::take(&mut self.deferred) {
            self.trk.snapshot(&self.sim, id, &files);
        }
        let gen_now = self.cur_gen();
        let l = self.sim.listing();
        let sst_now = short(l.get("sst").unwrap());
        let trash_now = short(l.get("trash").unwrap());
        let cur_files: BTreeSet<String> = self.trk.prev_files.iter().cloned().collect();
        for c in self.cursors.iter_mut() {
            c.events_crossed += 1;
            let mut relevant = !label.starts_with("verify");
            if gen_now != gen_before && c.mem_gen < gen_now && !c.mem_dropped_under {
                c.mem_dropped_under = true;
            }
            if c.files.iter().any(|f| !cur_files.contains(f)) {
                c.retired_under = true;
            }
            if c.files.iter().any(|f| trash_before.contains(f) && !trash_now.contains(f) && !sst_now.contains(f)) {
                c.unlinked_under = true;
                relevant = true;
            }
            if relevant {
                c.relevant_events += 1;
            }
        }
        r
    }

    fn take_probe_failures(&mut self) {
        let pf = std::mem::take(&mut self.sim.probe_failures);
        if !pf.is_empty() {
            self.fail("observer-inside-flush-or-compaction", format!("{} {}", self.tag, pf.iter().take(3).cloned().collect::<Vec<_>>().join("; ")));
        }
        self.sim.chosen.clear();
    }

    /// a write through the public API; the entries go to the memtable that is current now
    fn write(&mut self, op: &Op) -> Result<(), String> {
        let gen_before = self.cur_gen();
        let trash_before = short(self.sim.listing().get("trash").unwrap());
        let seq = self.sim.kvs().verif_state().0 + 1;
        let ents: Vec<(Vec<u8>, Option<Vec<u8>>)> = match op {
            Op::Put(k, v) => vec![(k.clone(), Some(v.clone()))],
            Op::Del(k) => vec![(k.clone(), None)],
            Op::Batch(es) => es.clone(),
            _ => vec![],
        };
        let res = match guarded(AssertUnwindSafe(|| self.sim.apply(op))) {
            Ok(r) => r,
            Err(p) => Err(format!("panic:{}", p)),
        };
        *self.gen_nodes.entry(gen_before).or_insert(1) += ents.len();
        let tok = format!(
            "w:{}",
            ents.iter()
                .map(|(k, v)| match v {
                    Some(v) => format!("{}@{}={}", hex(k), seq, hex(v)),
                    None => format!("{}@{}!", hex(k), seq),
                })
                .collect::<Vec<_>>()
                .join(",")
        );
        for c in self.cursors.iter_mut() {
            c.script.push(if c.mem_gen == gen_before { tok.clone() } else { "e:write".to_string() });
        }
        self.take_probe_failures();
        res?;
        self.after_event("write", gen_before, &trash_before)
    }

    fn relieve_stall(&mut self) -> Result<bool, String> {
        for _ in 0..64 {
            let (stall, selectable, _) = self.sim.kvs().verif_tree().verif_status();
            if !stall {
                return Ok(true);
            }
            if !selectable {
                return Ok(false);
            }
            self.sim.compact(1)?;
        }
        Ok(false)
    }

    fn mark(&mut self, label: &str) {
        for c in self.cursors.iter_mut() {
            c.script.push(format!("e:{}", label));
        }
    }

    /// a flush through the real memtable loop, with this harness' observer inside it
    fn flush(&mut self) -> Result<(), String> {
        let gen_before = self.cur_gen();
        let trash_before = short(self.sim.listing().get("trash").unwrap());
        let (mem, _) = self.sim.kvs().verif_dump_mem().map_err(|e| err_enum(&e))?;
        if mem.is_empty() || !self.relieve_stall()? {
            self.pending.retain(|p| !FLUSH_TAGS.contains(&p.0));
            self.take_probe_failures();
            return self.after_event("flush-skipped", gen_before, &trash_before);
        }
        self.mark("flush");
        let hp: *mut Hist = self;
        // SAFETY: single thread; while the flush runs nothing but the observer touches `*hp`
        let kvs: &'static KeyValueStore = unsafe { &*((*hp).sim.kvs() as *const KeyValueStore) };
        kvs.verif_request_flush();
        lsmtk::verif::set_single_step(Some(0));
        install_probe(hp);
        let r = guarded(AssertUnwindSafe(|| kvs.memtable_thread()));
        lsmtk::verif::set_probe(None);
        lsmtk::verif::set_single_step(None);
        self.in_flush = false;
        self.pending.retain(|p| !FLUSH_TAGS.contains(&p.0));
        match r {
            Ok(Ok(())) => {}
            Ok(Err(e)) => return Err(format!("flush-error:{}", err_enum(&e))),
            Err(p) => return Err(format!("flush-panic:{}", p)),
        }
        self.sim.flushes += 1;
        self.sim.track_manifest();
        self.after_event("flush", gen_before, &trash_before)
    }

    /// one compaction step through the real compaction loop, with the observer inside it
    fn compact(&mut self) -> Result<u64, String> {
        let gen_before = self.cur_gen();
        let trash_before = short(self.sim.listing().get("trash").unwrap());
        self.mark("compact");
        let hp: *mut Hist = self;
        let kvs: &'static KeyValueStore = unsafe { &*((*hp).sim.kvs() as *const KeyValueStore) };
        lsmtk::verif::set_single_step(Some(1));
        install_probe(hp);
        let r = guarded(AssertUnwindSafe(|| kvs.compaction_thread()));
        lsmtk::verif::set_probe(None);
        lsmtk::verif::set_single_step(None);
        let k = lsmtk::verif::take_chosen().len() as u64;
        self.sim.compactions += k;
        match r {
            Ok(Ok(())) => {}
            Ok(Err(e)) => return Err(format!("compaction-error:{}", err_enum(&e))),
            Err(p) => return Err(format!("compaction-panic:{}", p)),
        }
        self.sim.track_manifest();
        self.after_event("compact", gen_before, &trash_before)?;
        if std::env::var("BLUE_DEBUG").is_ok() {
            eprintln!("{} compact chose {} -> levels {:?}", self.tag, k, self.trk.prev_levels.iter().enumerate().filter(|(_, l)| !l.is_empty()).collect::<Vec<_>>());
        }
        Ok(k)
    }

    /// compaction steps until nothing is selectable (at most `cap`)
    fn compact_all(&mut self, cap: usize) -> Result<(), String> {
        for _ in 0..cap {
            if self.compact()? == 0 {
                break;
            }
        }
        Ok(())
    }

    fn verify(&mut self) -> Result<(), String> {
        let gen_before = self.cur_gen();
        let trash_before = short(self.sim.listing().get("trash").unwrap());
        self.mark("verify");
        let _ = guarded(AssertUnwindSafe(|| self.sim.verify_pass()));
        if std::env::var("BLUE_DEBUG").is_ok() {
            eprintln!("{} verify -> {} ; mani {:?}", self.tag, self.sim.last_verify, self.sim.listing().get("mani"));
        }
        if self.sim.last_verify.starts_with("error") {
            let e = self.sim.last_verify.clone();
            self.fail("verifier-error", format!("{} {}", self.tag, e));
        }
        self.after_event("verify", gen_before, &trash_before)
    }

    fn reopen(&mut self, rec: &mut Recorder) -> Result<(), String> {
        assert!(self.cursors.is_empty());
        let tag = self.tag.clone();
        self.trk.flush_case(rec, &tag);
        let old_gen = self.cur_gen();
        self.sim.kvs = None;
        let kvs = KeyValueStore::open(options(&self.sim.cfg, &self.sim.root, self.cache)).map_err(|e| format!("reopen-error:{}", err_enum(&e)))?;
        self.sim.kvs = Some(kvs);
        self.sim.reopens += 1;
        self.gen_base = old_gen + 1 - self.sim.flushes;
        self.trk = Tracker::new(&self.sim)?;
        self.check_registry("after reopen");
        Ok(())
    }
}

/// the observer: at the labelled point a pending cursor asks for, open it (inside the flush or
/// compaction, on the thread that runs it)
fn install_probe(hp: *mut Hist) {
    lsmtk::verif::set_probe(Some(Box::new(move |tag: &'static str| {
        // SAFETY: see `Hist::flush`; the probe is cleared before `flush`/`compact` return
        let h = unsafe { &mut *hp };
        if tag.starts_with("flush.") || tag == "ingest.before_manifest" {
            h.in_flush = true;
        }
        let mut i = 0;
        while i < h.pending.len() {
            if h.pending[i].0 == tag {
                let (_, spec) = h.pending.remove(i);
                // at the points after the install the routine that runs the flush / compaction
                // still holds the replaced version itself: the listing is compared with the
                // model once the operation is over (`after_event`)
                h.defer_snapshot = tag == "compaction.after_manifest" || tag == "flush.before_clear";
                h.open_cursor(spec, &format!("inside:{}", tag));
                h.defer_snapshot = false;
                *h.opened_in_probe.entry(tag.to_string()).or_insert(0) += 1;
            } else {
                i += 1;
            }
        }
    })));
}

#[derive(Clone, Debug)]
enum Ev {
    Writes(Vec<Op>),
    Flush,
    Compact(u64),
    Verify,
    /// flush, compact until nothing is selectable, two verifier passes
    Retire,
}

fn ev_name(e: &Ev) -> &'static str {
    match e {
        Ev::Writes(_) => "writes",
        Ev::Flush => "flush",
        Ev::Compact(_) => "compact",
        Ev::Verify => "verify",
        Ev::Retire => "retire",
    }
}

fn gen_write(rng: &mut Rng, nkeys: usize, counter: &mut u64) -> Op {
    let r = rng.below(10);
    if r < 5 {
        Op::Put(gen_key(rng, nkeys), gen_val(rng, counter))
    } else if r < 8 {
        Op::Del(gen_key(rng, nkeys))
    } else {
        let n = rng.range(2, 4) as usize;
        let mut ks: Vec<usize> = (0..nkeys).collect();
        rng.shuffle(&mut ks);
        Op::Batch(
            ks.into_iter()
                .take(n.min(nkeys))
                .map(|i| {
                    let k = ALPHABET[i].to_vec();
                    if rng.chance(1, 3) {
                        (k, None)
                    } else {
                        (k, Some(gen_val(rng, counter)))
                    }
                })
                .collect(),
        )
    }
}

fn gen_event(rng: &mut Rng, nkeys: usize, counter: &mut u64) -> Ev {
    match rng.below(20) {
        0..=6 => Ev::Writes((0..rng.range(1, 4)).map(|_| gen_write(rng, nkeys, counter)).collect()),
        7..=10 => Ev::Flush,
        11..=14 => Ev::Compact(rng.range(1, 3)),
        15..=16 => Ev::Verify,
        _ => Ev::Retire,
    }
}

struct Plan {
    spec: Option<Spec>,
    /// opened before event `open_at` (or, with a probe tag, inside it)
    open_at: usize,
    probe: Option<&'static str>,
    /// dropped after event `close_at` (== number of events: at the end, program finished)
    close_at: usize,
    touch_at_open: usize,
    id: Option<usize>,
}

const FLUSH_TAGS: [&str; 3] = ["flush.rotated", "ingest.before_manifest", "flush.before_clear"];
const COMPACT_TAGS: [&str; 2] = ["compaction.before_manifest", "compaction.after_manifest"];

impl Hist {
    fn apply_event(&mut self, ev: &Ev) -> Result<(), String> {
        let r = self.apply_event_inner(ev);
        // a cursor that was to be opened at a point this event did not pass is not opened
        self.pending.clear();
        r
    }

    fn apply_event_inner(&mut self, ev: &Ev) -> Result<(), String> {
        match ev {
            Ev::Writes(ops) => {
                for op in ops {
                    self.write(op)?;
                }
                Ok(())
            }
            Ev::Flush => self.flush(),
            Ev::Compact(n) => {
                for _ in 0..*n {
                    if self.compact()? == 0 {
                        break;
                    }
                }
                Ok(())
            }
            Ev::Verify => self.verify(),
            Ev::Retire => {
                self.flush()?;
                self.compact_all(48)?;
                self.verify()?;
                self.verify()
            }
        }
    }

    fn index_of(&self, id: usize) -> Option<usize> {
        self.cursors.iter().position(|c| c.id == id)
    }

    /// cursors opened, held across `events`, stepped in between, dropped
    fn episode(&mut self, rec: &mut Recorder, rng: &mut Rng, events: &[Ev], mut plans: Vec<Plan>) -> Result<(), String> {
        let n_ev = events.len();
        for e in 0..=n_ev {
            // open what is due before event e
            for p in plans.iter_mut() {
                if p.open_at == e && p.spec.is_some() {
                    let in_probe = p.probe.is_some() && e < n_ev;
                    if in_probe {
                        self.pending.push((p.probe.unwrap(), p.spec.take().unwrap()));
                    } else {
                        let id = self.next_id;
                        self.open_cursor(p.spec.take().unwrap(), "between-operations");
                        if let Some(i) = self.index_of(id) {
                            p.id = Some(id);
                            self.step_cursor(i, p.touch_at_open);
                            if p.touch_at_open == 0 && e < n_ev {
                                self.cursors[i].untouched_before_first_event = true;
                            }
                        }
                    }
                }
            }
            if e == n_ev {
                break;
            }
            let first_new_id = self.next_id;
            let r = self.apply_event(&events[e]);
            // cursors the observer opened inside this event, matched to their plans in order
            let mut new_ids: Vec<usize> = self.cursors.iter().filter(|c| c.id >= first_new_id).map(|c| c.id).collect();
            for p in plans.iter_mut() {
                if p.open_at == e && p.probe.is_some() && p.id.is_none() && p.spec.is_none() {
                    if !new_ids.is_empty() {
                        p.id = Some(new_ids.remove(0));
                    }
                }
            }
            r?;
            // step the held cursors a little (or not at all)
            for i in 0..self.cursors.len() {
                let n = match rng.below(4) {
                    0 => 0,
                    1 => 1,
                    2 => 2,
                    _ => rng.range(1, 5) as usize,
                };
                self.step_cursor(i, n);
            }
            // drop what is due after event e
            for p in plans.iter() {
                if p.close_at == e {
                    if let Some(i) = p.id.and_then(|id| self.index_of(id)) {
                        self.close_cursor(rec, i);
                    }
                }
            }
            self.check_registry(&format!("after event {} ({})", e, ev_name(&events[e])));
        }
        // finish the programs, drop in a seeded order
        for i in 0..self.cursors.len() {
            let n = self.cursors[i].spec.prog.len();
            self.step_cursor(i, n);
        }
        while !self.cursors.is_empty() {
            let i = rng.below(self.cursors.len() as u64) as usize;
            self.close_cursor(rec, i);
        }
        Ok(())
    }
}

fn report_fails(rec: &mut Recorder, h: &mut Hist) {
    for (class, detail) in std::mem::take(&mut h.fails) {
        rec.case(&format!("# {}", h.tag), "#", Verdict::Fail { class, detail }, None);
        h.impl_log.push("#".to_string());
    }
}

fn new_hist(root: &str, cfg: &Cfg, cache: u64, tag: &str) -> Result<Hist, String> {
    sv::registry_enable(true);
    let sim = open_sim(root, cfg, cache)?;
    let trk = Tracker::new(&sim)?;
    Ok(Hist { sim, cache, trk, cursors: vec![], next_id: 0, gen_base: 0, gen_nodes: BTreeMap::new(), tag: tag.to_string(), fails: vec![], impl_log: vec![], in_flush: false, pending: vec![], opened_in_probe: BTreeMap::new(), defer_snapshot: false, deferred: vec![] })
}

fn finish_hist(rec: &mut Recorder, mut h: Hist) -> Vec<String> {
    // whatever is still held (after an error) goes first
    while !h.cursors.is_empty() {
        h.close_cursor(rec, 0);
    }
    h.check_registry("at the end");
    let tag = h.tag.clone();
    h.trk.flush_case(rec, &tag);
    h.impl_log.push("refs".to_string());
    report_fails(rec, &mut h);
    rec.add("flushes", h.sim.flushes);
    rec.add("compactions", h.sim.compactions);
    rec.add("reopens", h.sim.reopens);
    rec.add("verifier_passes", h.sim.verifier_passes);
    rec.add("verifier_backoffs", h.sim.verifier_backoffs);
    rec.add("observations_inside_flush_or_compaction", h.sim.probes_run);
    for (k, v) in h.opened_in_probe.iter() {
        rec.add(&format!("cursors.opened_inside.{}", k), *v);
    }
    let log = std::mem::take(&mut h.impl_log);
    h.sim.close();
    sv::registry_enable(false);
    log
}

/// stream `held`
pub fn run_history(rec: &mut Recorder, seed: u64, hidx: u64, thorough: bool) -> Vec<String> {
    let mut rng = Rng::for_case(seed, 107, hidx);
    let cfg = Cfg::gen(&mut rng);
    let cache = *rng.pick(&[0u64, 0, 300, 1 << 26]);
    let nkeys = if hidx % 3 == 0 { 4 } else if hidx % 3 == 1 { 7 } else { 12 };
    let mode = hidx % 4 % 3;
    let (pre_len, n_ep) = if thorough { (rng.range(10, 50) as usize, rng.range(3, 7)) } else { (rng.range(8, 36) as usize, rng.range(2, 5)) };
    let root = scratch_dir(&format!("c07.{}", hidx));
    let tag = format!("h{}", hidx);
    rec.aux(&format!("history {} cfg {} cache {} nkeys {} mode {}", hidx, cfg.render(), cache, nkeys, mode));
    let mut h = match new_hist(&root, &cfg, cache, &tag) {
        Ok(h) => h,
        Err(e) => {
            rec.case(&format!("# history {} open", hidx), "#", Verdict::Fail { class: "open-error".into(), detail: e }, None);
            return vec!["#".to_string()];
        }
    };
    let mut counter = 0u64;
    let r: Result<(), String> = (|| {
        // preamble: files in the deepest levels (a file moves down alone while the level below
        // has room for it; compactions merge only where files are stacked), then a seeded
        // history to reach a state with tombstones and a non-empty memtable
        let stack_rounds = *rng.pick(&[0u64, 2, 2, 3, 5]);
        for _ in 0..stack_rounds {
            for _ in 0..rng.range(1, 3) {
                let op = gen_write(&mut rng, nkeys, &mut counter);
                h.write(&op)?;
            }
            h.flush()?;
            h.compact_all(64)?;
        }
        let pre: Vec<Op> = gen_history(&mut rng, pre_len, nkeys, mode).into_iter().filter(|o| !matches!(o, Op::Reopen)).collect();
        counter += 1000;
        for op in &pre {
            match op {
                Op::Put(..) | Op::Del(..) | Op::Batch(..) => h.write(op)?,
                Op::Flush => h.flush()?,
                Op::Compact(_) => {
                    h.compact()?;
                }
                Op::Verify => h.verify()?,
                Op::Reopen => {}
            }
        }
        for ep in 0..n_ep {
            h.tag = format!("h{}e{}", hidx, ep);
            let n_ev = *rng.pick(&[0usize, 1, 1, 2, 2, 3, 4, 6]);
            let events: Vec<Ev> = (0..n_ev).map(|_| gen_event(&mut rng, nkeys, &mut counter)).collect();
            let ncur = rng.range(1, 3) as usize;
            let mut plans = vec![];
            for _ in 0..ncur {
                let shape = rng.below(4);
                let len = rng.range(3, 18) as usize;
                let spec = Spec { lo: gen_bound(&mut rng, nkeys), hi: gen_bound(&mut rng, nkeys), prog: gen_program(&mut rng, nkeys, shape, len), shape };
                let open_at = if n_ev == 0 || rng.chance(2, 3) { 0 } else { rng.below(n_ev as u64) as usize };
                let probe = if open_at < n_ev && rng.chance(1, 3) {
                    match &events[open_at] {
                        Ev::Flush => Some(*rng.pick(&FLUSH_TAGS)),
                        Ev::Retire => Some(if rng.chance(1, 2) { *rng.pick(&FLUSH_TAGS) } else { *rng.pick(&COMPACT_TAGS) }),
                        Ev::Compact(_) => Some(*rng.pick(&COMPACT_TAGS)),
                        _ => None,
                    }
                } else {
                    None
                };
                let close_at = if rng.chance(1, 4) && n_ev > 0 { rng.range(open_at as u64, n_ev as u64 - 1) as usize } else { n_ev };
                let touch_at_open = if rng.chance(1, 2) { 0 } else { rng.range(1, 4) as usize };
                plans.push(Plan { spec: Some(spec), open_at, probe, close_at, touch_at_open, id: None });
            }
            rec.aux(&format!("{} events [{}] cursors {}", h.tag, events.iter().map(ev_name).collect::<Vec<_>>().join(" "), plans.iter().map(|p| format!("open@{}{} close@{} touch{}", p.open_at, p.probe.map(|t| format!("/{}", t)).unwrap_or_default(), p.close_at, p.touch_at_open)).collect::<Vec<_>>().join(", ")));
            for e in &events {
                rec.count(&format!("events.{}", ev_name(e)));
            }
            h.episode(rec, &mut rng, &events, plans)?;
            report_fails(rec, &mut h);
            // sometimes a clean reopen between episodes (never while a cursor is held)
            if rng.chance(1, 4) {
                let d = h.sim.dump()?;
                if !d9_trigger(&d) {
                    h.reopen(rec)?;
                } else {
                    rec.count("reopens_skipped_D9_trigger");
                }
            }
        }
        Ok(())
    })();
    if let Err(e) = r {
        let t = h.tag.clone();
        h.fail("fault-free-op-error", format!("{} {}", t, e));
    }
    finish_hist(rec, h)
}

// ====================================================================================== d5 ====

/// stream `d5`: the smallest histories of finding D-5.  Two flushed files, a cursor opened on
/// them, a compaction that merges them into one (the two inputs leave the version), verifier
/// passes; variants: cursor not touched before / walked to the end before (its lazy cursors have
/// dropped their files again) / positioned in the middle (its lazy cursors hold open files);
/// SST cache off / on; with and without the verifier passes.
pub fn run_d5(rec: &mut Recorder, variant: u64) -> Vec<String> {
    let cfg = Cfg { memtable_bytes: 1 << 20, target_file: 1 << 22, min_file: 64, target_block: 256, l0_mandatory_files: 2, l0_stall_files: 12, max_compaction_files: 64, gc_versions: 1, mani_ratio: 1 };
    let cache = if variant & 1 == 0 { 0 } else { 1 << 26 };
    let touch = (variant >> 1) % 3;
    let verify = (variant >> 1) / 3 % 2 == 0;
    let root = scratch_dir(&format!("c07.d5.{}", variant));
    let tag = format!("d5v{}", variant);
    rec.aux(&format!("d5 variant {} cache {} touch {} verify {}", variant, cache, touch, verify));
    let mut h = match new_hist(&root, &cfg, cache, &tag) {
        Ok(h) => h,
        Err(e) => {
            rec.case(&format!("# d5 {} open", variant), "#", Verdict::Fail { class: "open-error".into(), detail: e }, None);
            return vec!["#".to_string()];
        }
    };
    let r: Result<(), String> = (|| {
        // a file moves down alone while the level below has room for it; two files end up in the
        // two deepest levels, and when a third arrives above them the two are merged
        for (k, v) in [(b"a", b"1"), (b"b", b"2"), (b"m", b"3")] {
            h.write(&Op::Put(k.to_vec(), v.to_vec()))?;
        }
        h.flush()?;
        h.compact_all(64)?;
        h.write(&Op::Put(b"b".to_vec(), b"4".to_vec()))?;
        h.write(&Op::Del(b"m".to_vec()))?;
        h.write(&Op::Put(b"z".to_vec(), b"5".to_vec()))?;
        h.flush()?;
        h.compact_all(64)?;
        let prog = match touch {
            0 => vec![COp::First, COp::Next, COp::Next, COp::Next, COp::Next],
            1 => vec![COp::First, COp::Next, COp::Next, COp::Next, COp::Next, COp::First, COp::Next, COp::Next, COp::Next, COp::Next, COp::Prev],
            _ => vec![COp::First, COp::Next, COp::Next, COp::Next, COp::Next, COp::Prev, COp::Prev, COp::Prev],
        };
        let n_before = match touch {
            0 => 0,
            1 => 5,
            _ => 2,
        };
        h.open_cursor(Spec { lo: Bound::Unbounded, hi: Bound::Unbounded, prog, shape: if touch == 1 { 3 } else { 0 } }, "between-operations");
        h.step_cursor(0, n_before);
        if n_before == 0 {
            h.cursors[0].untouched_before_first_event = true;
        }
        // more files arrive above the two until a compaction takes one of the two away
        for round in 0..8u8 {
            if h.cursors[0].retired_under {
                break;
            }
            h.write(&Op::Put(b"q".to_vec(), vec![b'6', b'0' + round]))?;
            h.write(&Op::Put(b"a".to_vec(), vec![b'7', b'0' + round]))?;
            h.flush()?;
            h.compact_all(64)?;
        }
        if verify {
            // the verifier works through all manifest fragments but the last two: a few more
            // edits (the manifest rolls over with nearly every one: ratio 1) push the fragment of
            // the merging compaction far enough back
            for round in 0..4u8 {
                h.write(&Op::Put(b"y".to_vec(), vec![b'8', b'0' + round]))?;
                h.flush()?;
            }
            h.verify()?;
            h.verify()?;
        }
        h.step_cursor(0, 100);
        h.close_cursor(rec, 0);
        Ok(())
    })();
    if let Err(e) = r {
        let t = h.tag.clone();
        h.fail("fault-free-op-error", format!("{} {}", t, e));
    }
    rec.count("d5.histories");
    finish_hist(rec, h)
}

// ============================================================================ open-file limit ==

/// class (an input predicate): the tree's FileManager has exactly `--max-open-files` distinct files
/// open, all of them held by another reader, and a held cursor re-opens one of THOSE files (it let
/// go of its handles when it ran off the end of its files); sharing an open file needs no new
/// descriptor, so the limit is no reason to refuse
const LIMIT: &str = "held-cursor-at-open-file-limit-refused-a-file-another-reader-has-open";

fn options_limited(cfg: &Cfg, root: &str, max_open: u64) -> lsmtk::LsmtkOptions {
    use arrrg::CommandLine;
    let args: Vec<String> = vec![
        "--path".into(),
        root.into(),
        "--memtable-size-bytes".into(),
        cfg.memtable_bytes.to_string(),
        "--sst-target-file-size".into(),
        cfg.target_file.to_string(),
        "--sst-minimum-file-size".into(),
        cfg.min_file.to_string(),
        "--sst-target-block-size".into(),
        cfg.target_block.to_string(),
        "--l0-mandatory-compaction-threshold-files".into(),
        cfg.l0_mandatory_files.to_string(),
        "--l0-write-stall-threshold-files".into(),
        cfg.l0_stall_files.to_string(),
        "--max-compaction-files".into(),
        cfg.max_compaction_files.to_string(),
        "--gc-policy".into(),
        format!("versions = {}", cfg.gc_versions),
        "--mani-log-rollover-ratio".into(),
        cfg.mani_ratio.to_string(),
        "--sst-cache-bytes".into(),
        "0".into(),
        "--max-open-files".into(),
        max_open.to_string(),
    ];
    let refs: Vec<&str> = args.iter().map(|s| s.as_str()).collect();
    let (opts, free) = lsmtk::LsmtkOptions::from_arguments_relaxed("blueharness", &refs);
    assert!(free.is_empty(), "free args: {:?}", free);
    opts
}

fn err_limit(e: &lsmtk::SError) -> String {
    let s = format!("{:?}{}", e, e);
    if s.contains("too-many-open-files") || s.contains("TooManyOpenFiles") || s.contains("too_many_open_files") {
        "toomanyopenfiles".to_string()
    } else {
        err_enum(e)
    }
}

/// one call of a cursor, rendered as `Hist::step_cursor` renders it
fn call_cursor(cur: &mut dyn Cursor, op: &COp) -> (String, Result<Shown, String>) {
    let r = guarded(AssertUnwindSafe(|| -> Result<Option<(Vec<u8>, u64, Option<Vec<u8>>)>, lsmtk::SError> {
        match op {
            COp::First => cur.seek_to_first()?,
            COp::Last => cur.seek_to_last()?,
            COp::Next => cur.next()?,
            COp::Prev => cur.prev()?,
            COp::Seek(k) => cur.seek(k)?,
        }
        Ok(cur.key_value().map(|kv| (kv.key.to_vec(), kv.timestamp, kv.value.map(|v| v.to_vec()))))
    }));
    match r {
        Ok(Ok(x)) => {
            let rendered = match &x {
                None => "none".to_string(),
                Some((k, t, Some(v))) => format!("{}@{}={}", hex(k), t, hex(v)),
                Some((k, t, None)) => format!("{}@{}!", hex(k), t),
            };
            (rendered, Ok(x.map(|(k, _, v)| (k, v.unwrap_or_else(|| b"<tombstone>".to_vec())))))
        }
        Ok(Err(e)) => {
            let e = err_limit(&e);
            (format!("err:{}", e), Err(e))
        }
        Err(p) => (format!("err:panic:{}", p.chars().filter(|c| !c.is_whitespace()).take(40).collect::<String>()), Err("panic".to_string())),
    }
}

/// stream `limit` (directed; NOT part of the random streams: under a small `--max-open-files` the
/// store refuses legitimately whenever a reader needs a file nobody has open).  `nfiles` level-0
/// files (one flush each, no compaction, SST cache off) in a store allowed `nfiles` open files.
/// Cursor A walks its whole snapshot in one direction and off its end: its lazy cursors let go of
/// their handles.  Cursor B is opened and stepped onto an entry: it holds every file, i.e. every
/// slot.  A is then walked back over the whole snapshot: every file it re-opens is open already
/// (B has it), so no call may fail and A shows its snapshot.  Then B is walked to its end.
///  * oracle: every call of A and B shows what the reference cursor over the open-time map shows;
///  * correspondence: `kvs scan <state at open> :: - - :: <program>` for both cursors;
///  * that the limit is tight is checked on the same history with one slot less: a positioned
///    cursor must then be refused (too-many-open-files) when it needs its last file.
pub fn run_open_file_limit(rec: &mut Recorder, variant: u64) {
    let cfg = Cfg { memtable_bytes: 1 << 20, target_file: 1 << 22, min_file: 64, target_block: 256, l0_mandatory_files: 8, l0_stall_files: 12, max_compaction_files: 64, gc_versions: 1, mani_ratio: 10 };
    let nfiles: u64 = if variant % 2 == 0 { 3 } else { 2 };
    let backward_first = variant / 2 % 2 == 1;
    let tag = format!("limit{}", variant);
    let pad = |t: &str| -> Vec<u8> {
        let mut v = t.as_bytes().to_vec();
        v.resize(64, b'.');
        v
    };
    // (store root, slots) -> the rendered calls of A and B, their verdicts, the open-time state
    let run = |slots: u64, root: &str| -> Result<(String, Vec<COp>, Vec<String>, Vec<Result<Shown, String>>, Vec<COp>, Vec<String>, Vec<Result<Shown, String>>, Vec<(Vec<u8>, Vec<u8>)>), String> {
        let mut sim = Sim::open(root, &cfg)?;
        sim.kvs = None;
        sim.kvs = Some(KeyValueStore::open(options_limited(&cfg, root, slots)).map_err(|e| err_limit(&e))?);
        let keys: [&[u8]; 4] = [b"b", b"m", b"z", b"\xff"];
        for f in 0..nfiles as usize {
            sim.apply(&Op::Put(b"a".to_vec(), pad(&format!("a{}", f + 1))))?;
            sim.apply(&Op::Put(keys[f].to_vec(), pad(&format!("{}{}", f, f + 1))))?;
            sim.apply(&Op::Flush).map_err(|e| format!("flush: {}", e))?;
        }
        let dump = sim.dump().map_err(|e| format!("dump: {}", e))?;
        if dump.nfiles() as u64 != nfiles {
            return Err(format!("{} files in the tree, wanted {}", dump.nfiles(), nfiles));
        }
        let open_state = state_with_ids(&dump);
        let snapshot: Vec<(Vec<u8>, Vec<u8>)> = sim.oracle.iter().filter_map(|(k, v)| v.as_ref().map(|v| (k.clone(), v.clone()))).collect();
        let n = snapshot.len();
        let (lo, hi): (Bound<Vec<u8>>, Bound<Vec<u8>>) = (Bound::Unbounded, Bound::Unbounded);
        let (out_op, back_op, start) = if backward_first { (COp::Prev, COp::Next, COp::Last) } else { (COp::Next, COp::Prev, COp::First) };
        let mut prog_a = vec![start];
        prog_a.extend(std::iter::repeat(out_op).take(n + 1));
        let first_half = prog_a.len();
        prog_a.extend(std::iter::repeat(back_op).take(n + 1));
        let prog_b: Vec<COp> = std::iter::once(COp::First).chain(std::iter::repeat(COp::Next).take(n + 1)).collect();
        let (mut ra, mut va, mut rb, mut vb) = (vec![], vec![], vec![], vec![]);
        {
            let kvs = sim.kvs();
            let mut a: Box<dyn Cursor> = Box::new(kvs.range_scan(&lo, &hi).map_err(|e| format!("scan A: {}", err_limit(&e)))?);
            for op in &prog_a[..first_half] {
                let (r, v) = call_cursor(a.as_mut(), op);
                ra.push(r);
                va.push(v);
            }
            // B onto its first entry (variants 1, 3: onto its second): it holds every file
            let mut b: Box<dyn Cursor> = Box::new(kvs.range_scan(&lo, &hi).map_err(|e| format!("scan B: {}", err_limit(&e)))?);
            let b_first = if nfiles == 2 { 3 } else { 2 };
            for op in &prog_b[..b_first] {
                let (r, v) = call_cursor(b.as_mut(), op);
                let failed = v.is_err();
                rb.push(r);
                vb.push(v);
                if failed {
                    break;
                }
            }
            if vb.iter().all(|v| v.is_ok()) {
                for op in &prog_a[first_half..] {
                    let (r, v) = call_cursor(a.as_mut(), op);
                    let failed = v.is_err();
                    ra.push(r);
                    va.push(v);
                    if failed {
                        break;
                    }
                }
                for op in &prog_b[b_first..] {
                    let (r, v) = call_cursor(b.as_mut(), op);
                    let failed = v.is_err();
                    rb.push(r);
                    vb.push(v);
                    if failed {
                        break;
                    }
                }
            }
            drop(a);
            drop(b);
        }
        sim.close();
        Ok((open_state, prog_a, ra, va, prog_b, rb, vb, snapshot))
    };
    // one slot less: a cursor positioned on an entry cannot get its last file (it needs all
    // `nfiles` at once), so with `nfiles` slots cursor B alone fills every slot: the limit of the
    // run below is tight
    // (an early return of `run` — the refused scan — leaves the store's directory behind)
    let tight_dir = scratch_dir(&format!("c07.limit.{}.tight", variant));
    let tight_run = run(nfiles - 1, &tight_dir);
    let _ = std::fs::remove_dir_all(&tight_dir);
    let tight = match tight_run {
        Ok((_, _, ra, _, _, rb, _, _)) => {
            if std::env::var("BLUE_DEBUG").is_ok() {
                eprintln!("{} tight: A {:?} B {:?}", tag, ra.iter().map(|x| x.chars().take(90).collect::<String>()).collect::<Vec<_>>(), rb.iter().map(|x| x.chars().take(90).collect::<String>()).collect::<Vec<_>>());
            }
            ra.iter().chain(rb.iter()).any(|r| r.contains("toomanyopenfiles"))
        }
        Err(e) => {
            if std::env::var("BLUE_DEBUG").is_ok() {
                eprintln!("{} tight: {}", tag, e);
            }
            e.starts_with("scan ") && e.contains("toomanyopenfiles")
        }
    };
    rec.count(if tight { "limit.one_slot_less_is_refused" } else { "limit.one_slot_less_NOT_refused" });
    let limit_dir = scratch_dir(&format!("c07.limit.{}", variant));
    let limit_run = run(nfiles, &limit_dir);
    let _ = std::fs::remove_dir_all(&limit_dir);
    match limit_run {
        Err(e) => rec.case(&format!("# {} history", tag), "#", Verdict::Fail { class: "fault-free-op-error".into(), detail: format!("{} {}", tag, e) }, None),
        Ok((open_state, prog_a, ra, va, prog_b, rb, vb, snapshot)) => {
            rec.count("limit.histories");
            for (name, prog, rendered, verdicts) in [("A", &prog_a, &ra, &va), ("B", &prog_b, &rb, &vb)] {
                let done = rendered.len();
                let want = ref_run(&snapshot, &prog[..done]);
                let mut bad = vec![];
                let mut refused = false;
                for (j, v) in verdicts.iter().enumerate() {
                    match v {
                        Err(e) => {
                            refused = refused || e.contains("toomanyopenfiles");
                            bad.push(format!("call {} of cursor {} [{}] failed: {}", j, name, render_ops(&prog[..done]), e));
                        }
                        Ok(x) if *x != want[j] => bad.push(format!("call {} of cursor {} [{}] shows {:?}, the store had {:?} there when the scan was opened", j, name, render_ops(&prog[..done]), x.as_ref().map(|(k, v)| format!("{}={}", hex(k), hex(v))), want[j].as_ref().map(|(k, v)| format!("{}={}", hex(k), hex(v))))),
                        Ok(_) => {}
                    }
                }
                let v = if bad.is_empty() {
                    Verdict::Ok
                } else {
                    Verdict::Fail { class: if refused && name == "A" { LIMIT.to_string() } else if refused { "held-cursor-error".to_string() } else { "held-cursor-differs-from-open-time-snapshot".to_string() }, detail: format!("{}: {} files, --max-open-files {}, SST cache off; cursor A walked {} off its end (it holds no file any more), cursor B opened and stepped onto an entry (it holds all {} files = every slot), A walked back, B walked on: {}", tag, nfiles, nfiles, if backward_first { "backward" } else { "forward" }, nfiles, bad.join("; ")) }
                };
                let req = format!("kvs scan {} :: u u :: {}", open_state, render_ops(&prog[..done]));
                rec.add("limit.cursor_calls", done as u64);
                rec.case(&req, &rendered.join(" "), v, Some(fnv(format!("{}{}", tag, req).as_bytes())));
            }
            let v = if tight { Verdict::Ok } else { Verdict::Fail { class: "machinery".into(), detail: format!("{}: with --max-open-files {} no cursor was refused: the directed history does not sit at the limit", tag, nfiles - 1) } };
            rec.case(&format!("# {} sits at the limit", tag), "#", v, None);
        }
    }
}

// ==================================================================================== conc ====

/// stream `conc`: the store moves on other threads while the main thread steps its cursors.
/// Per phase: cursors are opened while nothing else runs (so the open-time state is known
/// exactly and no write is in flight — finding D-6 is about the other case and belongs to C06);
/// then two writers (disjoint key sets), the flush loop and the compaction loop run as real
/// threads until the writers are done, and meanwhile the main thread walks the cursors.
pub fn run_conc(rec: &mut Recorder, seed: u64, idx: u64, thorough: bool) {
    use std::sync::atomic::{AtomicBool, AtomicU64, Ordering};
    let mut rng = Rng::for_case(seed, 207, idx);
    let cfg = Cfg { memtable_bytes: *rng.pick(&[200, 600, 2048]), target_file: 512, min_file: 64, target_block: 256, l0_mandatory_files: 2, l0_stall_files: 12, max_compaction_files: 64, gc_versions: *rng.pick(&[1, 2]), mani_ratio: 2 };
    let cache = *rng.pick(&[0u64, 1 << 26]);
    let nkeys = 8usize;
    let root = scratch_dir(&format!("c07.conc.{}", idx));
    let tag = format!("conc{}", idx);
    rec.aux(&format!("conc {} cfg {} cache {}", idx, cfg.render(), cache));
    let mut h = match new_hist(&root, &cfg, cache, &tag) {
        Ok(h) => h,
        Err(e) => {
            rec.case(&format!("# conc {} open", idx), "#", Verdict::Fail { class: "open-error".into(), detail: e }, None);
            return;
        }
    };
    let phases = if thorough { 5 } else { 3 };
    let per_writer = if thorough { 120 } else { 60 };
    let mut counter = 0u64;
    let r: Result<(), String> = (|| {
        for phase in 0..phases {
            h.tag = format!("conc{}p{}", idx, phase);
            // quiescent: open cursors, touch some of them
            let ncur = rng.range(2, 3) as usize;
            for _ in 0..ncur {
                let shape = rng.below(4);
                let len = rng.range(20, 60) as usize;
                let spec = Spec { lo: gen_bound(&mut rng, nkeys), hi: gen_bound(&mut rng, nkeys), prog: gen_program(&mut rng, nkeys, shape, len), shape };
                let id = h.next_id;
                h.open_cursor(spec, "quiescent-point");
                if let Some(i) = h.index_of(id) {
                    let t = if rng.chance(1, 2) { 0 } else { rng.range(1, 3) as usize };
                    h.step_cursor(i, t);
                    if t == 0 {
                        h.cursors[i].untouched_before_first_event = true;
                    }
                }
            }
            // the writers' programs: writer w owns the keys with index % 2 == w
            let mut progs: Vec<Vec<(Vec<u8>, Option<Vec<u8>>)>> = vec![vec![], vec![]];
            for w in 0..2usize {
                for _ in 0..per_writer {
                    let k = ALPHABET[(rng.below(nkeys as u64 / 2) as usize) * 2 + w].to_vec();
                    let v = if rng.chance(1, 4) { None } else { Some(gen_val(&mut rng, &mut counter)) };
                    progs[w].push((k, v));
                }
            }
            let gen_before = h.cur_gen();
            let trash_before = short(h.sim.listing().get("trash").unwrap());
            let flushes = AtomicU64::new(0);
            let compactions = AtomicU64::new(0);
            let writers_left = AtomicU64::new(2);
            let flusher_done = AtomicBool::new(false);
            let errors: std::sync::Mutex<Vec<String>> = std::sync::Mutex::new(vec![]);
            let kvs: &KeyValueStore = unsafe { &*(h.sim.kvs() as *const KeyValueStore) };
            let hp: *mut Hist = &mut h;
            std::thread::scope(|s| {
                for w in 0..2usize {
                    let prog = &progs[w];
                    let writers_left = &writers_left;
                    let errors = &errors;
                    s.spawn(move || {
                        for (k, v) in prog {
                            let r = match v {
                                Some(v) => kvs.put(k, v),
                                None => kvs.del(k),
                            };
                            if let Err(e) = r {
                                errors.lock().unwrap().push(format!("write: {}", err_enum(&e)));
                                break;
                            }
                        }
                        writers_left.fetch_sub(1, Ordering::SeqCst);
                    });
                }
                {
                    let (writers_left, flusher_done, flushes, errors) = (&writers_left, &flusher_done, &flushes, &errors);
                    s.spawn(move || {
                        loop {
                            let last = writers_left.load(Ordering::SeqCst) == 0;
                            let before = kvs.verif_state().2;
                            lsmtk::verif::set_single_step(Some(0));
                            let r = kvs.memtable_thread();
                            lsmtk::verif::set_single_step(None);
                            if let Err(e) = r {
                                errors.lock().unwrap().push(format!("flush: {}", err_enum(&e)));
                                break;
                            }
                            if kvs.verif_state().2 != before {
                                flushes.fetch_add(1, Ordering::SeqCst);
                            }
                            if last {
                                break;
                            }
                            std::thread::yield_now();
                        }
                        flusher_done.store(true, Ordering::SeqCst);
                    });
                }
                {
                    let (flusher_done, compactions, errors) = (&flusher_done, &compactions, &errors);
                    s.spawn(move || {
                        loop {
                            let last = flusher_done.load(Ordering::SeqCst);
                            lsmtk::verif::set_single_step(Some(1));
                            let r = kvs.compaction_thread();
                            lsmtk::verif::set_single_step(None);
                            let k = lsmtk::verif::take_chosen().len() as u64;
                            compactions.fetch_add(k, Ordering::SeqCst);
                            if let Err(e) = r {
                                errors.lock().unwrap().push(format!("compaction: {}", err_enum(&e)));
                                break;
                            }
                            if last && k == 0 {
                                break;
                            }
                            if k == 0 {
                                std::thread::yield_now();
                            }
                        }
                    });
                }
                // main thread: walk the cursors while the store moves
                // SAFETY: the other threads use `kvs` only; `*hp` is touched by this thread only
                let h = unsafe { &mut *hp };
                // one round of calls per few sequence numbers the writers consume, so that the
                // programs last as long as the writers do
                let mut round = 0u64;
                let mut calls = 0u64;
                let mut last_seq = kvs.verif_state().0;
                while writers_left.load(Ordering::SeqCst) > 0 {
                    let seq = kvs.verif_state().0;
                    if seq < last_seq + 3 {
                        std::thread::yield_now();
                        continue;
                    }
                    last_seq = seq;
                    for i in 0..h.cursors.len() {
                        if (round + i as u64) % 3 != 2 {
                            let before = h.cursors[i].done;
                            h.cursors[i].called_concurrently = true;
                            h.step_cursor(i, 1);
                            calls += (h.cursors[i].done - before) as u64;
                        }
                    }
                    round += 1;
                }
                rec.add("conc.cursor_calls_while_store_moves", calls);
            });
            for e in errors.lock().unwrap().iter() {
                h.fail("fault-free-op-error", format!("{} {}", h.tag.clone(), e));
            }
            // quiescent again: the sequential map after this phase
            for w in 0..2usize {
                for (k, v) in &progs[w] {
                    h.sim.oracle.insert(k.clone(), v.clone());
                }
            }
            h.sim.flushes += flushes.load(Ordering::SeqCst);
            h.sim.compactions += compactions.load(Ordering::SeqCst);
            rec.add("conc.writes", 2 * per_writer as u64);
            for c in h.cursors.iter_mut() {
                c.script.push("e:concurrent-phase".to_string());
            }
            h.after_event("concurrent-phase", gen_before, &trash_before)?;
            if rng.chance(1, 2) {
                h.verify()?;
            }
            // finish and drop some cursors; keep others across the next phase
            let mut i = 0;
            while i < h.cursors.len() {
                if phase + 1 == phases || rng.chance(2, 3) {
                    let n = h.cursors[i].spec.prog.len();
                    h.step_cursor(i, n);
                    h.close_cursor_conc(rec, i);
                } else {
                    h.step_cursor(i, 2);
                    i += 1;
                }
            }
            report_fails(rec, &mut h);
        }
        Ok(())
    })();
    if let Err(e) = r {
        let t = h.tag.clone();
        h.fail("fault-free-op-error", format!("{} {}", t, e));
    }
    rec.count("conc.histories");
    // node accounting does not apply (writes were not counted per generation)
    while !h.cursors.is_empty() {
        h.close_cursor_conc(rec, 0);
    }
    let (_, _, viol) = sv::registry_report();
    if !viol.is_empty() {
        h.fail("node-dereferenced-after-release", format!("{}: the allocation registry saw {} ({} in all)", tag, viol[0].0, viol.len()));
    }
    let t = h.tag.clone();
    h.trk.flush_case(rec, &t);
    report_fails(rec, &mut h);
    h.sim.close();
    sv::registry_enable(false);
}

impl Hist {
    /// as `close_cursor`, without the per-generation node accounting (concurrent stream)
    fn close_cursor_conc(&mut self, rec: &mut Recorder, i: usize) {
        let before = self.fails.len();
        self.close_cursor(rec, i);
        let mut k = before;
        while k < self.fails.len() {
            if self.fails[k].0 == "memtable-nodes-not-released-with-last-holder" {
                self.fails.remove(k);
            } else {
                k += 1;
            }
        }
    }
}

// ================================================================================== window ====

use std::sync::{Arc, Condvar, Mutex};

thread_local! {
    /// who the calling thread is for the pause hook: 1 batch writer, 2 side writer, 3 scanner
    static ROLE: std::cell::Cell<u8> = const { std::cell::Cell::new(0) };
}

#[derive(Default)]
struct WinSt {
    /// writes whose number has been assigned and that have not left the wait list; kept under
    /// the store's mutex (`kvs.write.begin.locked` / `kvs.write.finish.locked`)
    inflight: BTreeSet<u64>,
    /// park the batch writer after the insert with this index
    park_idx: Option<u64>,
    b_parked: bool,
    release: bool,
    s_inserted: bool,
    /// what the scanner's last `range_scan` saw: writes in flight under the mutex, timestamp taken
    snap_inflight: Vec<u64>,
    scan_ts: Option<u64>,
    /// free-running stream: spin this long after each insert of the batch writer
    widen_ns: u64,
}

struct Win {
    m: Mutex<WinSt>,
    cv: Condvar,
}

fn install_window_hook(w: &Arc<Win>) {
    let w = Arc::clone(w);
    lsmtk::verif::set_pause_hook(Some(Arc::new(move |tag: &'static str, args: [u64; 3]| {
        let role = ROLE.with(|r| r.get());
        match tag {
            "kvs.write.begin.locked" => {
                w.m.lock().unwrap().inflight.insert(args[0]);
            }
            "kvs.write.finish.locked" => {
                w.m.lock().unwrap().inflight.remove(&args[0]);
            }
            "kvs.write.insert" if role == 1 => {
                let mut st = w.m.lock().unwrap();
                if st.park_idx == Some(args[1]) {
                    st.park_idx = None;
                    st.b_parked = true;
                    w.cv.notify_all();
                    while !st.release {
                        st = w.cv.wait(st).unwrap();
                    }
                } else if st.widen_ns > 0 {
                    let ns = st.widen_ns;
                    drop(st);
                    let t0 = std::time::Instant::now();
                    while (t0.elapsed().as_nanos() as u64) < ns {
                        std::hint::spin_loop();
                    }
                }
            }
            "kvs.write.inserted" if role == 2 => {
                let mut st = w.m.lock().unwrap();
                st.s_inserted = true;
                w.cv.notify_all();
            }
            "kvs.scan.snap.locked" if role == 3 => {
                let mut st = w.m.lock().unwrap();
                st.snap_inflight = st.inflight.iter().copied().collect();
            }
            "kvs.scan.ts" if role == 3 => {
                w.m.lock().unwrap().scan_ts = Some(args[0]);
            }
            _ => {}
        }
    })));
}

/// stream `window`: a scan opened while an earlier-numbered batch is still inserting and a
/// later-numbered write has already inserted.  Directed through the pause hook: the batch writer
/// is parked right after its insert number `j` (entries `0..=j` of the batch are in the skiplist,
/// the rest is not); the side writer runs until it has inserted its entry and queues behind the
/// batch in the wait list; two scans are opened (the store is at rest: the state is dumped); one
/// is walked at once; the batch writer is released, both writes return; both scans are walked
/// (again).  What a scan may show: the acknowledged state at open time — the batch had not
/// finished inserting, so nothing of it; the side write had inserted everything and may or may
/// not count as before the scan (both accepted, consistently).
pub fn run_window(rec: &mut Recorder, seed: u64, idx: u64) -> Vec<String> {
    let mut rng = Rng::for_case(seed, 307, idx);
    let cfg = Cfg { memtable_bytes: 1 << 20, target_file: *rng.pick(&[512, 1 << 22]), min_file: 64, target_block: *rng.pick(&[64, 4096]), l0_mandatory_files: 2, l0_stall_files: 12, max_compaction_files: 64, gc_versions: *rng.pick(&[1, 2]), mani_ratio: 2 };
    let cache = *rng.pick(&[0u64, 1 << 26]);
    let nkeys = 8usize;
    let root = scratch_dir(&format!("c07.win.{}", idx));
    let tag = format!("win{}", idx);
    let mut h = match new_hist(&root, &cfg, cache, &tag) {
        Ok(h) => h,
        Err(e) => {
            rec.case(&format!("# window {} open", idx), "#", Verdict::Fail { class: "open-error".into(), detail: e }, None);
            return vec!["#".to_string()];
        }
    };
    // the batch: 2..5 keys in a seeded order (the order of the memtable inserts); a side key
    let mut ks: Vec<usize> = (0..nkeys).collect();
    rng.shuffle(&mut ks);
    let n = *rng.pick(&[2usize, 3, 3, 5]);
    let batch_keys: Vec<Vec<u8>> = ks[..n].iter().map(|i| ALPHABET[*i].to_vec()).collect();
    let side_key = ALPHABET[ks[n]].to_vec();
    let park = rng.below(n as u64 - 1);
    let base_rounds = rng.range(1, 2);
    let base_flushed = rng.below(3); // 0: memtable only, 1: flushed, 2: flushed and moved down
    let second_walk_backward = rng.chance(1, 2);
    rec.aux(&format!("window {} cfg {} cache {} batch {:?} side {} park-after-insert {} base rounds {} flushed {}", idx, cfg.render(), cache, batch_keys.iter().map(|k| hex(k)).collect::<Vec<_>>(), hex(&side_key), park, base_rounds, base_flushed));
    let win = Arc::new(Win { m: Mutex::new(WinSt::default()), cv: Condvar::new() });
    let r: Result<(), String> = (|| {
        let round_val = |r: u64| format!("r{}", r).into_bytes();
        for r in 0..base_rounds {
            h.write(&Op::Batch(batch_keys.iter().map(|k| (k.clone(), Some(round_val(r)))).collect()))?;
            h.write(&Op::Put(side_key.clone(), format!("s{}", r).into_bytes()))?;
            if rng.chance(1, 3) {
                h.write(&Op::Del(ALPHABET[ks[n + 1]].to_vec()))?;
            }
        }
        if base_flushed >= 1 {
            h.flush()?;
        }
        if base_flushed == 2 {
            h.compact_all(4)?;
            h.write(&Op::Put(ALPHABET[ks[n + 1]].to_vec(), b"x".to_vec()))?;
        }
        let round = base_rounds;
        let batch: Vec<(Vec<u8>, Vec<u8>)> = batch_keys.iter().map(|k| (k.clone(), round_val(round))).collect();
        let side_val = format!("s{}", round).into_bytes();
        let gen_before = h.cur_gen();
        let trash_before = short(h.sim.listing().get("trash").unwrap());
        let seq_b = h.sim.kvs().verif_state().0 + 1;
        win.m.lock().unwrap().park_idx = Some(park);
        install_window_hook(&win);
        let kvs: &KeyValueStore = unsafe { &*(h.sim.kvs() as *const KeyValueStore) };
        let hp: *mut Hist = &mut h;
        let errors: Mutex<Vec<String>> = Mutex::new(vec![]);
        let mut stuck = None;
        std::thread::scope(|s| {
            let (batch, errors, win) = (&batch, &errors, &win);
            s.spawn(move || {
                ROLE.with(|r| r.set(1));
                let mut wb = lsmtk::WriteBatch::with_capacity(batch.len());
                for (k, v) in batch {
                    wb.put(k, v);
                }
                if let Err(e) = kvs.write(wb) {
                    errors.lock().unwrap().push(format!("batch write: {}", err_enum(&e)));
                }
            });
            let wait = |pred: &dyn Fn(&WinSt) -> bool| -> bool {
                let mut st = win.m.lock().unwrap();
                let t0 = std::time::Instant::now();
                while !pred(&st) {
                    if t0.elapsed().as_secs() >= 10 {
                        return false;
                    }
                    st = win.cv.wait_timeout(st, std::time::Duration::from_millis(50)).unwrap().0;
                }
                true
            };
            if !wait(&|st| st.b_parked) {
                stuck = Some("the batch writer did not reach its parking point");
            }
            let (side_key, side_val) = (&side_key, &side_val);
            s.spawn(move || {
                ROLE.with(|r| r.set(2));
                if let Err(e) = kvs.put(side_key, side_val) {
                    errors.lock().unwrap().push(format!("side write: {}", err_enum(&e)));
                }
            });
            if stuck.is_none() && !wait(&|st| st.s_inserted) {
                stuck = Some("the side writer did not finish its insert");
            }
            // the side writer now takes the store's mutex and queues behind the batch writer in
            // the wait list (nothing to observe from outside: give it a moment)
            std::thread::sleep(std::time::Duration::from_millis(2));
            if stuck.is_none() {
                // SAFETY: the other threads use `kvs` only; `*hp` is touched by this thread only
                let h = unsafe { &mut *hp };
                ROLE.with(|r| r.set(3));
                let mut alt = h.sim.oracle.clone();
                alt.insert(side_key.clone(), Some(side_val.clone()));
                for c in 0..2 {
                    let lo = if rng.chance(2, 3) { Bound::Unbounded } else { gen_bound(&mut rng, nkeys) };
                    let hi = if rng.chance(2, 3) { Bound::Unbounded } else { gen_bound(&mut rng, nkeys) };
                    let mut prog = vec![COp::First];
                    for _ in 0..nkeys + 1 {
                        prog.push(COp::Next);
                    }
                    let first_walk = prog.len();
                    if second_walk_backward {
                        prog.push(COp::Last);
                        for _ in 0..nkeys + 1 {
                            prog.push(COp::Prev);
                        }
                    } else {
                        prog.push(COp::First);
                        for _ in 0..nkeys + 1 {
                            prog.push(COp::Next);
                        }
                    }
                    let alt_list: Vec<(Vec<u8>, Vec<u8>)> = alt.iter().filter_map(|(k, v)| v.as_ref().map(|v| (k.clone(), v.clone()))).filter(|(k, _)| in_range(k, &lo, &hi)).collect();
                    let alt_want = ref_run(&alt_list, &prog);
                    let id = h.next_id;
                    win.m.lock().unwrap().scan_ts = None;
                    h.open_cursor(Spec { lo, hi, prog, shape: if second_walk_backward { 3 } else { 0 } }, "while-a-batch-is-half-inserted");
                    if let Some(i) = h.index_of(id) {
                        let st = win.m.lock().unwrap();
                        h.cursors[i].inflight = Some(st.snap_inflight.clone());
                        h.cursors[i].read_ts = st.scan_ts;
                        drop(st);
                        h.cursors[i].alt_want = Some(alt_want);
                        if c == 0 {
                            // walked once before the rest of the batch arrives
                            h.step_cursor(i, first_walk);
                        } else {
                            h.cursors[i].untouched_before_first_event = true;
                        }
                    }
                }
                ROLE.with(|r| r.set(0));
            }
            let mut st = win.m.lock().unwrap();
            st.release = true;
            win.cv.notify_all();
        });
        lsmtk::verif::set_pause_hook(None);
        if let Some(what) = stuck {
            h.fail("schedule-not-reached", format!("{} {}", h.tag.clone(), what));
        }
        for e in errors.lock().unwrap().iter() {
            h.fail("fault-free-op-error", format!("{} {}", h.tag.clone(), e));
        }
        // both writes have returned
        for (k, v) in &batch {
            h.sim.oracle.insert(k.clone(), Some(v.clone()));
        }
        h.sim.oracle.insert(side_key.clone(), Some(side_val.clone()));
        *h.gen_nodes.entry(gen_before).or_insert(1) += batch.len() + 1;
        // what arrived in the captured memtable after the scans were opened: the rest of the batch
        let late = format!("w:{}", batch[(park as usize + 1)..].iter().map(|(k, v)| format!("{}@{}={}", hex(k), seq_b, hex(v))).collect::<Vec<_>>().join(","));
        for c in h.cursors.iter_mut() {
            c.script.push(late.clone());
        }
        rec.count("window.schedules");
        rec.count(&format!("window.base_{}", ["in_memtable", "flushed", "flushed_and_moved"][base_flushed as usize]));
        rec.count(if second_walk_backward { "window.second_walk_backward" } else { "window.second_walk_forward" });
        h.after_event("window", gen_before, &trash_before)?;
        // a scan opened afterwards shows both writes
        let mut prog = vec![COp::First];
        for _ in 0..nkeys + 1 {
            prog.push(COp::Next);
        }
        h.open_cursor(Spec { lo: Bound::Unbounded, hi: Bound::Unbounded, prog, shape: 0 }, "after-both-writes-returned");
        for i in 0..h.cursors.len() {
            let n = h.cursors[i].spec.prog.len();
            h.step_cursor(i, n);
        }
        while !h.cursors.is_empty() {
            h.close_cursor(rec, 0);
        }
        Ok(())
    })();
    lsmtk::verif::set_pause_hook(None);
    if let Err(e) = r {
        let t = h.tag.clone();
        h.fail("fault-free-op-error", format!("{} {}", t, e));
    }
    finish_hist(rec, h)
}

// =================================================================================== race2 ====

#[derive(Debug, Default)]
pub struct Race2 {
    pub scans: u64,
    pub with_inflight: u64,
    pub with_two_inflight: u64,
    pub rounds: u64,
    pub side_puts: u64,
    pub backward: u64,
    pub bad: u64,
    pub bad_torn: u64,
    pub bad_unstable: u64,
    pub bad_range: u64,
    pub bad_ts: u64,
    pub first_bad: Option<String>,
}

/// stream `race2`: no schedule is imposed.  A batch writer rewrites four keys per round (value =
/// round number; the pause hook only makes each of its memtable inserts take a little longer), a
/// side writer puts other keys as fast as it can, and the main thread opens scans at arbitrary
/// moments, walks each, waits for the next round to be acknowledged, and walks the SAME cursor
/// again (forward or backward).  Checked without any model:
///  * each walk shows all four batch keys with ONE round number (a batch is visible atomically);
///  * both walks show the same entries (a held cursor is stable);
///  * the round shown is at least the last one acknowledged before the scan was opened (nothing
///    stale) and at most the last one started when `range_scan` returned (nothing from the future);
///  * the read timestamp the scan took is below the number of every write that was in flight when
///    it took its snapshot (hook bookkeeping under the store's mutex) — a scan whose timestamp
///    covers a write that is still inserting will show entries that arrive later.
pub fn race2(root: &str, seed: u64, iters: u64) -> Race2 {
    use std::sync::atomic::{AtomicBool, AtomicU64, Ordering};
    let mut out = Race2::default();
    let cfg = Cfg { memtable_bytes: 1 << 22, target_file: 1 << 22, min_file: 1 << 12, target_block: 4096, l0_mandatory_files: 4, l0_stall_files: 12, max_compaction_files: 64, gc_versions: 1, mani_ratio: 10 };
    let sim = match open_sim(root, &cfg, 1 << 26) {
        Ok(s) => s,
        Err(e) => {
            out.bad = 1;
            out.first_bad = Some(format!("open: {}", e));
            return out;
        }
    };
    let mut rng = Rng::for_case(seed, 407, 0);
    let kvs = sim.kvs();
    let batch_keys: Vec<Vec<u8>> = [1usize, 3, 5, 7].iter().map(|i| ALPHABET[*i].to_vec()).collect();
    let side_keys: Vec<Vec<u8>> = [0usize, 2, 4, 6, 8].iter().map(|i| ALPHABET[*i].to_vec()).collect();
    let write_round = |r: u64| -> Result<(), lsmtk::SError> {
        let mut wb = lsmtk::WriteBatch::with_capacity(batch_keys.len());
        // the insert order changes from round to round
        for j in 0..batch_keys.len() {
            wb.put(&batch_keys[(j + r as usize) % batch_keys.len()], format!("{}", r).as_bytes());
        }
        kvs.write(wb)
    };
    if write_round(0).is_err() {
        out.bad = 1;
        out.first_bad = Some("base round failed".into());
        sim.close();
        return out;
    }
    let win = Arc::new(Win { m: Mutex::new(WinSt { widen_ns: 20_000, ..Default::default() }), cv: Condvar::new() });
    install_window_hook(&win);
    let stop = AtomicBool::new(false);
    let started = AtomicU64::new(0);
    let acked = AtomicU64::new(0);
    let side_puts = AtomicU64::new(0);
    std::thread::scope(|s| {
        s.spawn(|| {
            ROLE.with(|r| r.set(1));
            let mut r = 0u64;
            while !stop.load(Ordering::SeqCst) && r < 20_000 {
                r += 1;
                started.store(r, Ordering::SeqCst);
                if write_round(r).is_err() {
                    break;
                }
                acked.store(r, Ordering::SeqCst);
            }
        });
        s.spawn(|| {
            ROLE.with(|r| r.set(2));
            let mut n = 0u64;
            while !stop.load(Ordering::SeqCst) && n < 60_000 {
                n += 1;
                let _ = kvs.put(&side_keys[(n % side_keys.len() as u64) as usize], format!("{}", n).as_bytes());
                side_puts.store(n, Ordering::SeqCst);
            }
        });
        ROLE.with(|r| r.set(3));
        type Walk = Vec<(Vec<u8>, u64, Vec<u8>)>;
        let walk = |c: &mut dyn Cursor, backward: bool| -> Option<Walk> {
            let mut v = vec![];
            if backward {
                c.seek_to_last().ok()?;
            } else {
                c.seek_to_first().ok()?;
            }
            loop {
                if backward {
                    c.prev().ok()?;
                } else {
                    c.next().ok()?;
                }
                match c.key_value() {
                    Some(kv) => v.push((kv.key.to_vec(), kv.timestamp, kv.value.map(|x| x.to_vec()).unwrap_or_default())),
                    None => break,
                }
            }
            if backward {
                v.reverse();
            }
            Some(v)
        };
        let rounds_of = |w: &Walk| -> Vec<Option<u64>> { batch_keys.iter().map(|k| w.iter().find(|e| &e.0 == k).and_then(|e| std::str::from_utf8(&e.2).ok().and_then(|s| s.parse().ok()))).collect() };
        for i in 0..iters {
            // arbitrary moment
            for _ in 0..rng.below(400) {
                std::hint::spin_loop();
            }
            let a0 = acked.load(Ordering::SeqCst);
            win.m.lock().unwrap().scan_ts = None;
            let Ok(mut c) = kvs.range_scan::<&[u8]>(&Bound::Unbounded, &Bound::Unbounded) else {
                out.bad += 1;
                out.first_bad.get_or_insert(format!("scan {}: range_scan failed", i));
                continue;
            };
            let s1 = started.load(Ordering::SeqCst);
            let (inflight, ts) = {
                let st = win.m.lock().unwrap();
                (st.snap_inflight.clone(), st.scan_ts)
            };
            let first = walk(&mut c, false);
            let t0 = std::time::Instant::now();
            while acked.load(Ordering::SeqCst) < a0 + 2 && t0.elapsed().as_millis() < 200 {
                std::thread::yield_now();
            }
            let backward = i % 2 == 1;
            let second = walk(&mut c, backward);
            out.scans += 1;
            if !inflight.is_empty() {
                out.with_inflight += 1;
            }
            if inflight.len() >= 2 {
                out.with_two_inflight += 1;
            }
            if backward {
                out.backward += 1;
            }
            let mut bad = vec![];
            match (&first, &second) {
                (Some(f), Some(s2)) => {
                    for (name, w) in [("first", f), ("second", s2)] {
                        let rs = rounds_of(w);
                        if rs.iter().any(|r| r.is_none()) || rs.iter().any(|r| *r != rs[0]) {
                            out.bad_torn += 1;
                            bad.push(format!("{} walk shows the batch keys at rounds {:?}: part of a batch", name, rs));
                        } else if let Some(r) = rs[0] {
                            if r < a0 || r > s1 {
                                out.bad_range += 1;
                            }
                            if r < a0 {
                                bad.push(format!("{} walk shows round {} although round {} had been acknowledged before the scan was opened", name, r, a0));
                            }
                            if r > s1 {
                                bad.push(format!("{} walk shows round {}, which had not been started when range_scan returned (last started {})", name, r, s1));
                            }
                        }
                    }
                    if f != s2 {
                        out.bad_unstable += 1;
                        let d = f.iter().zip(s2.iter()).find(|(a, b)| a != b).map(|(a, b)| format!("{}@{} then {}@{}", hex(&a.0), a.1, hex(&b.0), b.1)).unwrap_or_else(|| format!("{} then {} entries", f.len(), s2.len()));
                        bad.push(format!("the second walk ({}) of the same cursor differs from the first: {}", if backward { "backward" } else { "forward" }, d));
                    }
                }
                _ => bad.push("a cursor call failed".to_string()),
            }
            if let (Some(t), Some(m)) = (ts, inflight.first()) {
                if t >= *m {
                    out.bad_ts += 1;
                    bad.push(format!("read timestamp {} although write {} was still in flight (in flight: {:?})", t, m, inflight));
                }
            }
            if !bad.is_empty() {
                out.bad += 1;
                out.first_bad.get_or_insert(format!("scan {}: {}", i, bad.join("; ")));
            }
        }
        stop.store(true, Ordering::SeqCst);
    });
    lsmtk::verif::set_pause_hook(None);
    ROLE.with(|r| r.set(0));
    out.rounds = acked.load(Ordering::SeqCst);
    out.side_puts = side_puts.load(Ordering::SeqCst);
    sim.close();
    out
}

// ================================================================================ valgrind ====

/// `blueharness C07child <seed> <history> <quick|thorough>`: one history of stream `held` (or
/// `d5` for history >= 10000) again; prints what the implementation showed, one line per case
pub fn child_run(rest: &[String]) -> ! {
    use std::io::Write as _;
    if rest.first().map(|s| s.as_str()) == Some("race") {
        let iters: u64 = rest.get(1).and_then(|s| s.parse().ok()).unwrap_or(300);
        let r = race2(&scratch_dir("c07race"), 1, iters);
        println!("{:?}", r);
        std::process::exit(0);
    }
    let seed: u64 = rest.first().and_then(|s| s.parse().ok()).unwrap_or(1);
    let hidx: u64 = rest.get(1).and_then(|s| s.parse().ok()).unwrap_or(0);
    let thorough = rest.get(2).map(|s| s == "thorough").unwrap_or(false);
    let dir = scratch_dir(&format!("c07child.{}", hidx));
    let mut rec = Recorder::new(&dir, None);
    let log = if hidx >= 20000 {
        run_window(&mut rec, seed, hidx - 20000)
    } else if hidx >= 10000 {
        run_d5(&mut rec, hidx - 10000)
    } else {
        run_history(&mut rec, seed, hidx, thorough)
    };
    let out = std::io::stdout();
    for l in log {
        writeln!(out.lock(), "{}", l).unwrap();
    }
    out.lock().flush().unwrap();
    let _ = std::fs::remove_dir_all(&dir);
    std::process::exit(0);
}

fn valgrind_replay(rec: &mut Recorder, seed: u64, hidx: u64, thorough: bool, mine: &[String]) {
    let exe = std::env::current_exe().unwrap();
    let mut cmd = std::process::Command::new("valgrind");
    cmd.args(["-q", "--error-exitcode=9"]).arg(&exe).arg("C07child").arg(seed.to_string()).arg(hidx.to_string()).arg(if thorough { "thorough" } else { "quick" });
    let req = format!("# valgrind replay of history {}", hidx);
    rec.count("valgrind.replays");
    match cmd.output() {
        Err(e) => rec.case(&req, "#", Verdict::Fail { class: "harness-child".into(), detail: format!("valgrind did not start: {}", e) }, None),
        Ok(o) => {
            let text = String::from_utf8_lossy(&o.stdout).to_string();
            let theirs: Vec<&str> = text.lines().collect();
            let code = o.status.code();
            let v = if code == Some(9) {
                Verdict::Fail { class: "valgrind-invalid-access".into(), detail: format!("history {}: {}", hidx, String::from_utf8_lossy(&o.stderr).lines().take(12).collect::<Vec<_>>().join(" / ")) }
            } else if code != Some(0) {
                Verdict::Fail { class: "valgrind-child-died".into(), detail: format!("history {}: exit {:?} {}", hidx, code, String::from_utf8_lossy(&o.stderr).lines().take(6).collect::<Vec<_>>().join(" / ")) }
            } else if theirs.len() != mine.len() || theirs.iter().zip(mine.iter()).any(|(a, b)| a != b) {
                Verdict::Fail { class: "replay-differs".into(), detail: format!("history {}: the replay under valgrind showed {} lines, this run {}", hidx, theirs.len(), mine.len()) }
            } else {
                Verdict::Ok
            };
            rec.case(&req, "#", v, None);
        }
    }
}

pub fn run(args: &Args) {
    let mut rec = Recorder::new(&args.out, args.only_case);
    let nh = if args.thorough { 600 } else { 150 };
    let mut logs: Vec<(u64, Vec<String>)> = vec![];
    for v in 0..12u64 {
        let log = run_d5(&mut rec, v);
        if v == 0 || v == 3 {
            logs.push((10000 + v, log));
        }
    }
    for v in 0..4u64 {
        run_open_file_limit(&mut rec, v);
    }
    for hi in 0..nh {
        let t0 = std::time::Instant::now();
        let log = run_history(&mut rec, args.seed, hi, args.thorough);
        if std::env::var("BLUE_TIMING").is_ok() && t0.elapsed().as_millis() > 500 {
            eprintln!("history {} took {} ms", hi, t0.elapsed().as_millis());
        }
        if hi < 3 {
            logs.push((hi, log));
        }
    }
    let nc = if args.thorough { 16 } else { 6 };
    for i in 0..nc {
        let t0 = std::time::Instant::now();
        run_conc(&mut rec, args.seed, i, args.thorough);
        if std::env::var("BLUE_TIMING").is_ok() {
            eprintln!("conc {} took {} ms", i, t0.elapsed().as_millis());
        }
    }
    // scans opened while writes are in flight: directed schedules, then free-running threads
    let nw = if args.thorough { 120 } else { 40 };
    for i in 0..nw {
        let log = run_window(&mut rec, args.seed, i);
        if i == 0 {
            logs.push((20000, log));
        }
    }
    let r = race2(&scratch_dir("c07.race2"), args.seed, if args.thorough { 1200 } else { 300 });
    rec.add("race2.scans_opened_while_two_writers_run", r.scans);
    rec.add("race2.scans_opened_with_a_write_in_flight", r.with_inflight);
    rec.add("race2.scans_opened_with_two_writes_in_flight", r.with_two_inflight);
    rec.add("race2.batch_rounds", r.rounds);
    rec.add("race2.side_puts", r.side_puts);
    rec.add("race2.second_walk_backward", r.backward);
    rec.add("race2.bad.part_of_a_batch", r.bad_torn);
    rec.add("race2.bad.second_walk_differs", r.bad_unstable);
    rec.add("race2.bad.round_stale_or_from_the_future", r.bad_range);
    rec.add("race2.bad.timestamp_covers_write_in_flight", r.bad_ts);
    let v = match &r.first_bad {
        Some(d) => Verdict::Fail { class: LATE.into(), detail: format!("{} of {} scans opened while a batch writer and a side writer run: {}", r.bad, r.scans, d) },
        None => Verdict::Ok,
    };
    rec.case("# scans opened while a batch writer and a side writer run, each walked twice", "#", v, None);
    if args.thorough {
        for (hidx, log) in &logs {
            valgrind_replay(&mut rec, args.seed, *hidx, args.thorough, log);
        }
    }
    rec.finish(
        "six streams. limit (directed, four variants): 2 or 3 level-0 files in a store allowed exactly that many open files (SST cache off), cursor A walked off its end forward or backward (holds no file), cursor B positioned on an entry (holds every slot), A walked back over its snapshot, B walked on; both against kvs scan and the reference cursor; the same history with one slot less must be refused at the scan open (the limit is tight); small limits appear in no other stream. held: seeded single-stepped store histories (preamble of puts/deletes/batches/flushes/compaction steps/verifier passes, then 2-6 episodes); per episode 1-3 range-scan cursors (bounds unbounded/included/excluded over the key alphabet; programs of 3-18 calls: forward walk, backward walk, mixed with seeks and reversals, off-the-end-and-back) are opened between operations or inside a flush/compaction (observer call-outs), held across 0-6 events (write bursts, flush, compaction steps, verifier pass, retire = flush + compact until nothing is selectable + two verifier passes), stepped 0-5 calls between events, dropped early or at the end; SST cache 0 / 300 bytes / 64 MiB; clean reopens only between episodes. d5: twelve directed variants of the smallest history of finding D-5. conc: two writer threads, the flush loop and the compaction loop run as threads while the main thread walks cursors opened at quiescent points. window: 40 (thorough 120) directed schedules - a batch writer is parked between two of its memtable inserts (pause hook at kvs.write.insert), a side writer inserts its entry and queues behind it in the wait list, scans are opened in that window (one walked before the batch writer is released, one not touched until afterwards), the writers are released and the scans walked again forward or backward; the base state in the memtable or flushed to files; request = snap open (state dumped in the window + the sequence numbers in flight as the hooks saw them under the store mutex + program interleaved with the entries that arrived later). race2: 300 (thorough 1200) scans opened at arbitrary moments while a batch writer (all keys of a batch carry the round number) and a side writer run freely, the batch inserts widened by the pause hook, each scan walked twice (second walk forward or backward): one round per scan, both walks equal, round between last acknowledged before and last started after the open, read timestamp below every write in flight (one case). Per cursor two requests (kvs scan = open-time state + whole program; snap run = the program interleaved with the later writes into the captured memtable), per store incarnation one refs run. non-trivial (cursor) = at least two live keys in range at open time, held across at least one event other than a verifier pass that removed nothing of it, and stepped after it; (refs) = at least one snapshot and one install; distinct by request",
        &[],
    );
}
