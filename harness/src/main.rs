mod common;
mod c20;
mod c07;
mod c06;
mod c09;
mod c17;
mod c18;
mod c12;
mod c19;
mod c10;
mod c13;
mod c15;
mod c05;
mod c16;
mod c11;
mod c14;
mod store;
mod c01;
mod c02;
mod c03;
mod fstrace;
mod c04;
mod c08;

fn main() {
    common::install_panic_note_hook();
    let args = common::parse_args();
    match args.prop.as_str() {
        "C14" => c14::run(&args),
        "C01" => c01::run(&args),
        "C02" => c02::run(&args),
        "C02child" => c02::child_run(&args.rest),
        "C02mw" => c02::child_mw(&args.rest),
        "C02reopen" => c02::child_reopen(&args.rest),
        "C03" => c03::run(&args),
        "C04" => c04::run(&args),
        "C08" => c08::run(&args),
        "C08child" => c08::child_run(&args.rest),
        "C11" => c11::run(&args),
        "C16" => c16::run(&args),
        "C05" => c05::run(&args),
        "C15" => c15::run(&args),
        "C13" => c13::run(&args),
        "C10" => c10::run(&args),
        "C19" => c19::run(&args),
        "C12" => c12::run(&args),
        "C18" => c18::run(&args),
        "C17" => c17::run(&args),
        "C17child" => c17::child_run(&args.rest),
        "C09" => c09::run(&args),
        "C09child" => c09::child_run(&args.rest),
        "C06" => c06::run(&args),
        "C07" => c07::run(&args),
        "C07child" => c07::child_run(&args.rest),
        "C20" => c20::run(&args),
        x => {
            eprintln!("unknown property {}", x);
            std::process::exit(2);
        }
    }
}
