//! C02 — acknowledged writes survive any crash; recovery is all-or-nothing per batch.
//!
//! A deterministic single-stepped history runs once, to completion, in a child process under
//! `strace`.  The parent parses the trace into file-system operations, replays every prefix of
//! them (a crash before each mutating system call) onto a simulated file system, materialises the
//! image under both persistence models, reopens it with the real code in a fresh child and reads
//! everything back.
//!  * oracle: the reopen succeeds and the contents are exactly those after the acknowledged
//!    operations, or after those plus the one operation in flight (entirely) — nothing else;
//!  * correspondence: the canonical operation list of the trace equals the operation list the
//!    Lean model (`StoreCrash.opsOf`, the object of theorem `crash_recover`) emits for the same
//!    history — in particular the order link -> manifest sync -> trash that the proof uses.
//!
//! Second crash during recovery: for a sample of the crash images the reopen itself runs under
//! `strace`; its operation list is compared with `StoreFault.recoverOps` of the model's image of
//! the same crash point (`crash recover`), every prefix of it is replayed onto the image (a crash
//! before each mutating call of the RECOVERY, both persistence models again), reopened once more
//! (traced: `crash recover2`) and read back against the same expectations.
//!
//! Faults: one system call of the history fails (`strace -e inject=`).  Oracle: the error is
//! surfaced, the write in progress is not acknowledged, the store reopens with every acknowledged
//! write — after the process exit and after a power loss on top of it (model b image of the
//! fault run's own trace).  Correspondence (`crash fault` / `crash faultx`): the model's
//! `StoreFault.faultOps` / `faultAcked` / `surfaced` for a failure of the same call of the same
//! history: kind of the call, surfaced or absorbed, acknowledgements the client got, the calls
//! issued after the failed one (the log's BufWriter is flushed again when the store is dropped),
//! batches found by the reopen under both models.
//!
//! Multi-writer faults (`run_multi_writer`): the streams above are single-threaded by
//! construction (single-stepped store).  One more family puts N client threads inside
//! `KeyValueStore::put` at once while the log's fdatasync starts failing (per-thread `when=K+` /
//! `when=K`), so that batches are coalesced and overtake each other between the log's write and
//! fsync queues.  Oracle only (see there).
use crate::common::*;
use crate::fstrace::{self, FsOp, SimFs};
use crate::store::*;
use std::collections::BTreeMap;
use std::io::Write as _;

fn parse_cfg(s: &str) -> Cfg {
    let mut m = BTreeMap::new();
    for t in s.split(',') {
        if let Some((k, v)) = t.split_once('=') {
            m.insert(k.to_string(), v.parse::<u64>().unwrap_or(0));
        }
    }
    Cfg {
        memtable_bytes: m["mem"],
        target_file: m["tf"],
        min_file: m["mf"],
        target_block: m["tb"],
        l0_mandatory_files: m["l0m"],
        l0_stall_files: m["l0s"],
        max_compaction_files: m["mcf"],
        gc_versions: m["gc"],
        mani_ratio: m["mr"],
    }
}

fn cfg_arg(c: &Cfg) -> String {
    c.render().replace(' ', ",")
}

fn parse_op(s: &str) -> Option<Op> {
    let unh = |x: &str| unhex(x);
    if s == "flush" {
        return Some(Op::Flush);
    }
    if s == "reopen" {
        return Some(Op::Reopen);
    }
    if s == "verify" {
        return Some(Op::Verify);
    }
    if let Some(n) = s.strip_prefix("compact:") {
        return Some(Op::Compact(n.parse().ok()?));
    }
    if let Some(r) = s.strip_prefix("put:") {
        let (k, v) = r.split_once(':')?;
        return Some(Op::Put(unh(k)?, unh(v)?));
    }
    if let Some(k) = s.strip_prefix("del:") {
        return Some(Op::Del(unh(k)?));
    }
    if let Some(r) = s.strip_prefix("batch:") {
        let mut es = vec![];
        for e in r.split(',') {
            if let Some(k) = e.strip_suffix('!') {
                es.push((unh(k)?, None));
            } else {
                let (k, v) = e.split_once('=')?;
                es.push((unh(k)?, Some(unh(v)?)));
            }
        }
        return Some(Op::Batch(es));
    }
    None
}

fn file_name(entries: &[Ent], ts_batch: &BTreeMap<u64, usize>) -> String {
    let mut ids: Vec<usize> = entries.iter().map(|e| *ts_batch.get(&e.1).unwrap_or(&999999)).collect();
    ids.sort();
    ids.dedup();
    ids.iter().map(|x| x.to_string()).collect::<Vec<_>>().join(".")
}

/// child: run the history on the real store, writing begin/ack markers and a per-op report
pub fn child_run(rest: &[String]) -> ! {
    let root = &rest[0];
    let cfg = parse_cfg(&rest[1]);
    let ops: Vec<Op> = std::fs::read_to_string(&rest[2]).unwrap().split_whitespace().filter_map(parse_op).collect();
    // markers and the report are written with pwrite64 so that a fault injected on `write` can
    // never hit them
    use std::os::unix::io::AsRawFd;
    struct Raw { f: std::fs::File, off: i64 }
    impl Raw {
        fn put(&mut self, s: &str) {
            let b = s.as_bytes();
            let n = unsafe { libc::pwrite(self.f.as_raw_fd(), b.as_ptr() as *const libc::c_void, b.len(), self.off) };
            if n > 0 { self.off += n as i64; }
        }
    }
    impl std::io::Write for Raw {
        fn write(&mut self, buf: &[u8]) -> std::io::Result<usize> { self.put(&String::from_utf8_lossy(buf)); Ok(buf.len()) }
        fn flush(&mut self) -> std::io::Result<()> { Ok(()) }
    }
    let mut marker = Raw { f: std::fs::OpenOptions::new().create(true).write(true).open(&rest[3]).unwrap(), off: 0 };
    let mut report = Raw { f: std::fs::File::create(&rest[4]).unwrap(), off: 0 };
    let mut mark = |s: String| {
        marker.put(&s);
    };
    mark("MARK open\n".to_string());
    let mut sim = match Sim::open(root, &cfg) {
        Ok(s) => s,
        Err(e) => {
            writeln!(report, "open-error {}", e).unwrap();
            std::process::exit(3);
        }
    };
    mark("MARK opened\n".to_string());
    let mut ts_batch: BTreeMap<u64, usize> = BTreeMap::new();
    let mut nbatch = 0usize;
    let names = |d: &StateDump, m: &BTreeMap<u64, usize>| -> Vec<String> { d.levels.iter().flat_map(|l| l.iter().map(|f| file_name(&f.entries, m))).collect() };
    for (k, op) in ops.iter().enumerate() {
        let before = sim.dump().ok();
        mark(format!("MARK b {}\n", k));
        let r = sim.apply(op);
        match r {
            Ok(()) => mark(format!("MARK a {}\n", k)),
            Err(e) => {
                mark(format!("MARK e {}\n", k));
                writeln!(report, "error {} {}", k, e).unwrap();
                // the client of the model stops at the first error (`KeyValueStore::poison` is a
                // no-op: the store itself would go on); BLUE_C02_CONTINUE=1 explores a client that
                // goes on regardless (exploration only, not part of the check)
                if std::env::var("BLUE_C02_CONTINUE").is_ok() && sim.kvs.is_some() {
                    continue;
                }
                break;
            }
        }
        let after = match sim.dump() {
            Ok(d) => d,
            Err(e) => {
                writeln!(report, "error {} dump {}", k, e).unwrap();
                break;
            }
        };
        // new timestamps belong to this write
        let mut is_write = false;
        if matches!(op, Op::Put(..) | Op::Del(..) | Op::Batch(..)) {
            is_write = true;
            for e in after.all_entries() {
                ts_batch.entry(e.1).or_insert(nbatch);
            }
            nbatch += 1;
        }
        let (bn, an) = (before.as_ref().map(|d| names(d, &ts_batch)).unwrap_or_default(), names(&after, &ts_batch));
        let added: Vec<String> = an.iter().filter(|x| !bn.contains(x)).cloned().collect();
        let removed: Vec<String> = bn.iter().filter(|x| !an.contains(x)).cloned().collect();
        let chosen = std::mem::take(&mut sim.chosen);
        let multi = matches!(op, Op::Batch(es) if es.len() > 1);
        let kind = match op {
            Op::Put(..) | Op::Del(..) | Op::Batch(..) => {
                // a write may trigger the memtable flush (and, when level 0 is full, compactions)
                let mut s = format!("put{}", if multi { "-multi" } else { "" });
                if !added.is_empty() || !removed.is_empty() {
                    s.push_str(&format!(" then-flush in={} out={} compactions={}", removed.join(";"), added.join(";"), chosen.len()));
                }
                s
            }
            Op::Flush => format!("flush in={} out={} compactions={}", removed.join(";"), added.join(";"), chosen.len()),
            Op::Compact(_) => {
                if chosen.is_empty() {
                    "compact-none".to_string()
                } else if chosen[0].1.inputs.len() == 1 {
                    "move".to_string()
                } else {
                    // a compaction into the last level runs the garbage collector; when it drops
                    // nothing (the outputs hold exactly the inputs' batches) it is a plain merge
                    // for the batch-granular model, with the same system-call sequence
                    let batches = |names: &[String]| -> Vec<String> {
                        let mut b: Vec<String> = names.iter().flat_map(|n| n.split('.').map(|x| x.to_string())).collect();
                        b.sort();
                        b
                    };
                    let drops = batches(&removed) != batches(&added);
                    // `nin`: the number of files the selector chose.  An output that has the content
                    // (hence the name) of one of the inputs is neither removed nor added: the link
                    // answers AlreadyExists and the file stays (outside the model: `validCompact`)
                    format!("compact in={} out={} gc={} nin={}", removed.join(";"), added.join(";"), (chosen[0].1.upper_level == lsmtk::NUM_LEVELS - 1 && drops) as u8, chosen[0].1.inputs.len())
                }
            }
            Op::Reopen => format!("reopen out={}", added.join(";")),
            Op::Verify => format!("verify {}", sim.last_verify.split(':').next().unwrap_or("")),
        };
        let _ = is_write;
        writeln!(report, "op {} {}", k, kind).unwrap();
    }
    drop(sim);
    std::process::exit(0);
}

/// child: reopen an image and print what it holds
pub fn child_reopen(rest: &[String]) -> ! {
    let root = &rest[0];
    let cfg = parse_cfg(&rest[1]);
    let nkeys: usize = rest[2].parse().unwrap();
    let r = guarded(std::panic::AssertUnwindSafe(|| -> Result<String, String> {
        let sim = Sim::open(root, &cfg)?;
        let mut out = String::new();
        // known finding D-9: recover() cannot order files that overlap in key and timestamp range
        let dump = sim.dump();
        if dump.as_ref().map(|d| crate::c01::d9_trigger(d)).unwrap_or(false) {
            eprintln!("D9TRIGGER");
        }
        // number of write batches the store holds: distinct sequence numbers over all entries
        if let Ok(d) = &dump {
            let mut ts: Vec<u64> = d.all_entries().iter().map(|e| e.1).collect();
            ts.sort();
            ts.dedup();
            eprintln!("BATCHES {}", ts.len());
        }
        for k in ALPHABET[..nkeys].iter() {
            match sim.get(k)? {
                Some(v) => out.push_str(&format!("{}={}\n", hex(k), hex(&v))),
                None => out.push_str(&format!("{}!\n", hex(k))),
            }
        }
        let scan = sim.scan_all()?;
        out.push_str(&format!("scan {}\n", scan.iter().map(|(k, v)| format!("{}={}", hex(k), hex(v))).collect::<Vec<_>>().join(",")));
        Ok(out)
    }));
    match r {
        Ok(Ok(s)) => {
            print!("{}", s);
            std::process::exit(0)
        }
        Ok(Err(e)) => {
            println!("ERR {}", e);
            std::process::exit(3)
        }
        Err(p) => {
            println!("PANIC {}", p);
            std::process::exit(4)
        }
    }
}

fn expected_state(ops: &[Op], upto: usize, nkeys: usize) -> String {
    let mut m: BTreeMap<Vec<u8>, Option<Vec<u8>>> = BTreeMap::new();
    for op in &ops[..upto] {
        match op {
            Op::Put(k, v) => {
                m.insert(k.clone(), Some(v.clone()));
            }
            Op::Del(k) => {
                m.insert(k.clone(), None);
            }
            Op::Batch(es) => {
                for (k, v) in es {
                    m.insert(k.clone(), v.clone());
                }
            }
            _ => {}
        }
    }
    let mut out = String::new();
    for k in ALPHABET[..nkeys].iter() {
        match m.get(*k).cloned().flatten() {
            Some(v) => out.push_str(&format!("{}={}\n", hex(k), hex(&v))),
            None => out.push_str(&format!("{}!\n", hex(k))),
        }
    }
    let live: Vec<String> = m.iter().filter_map(|(k, v)| v.as_ref().map(|v| format!("{}={}", hex(k), hex(v)))).collect();
    out.push_str(&format!("scan {}\n", live.join(",")));
    out
}

fn gen_c02_history(rng: &mut Rng, len: usize, nkeys: usize, single_entry: bool, with_verify: bool) -> Vec<Op> {
    let mut ops = vec![];
    let mut counter = 0u64;
    while ops.len() < len {
        let r = rng.below(100);
        let op = if r < 34 {
            Op::Put(gen_key(rng, nkeys), gen_val(rng, &mut counter))
        } else if r < 46 {
            Op::Del(gen_key(rng, nkeys))
        } else if r < 54 && !single_entry {
            let n = rng.range(2, 3) as usize;
            let mut ks: Vec<usize> = (0..nkeys).collect();
            rng.shuffle(&mut ks);
            Op::Batch(ks.into_iter().take(n).map(|i| (ALPHABET[i].to_vec(), if rng.chance(1, 3) { None } else { Some(gen_val(rng, &mut counter)) })).collect())
        } else if r < 72 {
            Op::Flush
        } else if r < 88 {
            Op::Compact(1)
        } else if r < 97 || !with_verify {
            Op::Reopen
        } else {
            Op::Verify
        };
        ops.push(op);
    }
    ops
}

/// overlapping single-entry files stacked in level 0 (no compaction between the flushes), then
/// compaction steps: the oldest file moves down, the next one has to be merged with it
fn directed_merge_history(variant: usize, rng: &mut Rng) -> Vec<Op> {
    // every file spans [first key .. last key] of the alphabet part it uses, no key is written
    // twice and nothing is deleted: the files overlap, stack up level by level (each sinks by
    // trivial moves until it meets the one below) and the merge that finally comes drops nothing
    let mut ops = vec![];
    let mut counter = 0u64;
    let files = 4 + variant;
    let mut next_key = 1usize;
    let last = ALPHABET.len() - 1;
    for i in 0..files {
        // file i: {low_i, high_i} with low descending from the middle and high ascending: nested ranges
        let lo = files - i;
        let hi = last - (files - i);
        let _ = next_key;
        next_key += 1;
        ops.push(Op::Put(ALPHABET[lo].to_vec(), gen_val(rng, &mut counter)));
        ops.push(Op::Put(ALPHABET[hi].to_vec(), gen_val(rng, &mut counter)));
        ops.push(Op::Flush);
        for _ in 0..18 {
            ops.push(Op::Compact(1));
        }
    }
    ops.push(Op::Put(ALPHABET[0].to_vec(), gen_val(rng, &mut counter)));
    if variant != 1 {
        ops.push(Op::Reopen);
    }
    for _ in 0..4 {
        ops.push(Op::Compact(1));
    }
    ops
}

/// the model's client list for the driver: only for histories of single-entry writes
fn model_clients(report: &str) -> Option<(String, Vec<String>)> {
    // returns (request tail, expected allowed-difference notes)
    let mut toks = vec![];
    for l in report.lines() {
        let p: Vec<&str> = l.split_whitespace().collect();
        if p.len() < 3 || p[0] != "op" {
            if p.first() == Some(&"error") {
                return None;
            }
            continue;
        }
        match p[2] {
            "put" => {
                toks.push("put".to_string());
                if p.len() > 3 {
                    // the write filled the memtable: flush right after it
                    if p.iter().any(|x| x.starts_with("compactions=") && *x != "compactions=0") {
                        return None;
                    }
                    toks.push("flush".to_string());
                }
            }
            "put-multi" => return None,
            "flush" => {
                if p.iter().any(|x| x.starts_with("compactions=") && *x != "compactions=0") {
                    return None;
                }
                toks.push("flush".to_string());
            }
            "compact-none" | "move" => {}
            "compact" => {
                let ins = p.iter().find_map(|x| x.strip_prefix("in="))?;
                let outs = p.iter().find_map(|x| x.strip_prefix("out="))?;
                if p.iter().any(|x| *x == "gc=1") || ins.is_empty() || outs.is_empty() {
                    return None; // GC drops entries: outside the batch-granular model (C05's business)
                }
                let nin: Option<usize> = p.iter().find_map(|x| x.strip_prefix("nin=")).and_then(|x| x.parse().ok());
                if nin != Some(ins.split(';').count()) {
                    return None; // an output is one of the inputs again (AlreadyExists on its link)
                }
                toks.push(format!("compact:{}:{}", ins, outs));
            }
            "reopen" => toks.push("reopen".to_string()),
            "verify" => {}
            _ => return None,
        }
    }
    Some((toks.join(" "), vec![]))
}

/// canonical op list of a trace in the model's alphabet.  Allowed differences, spelled out:
///  * consecutive writes to one temporary file are one `tmpCreate` (the model creates a file with
///    its content in one step); creation of compaction/ and tmp/ directories is not an op;
///  * an fsync of a log with nothing unsynced is a no-op (`ConcurrentLogBuilder::seal`);
///  * everything under mani/ other than appends and syncs of MANIFEST is the manifest's own
///    rollover protocol (C13's model), invisible at this level;
///  * the lock file, reads, closes.
fn canonical(ops: &[FsOp]) -> Vec<String> {
    canonical_idx(ops, true).into_iter().map(|t| t.0).collect()
}

/// the canonical list with, per token, the index of the trace operation it stands for.
/// `need_opened`: skip everything before the `opened` marker (the initial open of a history run is
/// the model's initial state); a traced reopen of a crash image has no markers and starts at once.
/// Injected failures appear as `FAULT` tokens.
fn canonical_idx(ops: &[FsOp], need_opened: bool) -> Vec<(String, usize)> {
    let mut out: Vec<(String, Option<String>, usize)> = vec![];
    let mut dirty_logs: BTreeMap<String, bool> = BTreeMap::new();
    let mut created: std::collections::BTreeSet<String> = Default::default();
    let mut started = !need_opened;
    for (ri, op) in ops.iter().enumerate() {
        if let FsOp::Mark { text } = op {
            if text == "opened" {
                started = true;
            }
            if text.starts_with("a ") && started {
                out.push((format!("ack:{}", &text[2..]), None, ri));
            }
            continue;
        }
        if !started {
            continue; // the initial open is the model's initial state
        }
        if let FsOp::Fault { .. } = op {
            out.push(("FAULT".to_string(), None, ri));
            continue;
        }
        let Some(c) = fstrace::classify(op) else { continue };
        let path = match op {
            FsOp::Create { path, .. } | FsOp::Write { path, .. } | FsOp::Sync { path } | FsOp::Unlink { path } => Some(path.clone()),
            FsOp::Link { from, .. } => Some(from.clone()),
            _ => None,
        };
        match c.as_str() {
            "tmpWrite" => {}
            "logAppend" => {
                dirty_logs.insert(path.clone().unwrap_or_default(), true);
                out.push((c, path, ri));
            }
            "logSync" => {
                let p = path.clone().unwrap_or_default();
                if dirty_logs.get(&p).copied().unwrap_or(false) {
                    dirty_logs.insert(p, false);
                    out.push((c, path, ri));
                }
            }
            "tmpCreate" => {
                created.insert(path.clone().unwrap_or_default());
                out.push((c, path, ri));
            }
            "tmpUnlink" => {
                // the removal of a temporary this process did not create — a leftover of an
                // incarnation that died (`recover_one` removes tmp/log.N.sst if it exists,
                // `compaction_setup` clears a scratch directory of the same name) — is a frame
                // operation on a file the model does not keep apart from the one created next
                if created.contains(path.as_deref().unwrap_or("")) {
                    out.push((c, path, ri));
                }
            }
            _ => out.push((c, path, ri)),
        }
    }
    // A temporary that is created but never synced or linked (recover_one builds tmp/log.N.sst
    // before it finds the log empty, and leaves it behind), and the removal of such a leftover by
    // the next recover_one, are dropped: operations on tmp/ that never reach sst/ are frame
    // operations of the model (`StoreCrash.frame_step`), they cannot change what a reopen sees.
    let mut orphan: std::collections::BTreeSet<String> = Default::default();
    let mut keep = vec![true; out.len()];
    for i in 0..out.len() {
        if out[i].0 == "tmpCreate" {
            let p = out[i].1.clone().unwrap_or_default();
            let mut used = false;
            for j in i + 1..out.len() {
                if out[j].0 == "FAULT" {
                    // the run was cut short by a failure: what would have followed is unknown
                    used = true;
                    break;
                }
                if out[j].1.as_deref() == Some(&p) {
                    if out[j].0 == "tmpSync" || out[j].0 == "link" {
                        used = true;
                    }
                    break;
                }
            }
            if !used {
                keep[i] = false;
                orphan.insert(p);
            }
        } else if out[i].0 == "tmpUnlink" {
            let p = out[i].1.clone().unwrap_or_default();
            if orphan.remove(&p) {
                keep[i] = false;
            }
        }
    }
    out.into_iter().zip(keep).filter(|(_, k)| *k).map(|(t, _)| (t.0, t.2)).collect()
}

/// acknowledgements of non-write operations are not model events
fn model_tokens(canon: Vec<(String, usize)>, write_idx: &[usize]) -> Vec<(String, usize)> {
    canon
        .into_iter()
        .filter_map(|(t, ri)| match t.strip_prefix("ack:") {
            Some(k) => {
                let k: usize = k.parse().ok()?;
                if write_idx.contains(&k) {
                    Some(("ack".to_string(), ri))
                } else {
                    None
                }
            }
            None => Some((t, ri)),
        })
        .collect()
}

fn join_toks(v: &[String]) -> String {
    if v.is_empty() {
        "-".to_string()
    } else {
        v.join(",")
    }
}

/// run the jobs on a few threads (every job spawns processes and waits for them); results in job order
fn par_map<T: Send, R: Send>(jobs: Vec<T>, f: impl Fn(usize, T) -> R + Sync) -> Vec<R> {
    let n = jobs.len();
    let workers = std::thread::available_parallelism().map(|x| x.get()).unwrap_or(2).clamp(1, 6).min(n.max(1));
    let queue: std::sync::Mutex<Vec<Option<T>>> = std::sync::Mutex::new(jobs.into_iter().map(Some).collect());
    let next = std::sync::atomic::AtomicUsize::new(0);
    let out: std::sync::Mutex<Vec<Option<R>>> = std::sync::Mutex::new((0..n).map(|_| None).collect());
    std::thread::scope(|sc| {
        for _ in 0..workers {
            sc.spawn(|| loop {
                let i = next.fetch_add(1, std::sync::atomic::Ordering::SeqCst);
                if i >= n {
                    break;
                }
                let job = queue.lock().unwrap()[i].take().unwrap();
                let r = f(i, job);
                out.lock().unwrap()[i] = Some(r);
            });
        }
    });
    out.into_inner().unwrap().into_iter().map(|x| x.unwrap()).collect()
}

struct Reopened {
    /// the image could not be written (machinery)
    mach: Option<String>,
    code: Option<i32>,
    text: String,
    d9: bool,
    batches: Option<usize>,
    /// the reopen's own file-system operations (traced reopen only)
    ops: Vec<FsOp>,
}

/// reopen an image in a fresh process (under strace when `trace` names a file for the log) and
/// read everything back
fn reopen_image(exe: &std::path::Path, img: &str, cfg: &Cfg, nkeys: usize, trace: Option<&str>) -> Reopened {
    let out = match trace {
        None => std::process::Command::new(exe).args(["C02reopen", img, &cfg_arg(cfg), &nkeys.to_string()]).output(),
        Some(t) => std::process::Command::new("strace")
            .args(["-f", "-o", t, "-s", "4000000", "-xx", "-y", "-e", TRACE_SET])
            .arg(exe)
            .args(["C02reopen", img, &cfg_arg(cfg), &nkeys.to_string()])
            .output(),
    };
    let (code, text, err) = match out {
        Ok(o) => (o.status.code(), String::from_utf8_lossy(&o.stdout).to_string(), String::from_utf8_lossy(&o.stderr).to_string()),
        Err(e) => (None, format!("spawn: {}", e), String::new()),
    };
    let batches = err.lines().find_map(|l| l.strip_prefix("BATCHES ")).and_then(|x| x.trim().parse().ok());
    let ops = match trace {
        Some(t) => {
            let txt = std::fs::read_to_string(t).unwrap_or_default();
            let _ = std::fs::remove_file(t);
            let mut ops = fstrace::parse(&txt, img, "/nonexistent-marker");
            normalize_orphan_renames(&mut ops);
            ops
        }
        None => vec![],
    };
    Reopened { mach: None, code, text, d9: err.contains("D9TRIGGER"), batches, ops }
}

/// write the image of `fs` under persistence model `model_b` to `dir`, reopen it, remove it
fn reopen_simfs(exe: &std::path::Path, fs: &SimFs, model_b: bool, dir: &str, cfg: &Cfg, nkeys: usize, trace: Option<&str>) -> Reopened {
    let r = match fs.materialize(dir, model_b) {
        Ok(()) => reopen_image(exe, dir, cfg, nkeys, trace),
        Err(e) => Reopened { mach: Some(format!("materialize: {}", e)), code: None, text: String::new(), d9: false, batches: None, ops: vec![] },
    };
    let _ = std::fs::remove_dir_all(dir);
    r
}

/// `cleanup_orphans` walks a HashSet: the order of its renames into trash/ differs from process to
/// process.  The renames are independent of each other, so every order is an execution; the crash
/// points inside such a run are enumerated in name order (keeps the run deterministic per seed).
fn normalize_orphan_renames(ops: &mut Vec<FsOp>) {
    let is_trash = |o: &FsOp| matches!(o, FsOp::Rename { from, to } if from.starts_with("sst/") && to.starts_with("trash/"));
    let mut i = 0;
    while i < ops.len() {
        if is_trash(&ops[i]) {
            let mut j = i;
            while j < ops.len() && is_trash(&ops[j]) {
                j += 1;
            }
            ops[i..j].sort_by_key(|o| match o {
                FsOp::Rename { from, .. } => from.clone(),
                _ => String::new(),
            });
            i = j;
        } else {
            i += 1;
        }
    }
}

fn rec_str(r: &Reopened) -> String {
    if r.code != Some(0) {
        "fail".to_string()
    } else {
        r.batches.map(|b| b.to_string()).unwrap_or_else(|| "?".to_string())
    }
}

const TRACE_SET: &str = "trace=openat,open,creat,write,pwrite64,fsync,fdatasync,link,linkat,rename,renameat,renameat2,unlink,unlinkat,mkdir,mkdirat,rmdir";

struct Traced {
    ops: Vec<FsOp>,
    report: String,
    /// how many times each injectable system call was issued
    counts: BTreeMap<String, usize>,
}

const INJECTABLE: &[(&str, &str)] = &[("write", "ENOSPC"), ("fdatasync", "EIO"), ("fsync", "EIO"), ("linkat", "EIO"), ("rename", "EIO"), ("unlink", "EIO"), ("unlinkat", "EIO"), ("mkdir", "EIO")];

fn trace_history(work: &str, root: &str, cfg: &Cfg, ops: &[Op]) -> Result<Traced, String> {
    trace_history_inject(work, root, cfg, ops, None)
}

fn trace_history_inject(work: &str, root: &str, cfg: &Cfg, ops: &[Op], inject: Option<(&str, &str, usize)>) -> Result<Traced, String> {
    let opsfile = format!("{}/ops.txt", work);
    std::fs::write(&opsfile, ops.iter().map(|o| o.render()).collect::<Vec<_>>().join(" ")).map_err(|e| e.to_string())?;
    let marker = format!("{}/marker", work);
    let report = format!("{}/report", work);
    let trace = format!("{}/trace", work);
    let _ = std::fs::remove_file(&marker);
    let exe = std::env::current_exe().map_err(|e| e.to_string())?;
    let mut cmd = std::process::Command::new("strace");
    cmd.args(["-f", "-o", &trace, "-s", "4000000", "-xx", "-y", "-e", TRACE_SET]);
    if let Some((call, err, k)) = inject {
        cmd.args(["-e", &format!("inject={}:error={}:when={}", call, err, k)]);
    }
    let st = cmd
        .arg(&exe)
        .args(["C02child", root, &cfg_arg(cfg), &opsfile, &marker, &report])
        .stdout(std::process::Stdio::null())
        .stderr(std::process::Stdio::null())
        .status()
        .map_err(|e| format!("strace: {}", e))?;
    let rep = std::fs::read_to_string(&report).unwrap_or_default();
    if !st.success() && inject.is_none() {
        return Err(format!("traced run exited with {:?}: {}", st.code(), rep.lines().last().unwrap_or("")));
    }
    let text = std::fs::read_to_string(&trace).map_err(|e| e.to_string())?;
    let ops = fstrace::parse(&text, root, &marker);
    let mut counts = BTreeMap::new();
    for (call, _) in INJECTABLE {
        let pat = format!(" {}(", call);
        counts.insert(call.to_string(), text.lines().filter(|l| l.contains(&pat)).count());
    }
    let _ = std::fs::remove_file(&trace);
    Ok(Traced { ops, report: rep, counts })
}

// ---------------------------------------------------------------------------------------------
// multi-writer fault family: N client threads inside `KeyValueStore::put` at the same time, the
// log's fdatasync starts failing (`strace -e inject=fdatasync:error=EIO:when=K+`: strace counts
// per thread, so every thread's own syncs fail from its K-th on; `when=K`: only its K-th).
// The history of the single-stepped streams above is sequential by construction; here the
// batches of several writers are coalesced into one write(2) and one fdatasync and overtake each
// other between the write queue and the fsync queue.  No single-stepping: the memtable is large
// enough never to roll over, so only the log and the manifest are written.
//
// Oracle (no model involved):
//  * at the moment a put is acknowledged (its marker is ISSUED after `put` returned Ok) the bytes of
//    its key and value lie within the prefix of the log that a SUCCESSFULLY returned fdatasync
//    covers — an fdatasync covers the writes that had completed when it was issued, and counts
//    from the moment it returned;
//  * power loss at the end of the run (model b: every file cut back to its last successfully
//    synced content), reopened by the real code in a fresh process: every acknowledged put is
//    there with its value, and nothing is there that no client wrote; the same for the directory
//    as the process left it (model a);
//  * if an fdatasync of the log failed, some put returned an error.

/// child: `C02mw <root> <cfg> <threads> <puts> <marker> <lockstep 0|1>`
pub fn child_mw(rest: &[String]) -> ! {
    use std::os::unix::io::AsRawFd;
    let root = &rest[0];
    let cfg = parse_cfg(&rest[1]);
    let nt: usize = rest[2].parse().unwrap();
    let np: usize = rest[3].parse().unwrap();
    let lockstep = rest[5] == "1";
    let marker = std::fs::OpenOptions::new().create(true).append(true).open(&rest[4]).unwrap();
    let mfd = marker.as_raw_fd();
    let mark = move |s: String| {
        // one write(2) per marker line (O_APPEND: lines of different threads do not mix)
        unsafe { libc::write(mfd, s.as_ptr() as *const libc::c_void, s.len()) };
    };
    let sim = match Sim::open(root, &cfg) {
        Ok(s) => s,
        Err(e) => {
            mark(format!("MARK open-error {}\n", e.chars().take(80).collect::<String>()));
            std::process::exit(3);
        }
    };
    mark("MARK opened\n".to_string());
    let kvs = sim.kvs();
    let barrier = std::sync::Barrier::new(nt);
    let progress = std::sync::atomic::AtomicU64::new(0);
    let finished = std::sync::atomic::AtomicU64::new(0);
    let in_flight: Vec<std::sync::atomic::AtomicI64> = (0..nt).map(|_| std::sync::atomic::AtomicI64::new(-1)).collect();
    use std::sync::atomic::Ordering::SeqCst;
    std::thread::scope(|s| {
        for t in 0..nt {
            let (barrier, mark, progress, finished, in_flight) = (&barrier, &mark, &progress, &finished, &in_flight);
            s.spawn(move || {
                let mut errors = 0;
                for i in 0..np {
                    if lockstep {
                        barrier.wait();
                    }
                    // a client that has been told an error three times gives up (it keeps meeting
                    // the others at the barrier)
                    if errors >= 3 {
                        continue;
                    }
                    let (k, v) = mw_kv(t, i);
                    mark(format!("MARK b {} {}\n", t, i));
                    in_flight[t].store(i as i64, SeqCst);
                    let r = kvs.put(&k, &v);
                    in_flight[t].store(-1, SeqCst);
                    progress.fetch_add(1, SeqCst);
                    match r {
                        Ok(()) => mark(format!("MARK a {} {}\n", t, i)),
                        Err(_) => {
                            errors += 1;
                            mark(format!("MARK e {} {}\n", t, i));
                        }
                    }
                }
                finished.fetch_add(1, SeqCst);
            });
        }
        // watchdog: a put that does not return (a writer stranded behind a failed one) would keep
        // the run alive for ever; name the puts in flight and end the process
        let (mark, progress, finished, in_flight) = (&mark, &progress, &finished, &in_flight);
        s.spawn(move || {
            let mut last = (progress.load(SeqCst), std::time::Instant::now());
            while finished.load(SeqCst) < nt as u64 {
                std::thread::sleep(std::time::Duration::from_millis(50));
                let p = progress.load(SeqCst);
                if p != last.0 {
                    last = (p, std::time::Instant::now());
                } else if last.1.elapsed() > std::time::Duration::from_millis(MW_HANG_MS) {
                    let stuck: Vec<String> = in_flight.iter().enumerate().filter(|(_, x)| x.load(SeqCst) >= 0).map(|(t, x)| format!("{}/{}", t, x.load(SeqCst))).collect();
                    mark(format!("MARK hung {}\n", stuck.join(",")));
                    std::process::exit(0);
                }
            }
        });
    });
    drop(sim);
    std::process::exit(0);
}

/// no put returned for this long: the puts in flight are taken to hang
const MW_HANG_MS: u64 = 5000;

fn mw_kv(t: usize, i: usize) -> (Vec<u8>, Vec<u8>) {
    (format!("mw-key-{}-{:03}", t, i).into_bytes(), format!("mw-value-{}-{:03}-{}", t, i, "x".repeat(5 + (t * 7 + i * 3) % 40)).into_bytes())
}

/// One line per system call, `<unfinished ...>` / `<... resumed>` pairs of `strace -f` merged.
/// `sync_at_entry`: an fsync/fdatasync stands where it was ISSUED (it covers what had completed by
/// then), every other call where it COMPLETED.  Also returns, for every output line, the input
/// line numbers of its entry and its exit.
fn linearize(text: &str, sync_at_entry: bool) -> Vec<(String, usize, usize)> {
    let mut out: Vec<Option<(String, usize, usize)>> = vec![];
    let mut open: std::collections::HashMap<String, (Option<usize>, String, usize)> = Default::default();
    for (ln, line) in text.lines().enumerate() {
        let t = line.trim_start();
        let (pid, rest) = match t.split_once(' ') {
            Some((p, r)) if p.chars().all(|c| c.is_ascii_digit()) => (p.to_string(), r.trim_start()),
            _ => {
                out.push(Some((line.to_string(), ln, ln)));
                continue;
            }
        };
        if let Some(head) = rest.strip_suffix("<unfinished ...>") {
            let name = head.split('(').next().unwrap_or("");
            let slot = if sync_at_entry && (name == "fsync" || name == "fdatasync") {
                out.push(None);
                Some(out.len() - 1)
            } else {
                None
            };
            open.insert(pid, (slot, head.trim_end().to_string(), ln));
        } else if rest.starts_with("<... ") {
            let tail = rest.split_once("resumed>").map(|x| x.1).unwrap_or("");
            if let Some((slot, head, entry)) = open.remove(&pid) {
                // `<... write resumed>)              = 11`: one space round the `=`, as in unsplit lines
                let ret = tail.split_once("= ").map(|x| x.1).unwrap_or("?");
                let merged = (format!("{} {}) = {}", pid, head, ret), entry, ln);
                match slot {
                    Some(s) => out[s] = Some(merged),
                    None => out.push(Some(merged)),
                }
            }
        } else {
            out.push(Some((line.to_string(), ln, ln)));
        }
    }
    out.into_iter().flatten().collect()
}

fn unescape_xx(s: &str) -> Vec<u8> {
    let b = s.as_bytes();
    let mut out = Vec::with_capacity(b.len() / 4);
    let mut i = 0;
    while i < b.len() {
        if b[i] == b'\\' && i + 3 < b.len() && b[i + 1] == b'x' {
            out.push(u8::from_str_radix(std::str::from_utf8(&b[i + 2..i + 4]).unwrap_or("00"), 16).unwrap_or(0));
            i += 4;
        } else {
            out.push(b[i]);
            i += 1;
        }
    }
    out
}

fn find_sub(h: &[u8], n: &[u8]) -> Option<usize> {
    if n.is_empty() || h.len() < n.len() {
        return None;
    }
    (0..=h.len() - n.len()).find(|&i| &h[i..i + n.len()] == n)
}

struct MwCase {
    nt: usize,
    np: usize,
    lockstep: bool,
    /// `K+` (from each thread's K-th fdatasync on) or `K` (only its K-th)
    when: String,
}

fn run_multi_writer(args: &Args, rec: &mut Recorder, exe: &std::path::Path) {
    let n_cases = if args.thorough { 36 } else { 8 };
    let mut rng0 = Rng::for_case(args.seed, 103, 0);
    let mut cfg = Cfg::gen(&mut rng0);
    cfg.memtable_bytes = 1 << 22;
    // fdatasyncs of the main thread while the store opens (the manifest's): the writers are other
    // threads with their own counters, but the injection must not hit the open
    let work0 = scratch_dir("c02mw.base");
    std::fs::create_dir_all(&work0).unwrap();
    let base = trace_mw(&work0, &format!("{}/store", work0), &cfg, &MwCase { nt: 1, np: 0, lockstep: false, when: String::new() }, exe);
    let _ = std::fs::remove_dir_all(&work0);
    let n0 = match &base {
        Ok(t) => t.lines().filter(|l| l.contains(" fdatasync(") || l.contains(" fsync(")).count(),
        Err(e) => {
            rec.case("# multi-writer baseline", "#", Verdict::Fail { class: "machinery".into(), detail: e.clone() }, None);
            return;
        }
    };
    let wanted: Vec<u64> = (0..n_cases).collect();
    let first = rec.n;
    let jobs: Vec<u64> = wanted.iter().copied().filter(|i| match rec.only_case { None => true, Some(k) => k == first + i }).collect();
    let outs = par_map(jobs.clone(), |_, i| mw_case(args.seed, i, n0, &cfg, exe));
    let mut outs: BTreeMap<u64, MwOut> = jobs.into_iter().zip(outs.into_iter()).collect();
    for i in 0..n_cases {
        let Some(o) = outs.remove(&i) else {
            rec.skip();
            continue;
        };
        for (k, n) in &o.counts {
            rec.add(k, *n);
        }
        match o.verdict {
            Some(v) => rec.case(&format!("# {}", o.tag), "#", v, Some(fnv(format!("{} {}", o.tag, i).as_bytes()))),
            // keeps the case numbering fixed
            None => rec.case(&format!("# {} (not reached)", o.tag), "#", Verdict::Ok, None),
        }
    }
}

struct MwOut {
    tag: String,
    /// `None`: the case did not reach its subject (the store did not open)
    verdict: Option<Verdict>,
    counts: Vec<(String, u64)>,
}

fn mw_case(seed: u64, i: u64, n0: usize, cfg: &Cfg, exe: &std::path::Path) -> MwOut {
    let mut counts: Vec<(String, u64)> = vec![];
    let mut rng = Rng::for_case(seed, 103, 1 + i);
    let nt = 2 + rng.below(3) as usize;
    let k = n0 as u64 + 1 + rng.below(5);
    let case = MwCase { nt, np: (k as usize + 4) * nt.min(3) + rng.below(6) as usize, lockstep: i % 4 != 3, when: if i % 3 == 2 { k.to_string() } else { format!("{}+", k) } };
    let tag = format!("multi-writer fault: {} threads x {} puts{} fdatasync=EIO when={} (per thread)", case.nt, case.np, if case.lockstep { " lock-step" } else { "" }, case.when);
    let work = scratch_dir(&format!("c02mw.{}", i));
    std::fs::create_dir_all(&work).unwrap();
    let root = format!("{}/store", work);
    let text = match trace_mw(&work, &root, &cfg, &case, exe) {
        Ok(t) => t,
        Err(e) => {
            let _ = std::fs::remove_dir_all(&work);
            return MwOut { tag, verdict: Some(Verdict::Fail { class: "machinery".into(), detail: e }), counts };
        }
    };
    let marker = format!("{}/marker", work);
    let mut bad: Vec<String> = vec![];
    // ---- pass 1: durability at the moment of each acknowledgement (entry/exit order of the raw log)
    #[derive(Default)]
    struct LogSt {
        data: Vec<u8>,
        durable: usize,
    }
    let mut logs: BTreeMap<String, LogSt> = BTreeMap::new();
    // events in raw-line order: (line, kind) with kind: write completed / sync issued / sync returned / marker issued
    enum Ev {
        Wrote(String, Vec<u8>),
        SyncIssue(String, String),
        SyncRet(String, bool),
        Mark(String),
    }
    let mut evs: Vec<(usize, u8, Ev)> = vec![];
    for (l, entry, exit) in linearize(&text, false) {
        let t = l.trim_start();
        let Some((pid, rest)) = t.split_once(' ') else { continue };
        let rest = rest.trim_start();
        let Some(p) = rest.find('(') else { continue };
        let name = &rest[..p];
        let Some(eq) = rest.rfind(") = ") else { continue };
        let ret = rest[eq + 4..].trim();
        let path = rest[p + 1..].find('<').and_then(|a| rest[p + 1..].find('>').map(|b| String::from_utf8_lossy(&unescape_xx(&rest[p + 1 + a + 1..p + 1 + b])).to_string())).unwrap_or_default();
        match name {
            "write" => {
                let q1 = rest.find('"');
                let q2 = rest[..eq].rfind('"');
                let (Some(q1), Some(q2)) = (q1, q2) else { continue };
                if q2 <= q1 || ret.starts_with('-') {
                    continue;
                }
                let mut data = unescape_xx(&rest[q1 + 1..q2]);
                let n: usize = ret.split_whitespace().next().and_then(|x| x.parse().ok()).unwrap_or(data.len());
                data.truncate(n);
                if path == marker {
                    for m in String::from_utf8_lossy(&data).lines() {
                        if let Some(m) = m.strip_prefix("MARK ") {
                            // the marker was ISSUED after the put returned
                            evs.push((entry, 0, Ev::Mark(m.to_string())));
                        }
                    }
                } else if let Some(r) = path.strip_prefix(&format!("{}/", root)) {
                    if r.starts_with("log.") {
                        evs.push((exit, 1, Ev::Wrote(r.to_string(), data)));
                    }
                }
            }
            "fdatasync" | "fsync" => {
                if let Some(r) = path.strip_prefix(&format!("{}/", root)) {
                    if r.starts_with("log.") {
                        let ok = !ret.starts_with('-');
                        // an injected failure is not executed at all; a real one may or may not
                        // have reached the disk: neither counts
                        evs.push((entry, 2, Ev::SyncIssue(r.to_string(), pid.to_string())));
                        evs.push((exit, 3, Ev::SyncRet(pid.to_string(), ok)));
                    }
                }
            }
            _ => {}
        }
    }
    // raw-line order; on one line (a call that was not split) issue before return, and a
    // completed write before a sync issued on the same line cannot happen (one call per line)
    evs.sort_by_key(|e| (e.0, e.1));
    let mut pending: BTreeMap<String, (String, usize)> = BTreeMap::new();
    let mut acked: Vec<(usize, usize)> = vec![];
    let mut begun: Vec<(usize, usize)> = vec![];
    let mut errored = 0u64;
    let (mut syncs_ok, mut syncs_failed) = (0u64, 0u64);
    let mut opened = false;
    let mut hung: Option<String> = None;
    for (_, _, e) in &evs {
        match e {
            Ev::Wrote(p, d) => logs.entry(p.clone()).or_default().data.extend_from_slice(d),
            Ev::SyncIssue(p, pid) => {
                let len = logs.entry(p.clone()).or_default().data.len();
                pending.insert(pid.clone(), (p.clone(), len));
            }
            Ev::SyncRet(pid, ok) => {
                if let Some((p, len)) = pending.remove(pid) {
                    if *ok {
                        syncs_ok += 1;
                        let st = logs.entry(p).or_default();
                        st.durable = st.durable.max(len);
                    } else {
                        syncs_failed += 1;
                    }
                }
            }
            Ev::Mark(m) => {
                let f: Vec<&str> = m.split(' ').collect();
                match f[0] {
                    "opened" => opened = true,
                    "hung" => hung = Some(f.get(1).unwrap_or(&"").to_string()),
                    "b" if f.len() == 3 => begun.push((f[1].parse().unwrap_or(0), f[2].parse().unwrap_or(0))),
                    "e" => errored += 1,
                    "a" if f.len() == 3 => {
                        let (t, i): (usize, usize) = (f[1].parse().unwrap_or(0), f[2].parse().unwrap_or(0));
                        acked.push((t, i));
                        let (k, v) = mw_kv(t, i);
                        // where the put's bytes end in its log, and how far that log is durable
                        let place = logs.iter().find_map(|(p, st)| find_sub(&st.data, &k).map(|o| (p.clone(), o, st.durable, find_sub(&st.data[o..], &v).map(|x| o + x + v.len()))));
                        match place {
                            Some((p, _, durable, Some(end))) if end <= durable => {
                                let _ = p;
                            }
                            Some((p, _, durable, Some(end))) => bad.push(format!("put {}/{} was acknowledged when {} was durable up to byte {} only (last successfully returned fdatasync); its bytes end at {}", t, i, p, durable, end)),
                            _ => bad.push(format!("put {}/{} was acknowledged and its bytes are in no log", t, i)),
                        }
                    }
                    _ => {}
                }
            }
        }
    }
    if !opened {
        counts.push(("multi_writer.not_reached(open failed)".into(), 1));
        let _ = std::fs::remove_dir_all(&work);
        return MwOut { tag, verdict: None, counts };
    }
    if syncs_failed > 0 && errored == 0 {
        bad.push(format!("{} fdatasync(s) of the log failed and no put returned an error", syncs_failed));
    }
    // ---- pass 2: the images at the end of the run, reopened by the real code
    let lin: String = linearize(&text, true).into_iter().map(|x| x.0).collect::<Vec<_>>().join("\n");
    let ops = fstrace::parse(&lin, &root, &marker);
    let mut fs = SimFs::default();
    for o in &ops {
        fs.apply(o);
    }
    let rb = reopen_simfs(exe, &fs, true, &format!("{}/img", work), &cfg, 0, None);
    let ra = reopen_image(exe, &root, &cfg, 0, None);
    for (r, what) in [(&ra, "after the process exit"), (&rb, "after a power loss at the end of the run")] {
        if let Some(m) = &r.mach {
            bad.push(format!("machinery: {}", m));
            continue;
        }
        if r.code != Some(0) {
            bad.push(format!("reopen {} failed: exit {:?} {}", what, r.code, r.text.lines().last().unwrap_or("").chars().take(160).collect::<String>()));
            continue;
        }
        let mut have: BTreeMap<Vec<u8>, Vec<u8>> = BTreeMap::new();
        for l in r.text.lines() {
            if let Some(s) = l.strip_prefix("scan ") {
                for kv in s.split(',').filter(|x| !x.is_empty()) {
                    if let Some((k, v)) = kv.split_once('=') {
                        have.insert(unhex(k).unwrap_or_default(), unhex(v).unwrap_or_default());
                    }
                }
            }
        }
        let mut missing = vec![];
        for (t, i) in &acked {
            let (k, v) = mw_kv(*t, *i);
            if have.get(&k) != Some(&v) {
                missing.push(format!("{}/{}", t, i));
            }
        }
        if !missing.is_empty() {
            bad.push(format!("reopened {}: acknowledged puts are missing: {}", what, missing.join(" ")));
        }
        let invented = have.iter().filter(|(k, v)| !begun.iter().any(|(t, i)| { let (bk, bv) = mw_kv(*t, *i); &bk == *k && &bv == *v })).count();
        if invented > 0 {
            bad.push(format!("reopened {}: {} entries that no client wrote", what, invented));
        }
    }
    counts.push(("multi_writer.runs".to_string(), 1));
    if hung.is_some() {
        counts.push(("multi_writer.runs_ended_by_a_put_that_did_not_return".to_string(), 1));
    }
    counts.push((format!("multi_writer.threads_{}", case.nt), 1));
    counts.push((if syncs_failed > 0 { "multi_writer.runs_with_a_failed_fdatasync" } else { "multi_writer.runs_without_a_failed_fdatasync(K not reached)" }.to_string(), 1));
    counts.push(("multi_writer.fdatasyncs_ok".to_string(), syncs_ok));
    counts.push(("multi_writer.fdatasyncs_failed".to_string(), syncs_failed));
    counts.push(("multi_writer.puts_acknowledged".to_string(), acked.len() as u64));
    counts.push(("multi_writer.puts_returned_err".to_string(), errored));
    counts.push(("multi_writer.puts_begun".to_string(), begun.len() as u64));
    bad.truncate(4);
    // a put that never returns: the defect of `KeyValueStore::write` (an early error return drops
    // its place in the store's wait list without waking the writer behind it).  Decidable on the
    // run: some put returned an error while a put that began later was in progress
    let v = if !bad.is_empty() {
        Verdict::Fail { class: "io-error-acknowledged-or-state-damaged".into(), detail: format!("{} :: {}", tag, bad.join("; ")) }
    } else if let Some(h) = &hung {
        Verdict::Fail { class: "write-error-strands-later-writer".into(), detail: format!("{} :: after {} put(s) returned an error, the put(s) {} did not return within {} ms (the run was ended there)", tag, errored, h, MW_HANG_MS) }
    } else {
        Verdict::Ok
    };
    let _ = std::fs::remove_dir_all(&work);
    MwOut { tag, verdict: Some(v), counts }
}

/// run the multi-writer child under strace; the raw trace text
fn trace_mw(work: &str, root: &str, cfg: &Cfg, case: &MwCase, exe: &std::path::Path) -> Result<String, String> {
    let marker = format!("{}/marker", work);
    let trace = format!("{}/trace", work);
    let _ = std::fs::remove_file(&marker);
    let mut cmd = std::process::Command::new("strace");
    cmd.args(["-f", "-o", &trace, "-s", "4000000", "-xx", "-y", "-e", TRACE_SET]);
    if !case.when.is_empty() {
        cmd.args(["-e", &format!("inject=fdatasync:error=EIO:when={}", case.when)]);
    }
    let st = cmd
        .arg(exe)
        .args(["C02mw", root, &cfg_arg(cfg), &case.nt.to_string(), &case.np.to_string(), &marker, if case.lockstep { "1" } else { "0" }])
        .stdout(std::process::Stdio::null())
        .stderr(std::process::Stdio::null())
        .status()
        .map_err(|e| format!("strace: {}", e))?;
    let _ = st;
    let text = std::fs::read_to_string(&trace).map_err(|e| e.to_string())?;
    let _ = std::fs::remove_file(&trace);
    Ok(text)
}

pub fn run(args: &Args) {
    let mut rec = Recorder::new(&args.out, args.only_case);
    let have_strace = std::process::Command::new("strace").arg("-V").output().map(|o| o.status.success()).unwrap_or(false);
    if !have_strace {
        rec.case("# strace unavailable", "#", Verdict::Fail { class: "machinery".into(), detail: "strace not found".into() }, None);
        rec.finish("strace unavailable", &[]);
        return;
    }
    let (nh, len, max_points) = if args.thorough { (40, 28, 100000) } else { (8, 16, 400) };
    let exe = std::env::current_exe().unwrap();
    // after the seeded histories: directed ones that make the selector MERGE files into a level
    // above the last (random short histories almost only see trivial moves, and a merge into the
    // last level is a GC, which the batch-granular model does not cover), so that the system-call
    // order of a merge compaction is compared with `StoreCrash.block (.compact ..)` on every run
    // ... and one whose write-ahead log grows past the 1 MiB block boundary of the log format, so
    // that an append straddles the boundary (FIRST frame, padding, SECOND frame) and the crash points
    // around it are explored: values have to be large (the limit is 32 KiB) and the memtable must
    // not roll over
    // ... and one that reopens (and crashes around the reopen of) a store whose level 0 holds more
    // mutually overlapping files than the tree has levels, so that `recover` has to shift its chain
    let directed = 5u64;
    // development aid: BLUE_C02_ONLY=mw runs the multi-writer fault family alone (case numbers differ)
    let only_mw = std::env::var("BLUE_C02_ONLY").map(|v| v == "mw").unwrap_or(false);
    for h in 0..nh + directed {
        if only_mw {
            break;
        }
        let mut rng = Rng::for_case(args.seed, 102, h);
        let mut cfg = Cfg::gen(&mut rng);
        cfg.memtable_bytes = *rng.pick(&[200, 1 << 20]);
        let nkeys = if h % 2 == 0 { 4 } else { 7 };
        let single = h % 4 != 3;
        let mut ops = gen_c02_history(&mut rng, len, nkeys, single, h % 3 == 2);
        if h >= nh && h - nh < 3 {
            cfg.memtable_bytes = 1 << 20;
            ops = directed_merge_history((h - nh) as usize, &mut rng);
        } else if h >= nh && h - nh == 4 {
            cfg.memtable_bytes = 1 << 20;
            cfg.l0_mandatory_files = 64;
            cfg.l0_stall_files = 64;
            ops = vec![];
            let mut counter = 0u64;
            for i in 0..19usize {
                // every file spans the same two keys: 19 overlapping files, timestamps disjoint
                ops.push(Op::Put(ALPHABET[1].to_vec(), gen_val(&mut rng, &mut counter)));
                if i == 0 {
                    // the newest version of this key lives in the OLDEST file
                    ops.push(Op::Put(ALPHABET[5].to_vec(), gen_val(&mut rng, &mut counter)));
                }
                ops.push(Op::Put(ALPHABET[11].to_vec(), gen_val(&mut rng, &mut counter)));
                ops.push(Op::Flush);
            }
            ops.push(Op::Reopen);
            ops.push(Op::Put(ALPHABET[9].to_vec(), gen_val(&mut rng, &mut counter)));
            ops.push(Op::Reopen);
        } else if h >= nh {
            cfg.memtable_bytes = 1 << 26;
            ops = vec![];
            let mut counter = 0u64;
            for i in 0..46usize {
                let mut v = gen_val(&mut rng, &mut counter);
                v.resize(if i % 5 == 4 { 200 } else { 31000 + (i * 37) % 900 }, b'.');
                ops.push(Op::Put(ALPHABET[1 + i % 11].to_vec(), v));
            }
            ops.push(Op::Reopen);
            ops.push(Op::Put(ALPHABET[1].to_vec(), gen_val(&mut rng, &mut counter)));
        }
        let work = scratch_dir(&format!("c02w.{}", h));
        std::fs::create_dir_all(&work).unwrap();
        let root = format!("{}/store", work);
        let hist = ops.iter().map(|o| o.render()).collect::<Vec<_>>().join(" ");
        rec.aux(&format!("history {} cfg {} ops {}", h, cfg.render(), hist));
        let traced = match trace_history(&work, &root, &cfg, &ops) {
            Ok(t) => t,
            Err(e) => {
                rec.case(&format!("# history {} traced run", h), "#", Verdict::Fail { class: "fault-free-op-error".into(), detail: format!("h{} {} :: {}", h, e, hist) }, None);
                let _ = std::fs::remove_dir_all(&work);
                continue;
            }
        };
        if h >= nh && h - nh < 3 {
            for l in traced.report.lines().filter(|l| l.starts_with("op ")) {
                rec.aux(&format!("directed {} {}", h - nh, l));
            }
        }
        // ---- correspondence: canonical trace vs the model's op list
        // acks of non-write ops are not model events: keep acks of writes only
        let write_idx: Vec<usize> = ops.iter().enumerate().filter(|(_, o)| matches!(o, Op::Put(..) | Op::Del(..) | Op::Batch(..))).map(|(i, _)| i).collect();
        let writes_before = |n: usize| write_idx.iter().filter(|&&i| i < n).count();
        let model: Option<String> = model_clients(&traced.report).map(|x| x.0);
        // the model's operation list with, per operation, the trace operation it stands for
        let mtoks: Vec<(String, usize)> = model_tokens(canonical_idx(&traced.ops, true), &write_idx);
        let opened_raw = traced.ops.iter().position(|o| matches!(o, FsOp::Mark { text } if text == "opened")).unwrap_or(usize::MAX);
        // a crash before / a failure of trace operation `raw` = before / of model operation number …
        let model_index = |raw: usize| mtoks.iter().filter(|t| t.1 < raw).count();
        if let Some(clients) = &model {
            let req = format!("crash ops {}", clients);
            let obs: Vec<String> = mtoks.iter().map(|t| t.0.clone()).collect();
            rec.count("trace_vs_model");
            rec.corr(&req, &obs.join(" "), Some(fnv(req.as_bytes())));
        } else {
            rec.count("trace_not_modelled(multi-entry batch, gc, or compaction inside a flush)");
        }
        // ---- every compaction that writes files (merges and garbage collections, single- and
        // multi-entry histories alike): the calls between the operation's begin and end markers
        // against `StoreFault.compactOps` for the same input and output files
        for l in traced.report.lines() {
            let p: Vec<&str> = l.split_whitespace().collect();
            if p.len() < 3 || p[0] != "op" || p[2] != "compact" {
                continue;
            }
            let (Some(k), Some(ins), Some(outs)) = (p[1].parse::<usize>().ok(), p.iter().find_map(|x| x.strip_prefix("in=")), p.iter().find_map(|x| x.strip_prefix("out="))) else { continue };
            let is_gc = p.iter().any(|x| *x == "gc=1");
            let b = traced.ops.iter().position(|o| matches!(o, FsOp::Mark { text } if *text == format!("b {}", k)));
            let e = traced.ops.iter().position(|o| matches!(o, FsOp::Mark { text } if *text == format!("a {}", k)));
            let (Some(b), Some(e)) = (b, e) else { continue };
            let nin: Option<usize> = p.iter().find_map(|x| x.strip_prefix("nin=")).and_then(|x| x.parse().ok());
            if nin != Some(ins.split(';').filter(|x| !x.is_empty()).count()) || ins.contains("999999") || outs.contains("999999") {
                rec.count("compaction_blocks.not_compared(an output has the name of an input)");
                continue;
            }
            let toks: Vec<String> = canonical_idx(&traced.ops[b..e], false).into_iter().map(|t| t.0).filter(|t| !t.starts_with("ack:")).collect();
            let dash = |x: &str| if x.is_empty() { "-".to_string() } else { x.to_string() };
            let req = format!("crash gcblock {} {}", dash(ins), dash(outs));
            rec.count(if is_gc { "compaction_blocks.garbage_collecting" } else { "compaction_blocks.merging" });
            rec.corr(&req, &toks.join(" "), Some(fnv(format!("{} {}", h, req).as_bytes())));
        }
        // ---- crash points
        let mutating: Vec<usize> = traced.ops.iter().enumerate().filter(|(_, o)| o.mutating()).map(|(i, _)| i).collect();
        let mut points: Vec<usize> = (0..=mutating.len()).collect();
        if points.len() > max_points {
            // keep every point around syncs, links, renames, unlinks; sample the rest
            let mut keep = vec![];
            for (pi, &p) in points.iter().enumerate() {
                let near = (pi.saturating_sub(1)..=(pi + 1).min(mutating.len().saturating_sub(1))).any(|q| {
                    mutating.get(q).map(|&i| !matches!(traced.ops[i], FsOp::Write { .. })).unwrap_or(false)
                });
                if near || rng.chance(max_points as u64, points.len() as u64) {
                    keep.push(p);
                }
            }
            points = keep;
        }
        // crash images whose recovery is itself traced, compared with the model and crashed again:
        // a seeded sample of the points after the initial open
        let n_second = if args.thorough { 30 } else { 8 };
        let mut second: std::collections::BTreeSet<(usize, bool)> = Default::default();
        {
            let mut cands: Vec<(usize, bool)> = points.iter().filter(|&&p| (if p < mutating.len() { mutating[p] } else { traced.ops.len() }) > opened_raw).flat_map(|&p| [(p, false), (p, true)]).collect();
            let mut r2 = Rng::for_case(args.seed, 103, h);
            r2.shuffle(&mut cands);
            for c in cands.into_iter().take(n_second) {
                second.insert(c);
            }
        }
        let mut fs = SimFs::default();
        let mut applied = 0usize; // index into traced.ops
        let mut seen_images: std::collections::BTreeSet<(bool, u64, usize, Option<usize>)> = Default::default();
        let mut seen_second: std::collections::BTreeSet<(u64, usize, Option<usize>)> = Default::default();
        let d9class = "reopen-with-key-and-timestamp-overlapping-files".to_string();
        struct Job1 {
            p: usize,
            model_b: bool,
            upto: usize,
            done: usize,
            inflight: Option<usize>,
            next_call: String,
            hsh: u64,
            again: bool,
            fs: SimFs,
        }
        let mut jobs1: Vec<Job1> = vec![];
        for &p in &points {
            // state before the p-th mutating call = all ops before its index
            let upto = if p < mutating.len() { mutating[p] } else { traced.ops.len() };
            while applied < upto {
                fs.apply(&traced.ops[applied]);
                applied += 1;
            }
            // acknowledged / in-flight client operations at this point
            let mut acked: Vec<usize> = vec![];
            let mut begun: Option<usize> = None;
            for o in &traced.ops[..upto] {
                if let FsOp::Mark { text } = o {
                    if let Some(k) = text.strip_prefix("b ") {
                        begun = k.parse().ok();
                    } else if let Some(k) = text.strip_prefix("a ") {
                        if let Ok(k) = k.parse::<usize>() {
                            acked.push(k);
                            begun = None;
                        }
                    }
                }
            }
            let done = acked.len(); // ops 0..done returned
            let inflight = begun.filter(|&k| k == done && k < ops.len());
            let next_call = if p < mutating.len() { format!("{:?}", traced.ops[mutating[p]]).chars().take(90).collect::<String>() } else { "end".to_string() };
            for model_b in [false, true] {
                // image fingerprint: skip images already reopened with the same expectations
                let hsh = fs.fingerprint(model_b);
                let again = second.contains(&(p, model_b));
                if !seen_images.insert((model_b, hsh, done, inflight)) && !again {
                    rec.count("crash_points_with_image_already_explored");
                    continue;
                }
                jobs1.push(Job1 { p, model_b, upto, done, inflight, next_call: next_call.clone(), hsh, again, fs: fs.clone() });
            }
        }
        // every image is written and reopened in its own directory, a few at a time
        let res1: Vec<Reopened> = {
            let refs: Vec<&Job1> = jobs1.iter().collect();
            par_map(refs, |j, job| {
                let rt = format!("{}/rt.{}", work, j);
                reopen_simfs(&exe, &job.fs, job.model_b, &format!("{}/img.{}", work, j), &cfg, nkeys, if job.again { Some(&rt) } else { None })
            })
        };
        for (job, r1) in jobs1.iter().zip(res1.iter()) {
            let (p, model_b, upto, done, inflight) = (job.p, job.model_b, job.upto, job.done, job.inflight);
            rec.aux(&format!("reopen h{} p{} model {} acked {} exit {:?} batches {:?} last `{}`", h, p, if model_b { "b" } else { "a" }, done, r1.code, r1.batches, r1.text.lines().last().unwrap_or("").chars().take(100).collect::<String>()));
            let want_a = expected_state(&ops, done, nkeys);
            let want_b = inflight.map(|k| expected_state(&ops, k + 1, nkeys));
            // the oracle on one reopened image
            let judge = |r: &Reopened, tag: &str| -> Verdict {
                if let Some(m) = &r.mach {
                    Verdict::Fail { class: "machinery".into(), detail: m.clone() }
                } else if r.code != Some(0) {
                    Verdict::Fail { class: if r.d9 { d9class.clone() } else { "reopen-fails-after-crash".into() }, detail: format!("{} -> exit {:?} {}", tag, r.code, r.text.lines().last().unwrap_or("").chars().take(300).collect::<String>()) }
                } else if r.text == want_a || Some(&r.text) == want_b.as_ref() {
                    Verdict::Ok
                } else {
                    let diff = r.text.lines().zip(want_a.lines()).find(|(a, b)| a != b).map(|(a, b)| format!("got `{}` want `{}`", a.chars().take(120).collect::<String>(), b.chars().take(120).collect::<String>())).unwrap_or_default();
                    Verdict::Fail { class: if r.d9 { d9class.clone() } else { "acked-write-lost-or-partial-or-invented".into() }, detail: format!("{} {}", tag, diff) }
                }
            };
            let tag = format!("h{} crash-before-call {} ({}) model {} acked {} inflight {:?}", h, p, job.next_call, if model_b { "b" } else { "a" }, done, inflight);
            let verdict = judge(r1, &tag);
            rec.count(if model_b { "images.model_b" } else { "images.model_a" });
            if inflight.is_some() {
                rec.count("images.with_operation_in_flight");
            }
            if Some(&r1.text) == want_b.as_ref() && want_b.as_ref() != Some(&want_a) {
                rec.count("images.inflight_operation_survived");
            }
            let fp = fnv(format!("{}:{}:{}:{}", h, p, model_b, job.hsh).as_bytes());
            if !job.again {
                rec.case(&format!("# {}", tag), "#", verdict, Some(fp));
                continue;
            }
            // ---- the recovery itself: its operation list against the model's, and a second crash inside it
            let mb = if model_b { "b" } else { "a" };
            let n_model = model_index(upto);
            let rcanon = canonical_idx(&r1.ops, false);
            let rtoks: Vec<String> = rcanon.iter().map(|t| t.0.clone()).collect();
            match &model {
                Some(clients) => {
                    rec.count("recovery_vs_model");
                    rec.case(&format!("crash recover {} {} {}", mb, n_model, clients), &format!("{} rec={}", join_toks(&rtoks), rec_str(r1)), verdict, Some(fp));
                }
                None => rec.case(&format!("# {} (recovery traced)", tag), "#", verdict, Some(fp)),
            }
            rec.count("recoveries_traced");
            struct Job2 {
                q: usize,
                model_b2: bool,
                hsh2: u64,
                next2: String,
                m_model: usize,
                fs2: SimFs,
            }
            let mut jobs2: Vec<Job2> = vec![];
            let mut fs2 = job.fs.settled(model_b);
            let mut2: Vec<usize> = r1.ops.iter().enumerate().filter(|(_, o)| o.mutating()).map(|(i, _)| i).collect();
            let mut applied2 = 0usize;
            for q in 0..=mut2.len() {
                let upto2 = if q < mut2.len() { mut2[q] } else { r1.ops.len() };
                while applied2 < upto2 {
                    fs2.apply(&r1.ops[applied2]);
                    applied2 += 1;
                }
                let next2 = if q < mut2.len() { format!("{:?}", r1.ops[mut2[q]]).chars().take(70).collect::<String>() } else { "end".to_string() };
                let m_model = rcanon.iter().filter(|t| t.1 < upto2).count();
                for model_b2 in [false, true] {
                    let hsh2 = fs2.fingerprint(model_b2);
                    if !seen_second.insert((hsh2, done, inflight)) {
                        rec.count("second_crash_points_with_image_already_explored");
                        continue;
                    }
                    jobs2.push(Job2 { q, model_b2, hsh2, next2: next2.clone(), m_model, fs2: fs2.clone() });
                }
            }
            let res2: Vec<Reopened> = {
                let refs: Vec<&Job2> = jobs2.iter().collect();
                let traced2 = model.is_some();
                par_map(refs, |j, jb| {
                    let rt = format!("{}/rt2.{}", work, j);
                    reopen_simfs(&exe, &jb.fs2, jb.model_b2, &format!("{}/img2.{}", work, j), &cfg, nkeys, if traced2 { Some(&rt) } else { None })
                })
            };
            for (jb, r2) in jobs2.iter().zip(res2.iter()) {
                let mb2 = if jb.model_b2 { "b" } else { "a" };
                let tag2 = format!("{} ; recovery crashed before its call {} ({}) model {}", tag, jb.q, jb.next2, mb2);
                let v2 = judge(r2, &tag2);
                rec.count("images.second_crash_during_recovery");
                let fp2 = fnv(format!("{}:{}:{}:{}:{}", h, p, model_b, jb.q, jb.hsh2).as_bytes());
                match &model {
                    Some(clients) => {
                        rec.count("second_recovery_vs_model");
                        let toks2: Vec<String> = canonical_idx(&r2.ops, false).into_iter().map(|t| t.0).collect();
                        rec.case(&format!("crash recover2 {} {} {} {} {}", mb, n_model, mb2, jb.m_model, clients), &format!("{} rec={}", join_toks(&toks2), rec_str(r2)), v2, Some(fp2));
                    }
                    None => rec.case(&format!("# {}", tag2), "#", v2, Some(fp2)),
                }
            }
        }
        drop(jobs1);
        drop(res1);
        // ---- single injected faults (EIO / ENOSPC) at one of the history's system calls
        let n_faults = if args.thorough { 60 } else { 10 };
        let mut choices: Vec<(&str, &str, usize)> = vec![];
        for (call, err) in INJECTABLE {
            for k in 1..=*traced.counts.get(*call).unwrap_or(&0) {
                choices.push((call, err, k));
            }
        }
        rng.shuffle(&mut choices);
        let chosen: Vec<(&str, &str, usize)> = choices.into_iter().take(n_faults).collect();
        struct FaultRun {
            t: Result<Traced, String>,
            ra: Option<Reopened>,
            rb: Option<Reopened>,
        }
        // every fault run has its own directory: the traced run with the injected failure, the
        // reopen of what it left, and the reopen of the model (b) image of its own trace
        let fres: Vec<FaultRun> = par_map(chosen.clone(), |j, (call, err, k)| {
            let fw = format!("{}/f.{}", work, j);
            let _ = std::fs::create_dir_all(&fw);
            let froot = format!("{}/fstore", fw);
            let t = trace_history_inject(&fw, &froot, &cfg, &ops, Some((call, err, k)));
            let (ra, rb) = match &t {
                Ok(t) if t.ops.iter().any(|o| matches!(o, FsOp::Fault { .. })) => {
                    let ra = reopen_image(&exe, &froot, &cfg, nkeys, None);
                    let mut ffs = SimFs::default();
                    for o in &t.ops {
                        ffs.apply(o);
                    }
                    let rb = reopen_simfs(&exe, &ffs, true, &format!("{}/img", fw), &cfg, nkeys, None);
                    (Some(ra), Some(rb))
                }
                _ => (None, None),
            };
            let _ = std::fs::remove_dir_all(&fw);
            FaultRun { t, ra, rb }
        });
        for ((call, err, k), fr) in chosen.into_iter().zip(fres.into_iter()) {
            let _ = call;
            let t = match fr.t {
                Ok(t) => t,
                Err(e) => {
                    rec.case("# fault run", "#", Verdict::Fail { class: "machinery".into(), detail: e }, None);
                    continue;
                }
            };
            // which client operation was in progress when the fault hit, and what each op returned
            let mut begun: Option<usize> = None;
            let mut hit: Option<(Option<usize>, String, String, usize)> = None;
            let mut acked: Vec<usize> = vec![];
            let mut errored: Vec<usize> = vec![];
            for (ri, o) in t.ops.iter().enumerate() {
                match o {
                    FsOp::Mark { text } => {
                        if let Some(x) = text.strip_prefix("b ") {
                            begun = x.parse().ok();
                        } else if let Some(x) = text.strip_prefix("a ") {
                            if let Ok(x) = x.parse::<usize>() {
                                acked.push(x);
                            }
                            begun = None;
                        } else if let Some(x) = text.strip_prefix("e ") {
                            if let Ok(x) = x.parse::<usize>() {
                                errored.push(x);
                            }
                            begun = None;
                        }
                    }
                    FsOp::Fault { call, path } => {
                        if hit.is_none() {
                            hit = Some((begun, call.clone(), path.clone(), ri));
                        }
                    }
                    _ => {}
                }
            }
            let Some((during, fcall, fpath, fault_ri)) = hit else {
                rec.count("faults.not_reached(call issued outside the store root or after the run)");
                continue;
            };
            let crashed = t.report.lines().any(|l| l.starts_with("open-error")) || (during.is_none() && acked.is_empty() && errored.is_empty());
            let tag = format!("h{} fault {}={} #{} on {} during op {:?}", h, fcall, err, k, fpath, during);
            let mut bad = vec![];
            // (1) a fault on the log's write or sync during a client write must not be acknowledged
            let on_log = fpath.starts_with("log.");
            if let Some(j) = during {
                let is_write = matches!(ops.get(j), Some(Op::Put(..)) | Some(Op::Del(..)) | Some(Op::Batch(..)));
                if is_write && on_log && (fcall == "write" || fcall == "fdatasync" || fcall == "fsync") && acked.contains(&j) {
                    bad.push(format!("operation {} ({}) returned success although {} on its log failed with {}", j, ops[j].render(), fcall, err));
                }
            }
            // (2) reopen without faults: every acknowledged write present, the failed one all or nothing —
            // after the process exit (the directory as it is) and after a power loss on top of it
            // (model b image of the fault run's own trace)
            // the acknowledged operations are a prefix 0..n (the child stops at the first error)
            let n = acked.len();
            let want_a = expected_state(&ops, n, nkeys);
            let want_b = if n < ops.len() { Some(expected_state(&ops, n + 1, nkeys)) } else { None };
            let (Some(ra), rb) = (fr.ra, fr.rb) else { continue };
            let rb = rb.filter(|r| r.mach.is_none());
            let mut d9 = ra.d9;
            for (r, what) in [(Some(&ra), "after the fault"), (rb.as_ref(), "after the fault and a power loss")] {
                let Some(r) = r else { continue };
                d9 |= r.d9;
                if r.code != Some(0) {
                    bad.push(format!("reopen {} failed: exit {:?} {}", what, r.code, r.text.lines().last().unwrap_or("").chars().take(200).collect::<String>()));
                } else if r.text != want_a && Some(&r.text) != want_b.as_ref() {
                    bad.push(format!("reopened {}, the contents are neither the acknowledged operations nor those plus the failed one", what));
                }
            }
            rec.count(&format!("faults.{}.{}", fcall, err));
            let is_surfaced = !errored.is_empty() || crashed;
            if is_surfaced {
                rec.count("faults.surfaced_as_error");
            } else {
                rec.count("faults.absorbed_without_error(e.g. a failed unlink of a temporary)");
            }
            let class = if d9 { d9class.clone() } else { "io-error-acknowledged-or-state-damaged".to_string() };
            let v = if bad.is_empty() { Verdict::Ok } else { Verdict::Fail { class, detail: format!("{} {}", tag, bad.join("; ")) } };
            // ---- the same failure in the model: which operation of the model's list failed
            // (the calls before the failed one are those of the fault-free run: the run is deterministic)
            let pre_mut: Vec<&FsOp> = t.ops[..fault_ri].iter().filter(|o| o.mutating()).collect();
            let m = pre_mut.len();
            let same_prefix = m <= mutating.len() && pre_mut.iter().zip(mutating.iter()).all(|(a, &i)| format!("{:?}", a) == format!("{:?}", traced.ops[i]));
            let failed_raw = mutating.get(m).copied();
            let kind_ok = failed_raw
                .map(|r| match (&traced.ops[r], fcall.as_str()) {
                    (FsOp::Write { path, .. }, "write") => *path == fpath,
                    (FsOp::Sync { path }, "fdatasync") | (FsOp::Sync { path }, "fsync") => *path == fpath,
                    (FsOp::Link { .. }, "linkat") | (FsOp::Rename { .. }, "rename") | (FsOp::Unlink { .. }, "unlink") | (FsOp::Unlink { .. }, "unlinkat") | (FsOp::Rmdir { .. }, "unlinkat") | (FsOp::Mkdir { .. }, "mkdir") => true,
                    _ => false,
                })
                .unwrap_or(false);
            let in_verify = during.map(|j| matches!(ops.get(j), Some(Op::Verify))).unwrap_or(false);
            let fp = Some(fnv(tag.as_bytes()));
            let usable = model.is_some() && same_prefix && kind_ok && !in_verify && failed_raw.map(|r| r > opened_raw).unwrap_or(false) && !fpath.starts_with('/');
            if !usable {
                rec.count(if model.is_none() {
                    "faults.oracle_only(history not modelled)"
                } else if in_verify {
                    "faults.oracle_only(during a verifier pass)"
                } else if !failed_raw.map(|r| r > opened_raw).unwrap_or(false) {
                    "faults.oracle_only(during the initial open)"
                } else {
                    "faults.oracle_only(failed call is not a successful call of the fault-free run)"
                });
                rec.case(&format!("# {}", tag), "#", v, fp);
            } else {
                let clients = model.as_ref().unwrap();
                let r = failed_raw.unwrap();
                let i = model_index(r);
                let on_model = mtoks.iter().find(|t| t.1 == r).map(|t| t.0.clone());
                // what the run with the fault did after the failed call, in the model's alphabet
                let post: Vec<String> = model_tokens(canonical_idx(&t.ops, true), &write_idx).into_iter().filter(|x| x.1 > fault_ri && x.0 != "FAULT").map(|x| x.0).collect();
                let acked_writes = acked.iter().filter(|j| write_idx.contains(j)).count();
                let _ = writes_before;
                let obs = format!(
                    "{} {} acked={} post={} recA={} recB={}",
                    on_model.clone().unwrap_or_else(|| "-".to_string()),
                    if is_surfaced { "surfaced" } else { "absorbed" },
                    acked_writes,
                    join_toks(&post),
                    rec_str(&ra),
                    rb.as_ref().map(rec_str).unwrap_or_else(|| "?".to_string())
                );
                rec.count(if on_model.is_some() { "fault_vs_model.on_a_model_operation" } else { "fault_vs_model.between_model_operations" });
                rec.case(&format!("crash {} {} {}", if on_model.is_some() { "fault" } else { "faultx" }, i, clients), &obs, v, fp);
            }
        }
        rec.add("syscalls_mutating", mutating.len() as u64);
        rec.count("histories");
        let _ = std::fs::remove_dir_all(&work);
    }
    // ---- directed: crash images with SEVERAL non-empty write-ahead logs -----------------------
    // A single-stepped history never leaves two: a flush rotates, builds, links and ingests without
    // a scheduling point, so a crash inside it finds the fresh log empty.  The state is the one a
    // process death leaves when the flush is parked in the level-0 ingest stall (real
    // memtable_thread on a helper thread) while a client keeps writing; it is made by
    // `c04::several_logs_image` (with the store itself, or LogBuilder files by hand), reopened in a
    // fresh process like every other image, and read back.  Oracle only (the batch-granular model
    // has no client that writes during a flush): the reopen succeeds and shows every
    // acknowledged write.
    for i in 0..(if args.thorough { 24u64 } else { 6 }) {
        let mut rng = Rng::for_case(args.seed, 1023, i);
        let variant = crate::c04::SEVERAL_LOGS_VARIANTS[(i % 6) as usize];
        let (cfg, nkeys) = crate::c04::several_logs_cfg(&mut rng);
        let root = scratch_dir(&format!("c02.logs.{}", i));
        let tag = format!("# several-logs image {} {}", i, variant);
        match crate::c04::several_logs_image(&mut rng, variant, &cfg, nkeys, &root) {
            Err((class, detail)) => {
                let _ = std::fs::remove_dir_all(&root);
                let _ = std::fs::remove_dir_all(format!("{}.image", root));
                rec.case(&tag, "#", Verdict::Fail { class, detail }, None)
            }
            Ok((dir, oracle)) => {
                let nlogs = std::fs::read_dir(&dir).map(|rd| rd.flatten().filter(|e| e.file_name().to_string_lossy().starts_with("log.") && e.metadata().map(|m| m.len() > 0).unwrap_or(false)).count()).unwrap_or(0);
                let mut want = String::new();
                for k in ALPHABET[..nkeys].iter() {
                    match oracle.get(*k).cloned().flatten() {
                        Some(v) => want.push_str(&format!("{}={}\n", hex(k), hex(&v))),
                        None => want.push_str(&format!("{}!\n", hex(k))),
                    }
                }
                let live: Vec<String> = oracle.iter().filter_map(|(k, v)| v.as_ref().map(|v| format!("{}={}", hex(k), hex(v)))).collect();
                want.push_str(&format!("scan {}\n", live.join(",")));
                let r = reopen_image(&exe, &dir, &cfg, nkeys, None);
                let _ = std::fs::remove_dir_all(&dir);
                rec.count(&format!("several_logs_image.{}", variant));
                rec.add("several_logs_image.nonempty_logs", nlogs as u64);
                let v = if r.code != Some(0) {
                    Verdict::Fail { class: if r.d9 { "reopen-with-key-and-timestamp-overlapping-files".into() } else { "reopen-fails-on-several-logs".into() }, detail: format!("image {} ({}; {} non-empty logs): the store does not reopen: {}", i, variant, nlogs, r.text.chars().filter(|c| *c != '\n').take(300).collect::<String>()) }
                } else if r.text != want {
                    Verdict::Fail { class: if r.d9 { "reopen-with-key-and-timestamp-overlapping-files".into() } else { "acknowledged-write-lost-in-recovery".into() }, detail: format!("image {} ({}; {} non-empty logs): read back {:?}, acknowledged {:?}", i, variant, nlogs, r.text, want) }
                } else if r.d9 {
                    Verdict::Taint { class: "reopen-with-key-and-timestamp-overlapping-files".into() }
                } else {
                    Verdict::Ok
                };
                rec.case(&tag, "#", v, Some(fnv(tag.as_bytes())));
            }
        }
    }
    run_multi_writer(args, &mut rec, &exe);
    rec.finish(
        "seeded single-stepped store histories (puts, dels, multi-key batches in a quarter of them, flushes, compaction steps, reopens, verifier passes) run once under strace; a crash is simulated before every file-system-mutating system call (write, fsync/fdatasync, link, rename, unlink, mkdir, rmdir, create) and after the last one, under (a) completed calls persist and (b) unsynced file bytes are lost; every distinct image is reopened by the real code in a fresh process and read back (point reads of every key and a full scan); for a seeded sample of the images the reopen is traced, compared with the model's recovery of the same crash point, crashed before each of ITS mutating calls (both models again), reopened and compared once more; a seeded sample of single injected faults per history is replayed in the model at the same operation (failed call, surfaced/absorbed, acknowledgements, calls after the failure, batches found by the reopen after the process exit and after a power loss on top); a multi-writer fault family (2..4 client threads inside KeyValueStore::put at once, lock-step or free, every thread's fdatasyncs failing from its K-th on or only its K-th, strace inject; oracle only: at each acknowledgement the put's bytes lie in the prefix of the log covered by a successfully returned fdatasync, and the images after the process exit and after a power loss at the end of the run reopen with every acknowledged put and nothing no client wrote); non-trivial = every distinct (history, crash point, model, image) reopened, every distinct (history, fault), every compared operation list, every multi-writer fault run; plus directed crash images with several non-empty write-ahead logs (a flush parked in the ingest stall while clients write, made with the store itself, or written by hand), reopened in a fresh process and read back (oracle only)",
        &[],
    );
}
