#!/usr/bin/env python3
"""Source -> Lean: regenerate lean/Blue/Generated/Consts.lean from the tree under test.

Every constant or table a theorem depends on is read out of the Rust source on every run; the
module Blue.Proofs.ConstsTie proves (by `decide`/`rfl`) that the hand-written model uses exactly
these values, so an edit to a constant in the source breaks a proof obligation.
Also fingerprints the anchor files of every property (informational: "model may be stale").
"""
import hashlib, json, os, re, sys

def read(repo, rel):
    with open(os.path.join(repo, rel), encoding='utf-8') as f:
        return f.read()

class Missing(Exception):
    pass

def const_int(src, name, ty=r'[A-Za-z0-9_]+'):
    m = re.search(r'\bconst\s+%s\s*:\s*%s\s*=\s*([^;]+);' % (re.escape(name), ty), src)
    if not m:
        raise Missing(name)
    return m.group(1).strip()

def eval_int(expr, env=None):
    e = expr.replace('_', '') if re.fullmatch(r'[0-9_]+', expr) else expr
    e = re.sub(r'\b(\d+)(u8|u16|u32|u64|usize|i32|i64)\b', r'\1', e)
    e = re.sub(r'\bas\s+(u8|u16|u32|u64|usize|i32|i64)\b', '', e)
    e = re.sub(r'(?<=\d)_(?=\d)', '', e)
    e = e.replace('u64::MAX', str(2**64-1)).replace('u32::MAX', str(2**32-1))
    e = e.replace('usize::MAX', str(2**64-1))
    if not re.fullmatch(r'[0-9A-Za-z_+\-*/<>() ]+', e):
        raise Missing('cannot evaluate: ' + expr)
    return int(eval(e, {'__builtins__': {}}, dict(env or {})))


def extract(repo):
    out = {}
    notes = []
    def grab(key, fn):
        try:
            out[key] = fn()
        except (Missing, OSError, ValueError, SyntaxError, NameError, TypeError) as ex:
            notes.append('%s: not extracted (%s)' % (key, ex))
    # setsum
    s = read(repo, 'setsum/src/lib.rs')
    def primes():
        m = re.search(r'const\s+SETSUM_PRIMES\s*:\s*\[u32;\s*SETSUM_COLUMNS\]\s*=\s*\[([^\]]+)\]', s)
        if not m:
            raise Missing('SETSUM_PRIMES')
        return [int(x.strip().replace('_', '')) for x in m.group(1).split(',') if x.strip()]
    grab('setsumPrimes', primes)
    grab('setsumBytes', lambda: eval_int(const_int(s, 'SETSUM_BYTES')))
    grab('setsumBytesPerColumn', lambda: eval_int(const_int(s, 'SETSUM_BYTES_PER_COLUMN')))

    # tuple keys (C16)
    def c16():
        def hexconst(src, name):
            m = re.search(r'\bconst\s+%s\s*:\s*[A-Za-z0-9_]+\s*=\s*([^;]+);' % re.escape(name), src)
            if not m:
                raise Missing(name)
            e = re.sub(r'(u8|u16|u32|u64|usize|i32|i64)$', '', m.group(1).strip().replace('_', ''))
            return int(e, 0)
        t1 = read(repo, 'tuple_key/src/lib.rs')
        tys = ['unit', 'fixed32', 'fixed64', 'sfixed32', 'sfixed64', 'string']
        dirs = ['Forward', 'Reverse']
        def to_disc():
            body = re.search(r'pub fn to_discriminant\b.*?\n}\n', t1, re.S)
            if not body:
                raise Missing('to_discriminant')
            arms = {(a, b): int(n) for a, b, n in re.findall(r'\(KeyDataType::(\w+),\s*Direction::(\w+)\)\s*=>\s*(\d+)', body.group(0))}
            if len(arms) != 12:
                raise Missing('to_discriminant arms')
            return [arms[(t, d)] for d in dirs for t in tys]
        def from_disc():
            body = re.search(r'pub fn from_discriminant\b.*?\n}\n', t1, re.S)
            if not body:
                raise Missing('from_discriminant')
            arms = {int(n): (a, b) for n, a, b in re.findall(r'(\d+)\s*=>\s*Some\(\(KeyDataType::(\w+),\s*Direction::(\w+)\)\)', body.group(0))}
            if not re.search(r'_\s*=>\s*None', body.group(0)):
                raise Missing('from_discriminant default arm')
            # entry n (0..15): 0 = None, else 1 + type index + 6 * direction index
            return [(1 + tys.index(arms[n][0]) + 6 * dirs.index(arms[n][1])) if n in arms else 0 for n in range(16)]
        grab('tk1Discriminants', to_disc)
        grab('tk1FromDiscriminant', from_disc)
        o = read(repo, 'tuple_key/src/ordered.rs')
        grab('tk1Divide32', lambda: hexconst(o, 'DIVIDE_32'))
        grab('tk1Divide64', lambda: hexconst(o, 'DIVIDE_64'))
        pt = read(repo, 'prototk/src/lib.rs')
        for key, name in [('fieldFirst', 'FIRST_FIELD_NUMBER'), ('fieldLast', 'LAST_FIELD_NUMBER'),
                          ('fieldFirstReserved', 'FIRST_RESERVED_FIELD_NUMBER'), ('fieldLastReserved', 'LAST_RESERVED_FIELD_NUMBER')]:
            grab(key, lambda name=name: eval_int(const_int(pt, name)))
        t2 = read(repo, 'tuple_key2/src/lib.rs')
        for key, name in [('tk2SignedNegBase', 'SIGNED_NEG_BASE'), ('tk2SignedNegLast', 'SIGNED_NEG_LAST'),
                          ('tk2SignedNonnegBase', 'SIGNED_NONNEG_BASE'), ('tk2SignedNonnegLast', 'SIGNED_NONNEG_LAST'),
                          ('tk2UnsignedBase', 'UNSIGNED_BASE'), ('tk2UnsignedLast', 'UNSIGNED_LAST'), ('tk2UnitTag', 'UNIT_TAG')]:
            grab(key, lambda name=name: hexconst(t2, name))
    try:
        c16()
    except OSError as ex:
        notes.append('C16 constants: not extracted (%s)' % ex)
    # garbage collection policy language (C05): keywords and error contexts of the parser, the
    # `now` lsmtk hands to the collector (O-3: ttl policies never expire), lsmtk's default policy
    gc = read(repo, 'sst/src/gc.rs')
    gc_parser = gc.split('nom, nom, nom', 1)[-1].split('// Determiner //', 1)[0]
    grab('gcKeywords', lambda: [w for w in re.findall(r'tag\("([^"]+)"\)', gc_parser) if re.fullmatch(r'[a-z_]+', w)]
         or (_ for _ in ()).throw(Missing('gc keywords')))
    grab('gcContexts', lambda: re.findall(r'context\(\s*"([^"]+)"', gc_parser)
         or (_ for _ in ()).throw(Missing('gc contexts')))
    def collector_nows():
        nows = []
        for f in ('lsmtk/src/tree/mod.rs', 'lsmtk/src/verifier.rs'):
            nows += [int(x) for x in re.findall(r'\.collector\(\s*\w+\s*,\s*(\d+)\s*\)', read(repo, f))]
        if not nows:
            raise Missing('collector(_, now)')
        return nows
    grab('lsmtkCollectorNow', collector_nows)
    def default_policy():
        m = re.search(r'gc_policy:\s*GarbageCollectionPolicy::try_from\("([^"]+)"\)', read(repo, 'lsmtk/src/lib.rs'))
        if not m:
            raise Missing('default gc_policy')
        return m.group(1)
    grab('lsmtkDefaultGcPolicy', default_policy)
    # prototk / buffertk (C15)
    try:
        pt = read(repo, 'prototk/src/lib.rs')
        ft = read(repo, 'prototk/src/field_types.rs')
        pd = read(repo, 'prototk_derive/src/lib.rs')
        vi = read(repo, 'buffertk/src/varint.rs')
        bt = read(repo, 'buffertk/src/lib.rs')
    except OSError as ex:
        notes.append('prototk: not extracted (%s)' % ex)
        pt = ft = pd = vi = bt = ''
    WT_NAMES = ['Varint', 'SixtyFour', 'LengthDelimited', 'ThirtyTwo']
    def wire_type_bits(fn_name, pat):
        m = re.search(r'pub fn %s\b.*?\n    \}' % fn_name, pt, re.S)
        if not m:
            raise Missing(fn_name)
        d = {}
        for a, b in re.findall(pat, m.group(0)):
            d[a] = b
        return d
    def wt_new():
        d = wire_type_bits('new\(tag_bits', r'(\d+) => Ok\(WireType::(\w+)\)')
        inv = {v: int(k) for k, v in d.items()}
        if sorted(inv) != sorted(WT_NAMES):
            raise Missing('WireType::new arms: %s' % d)
        return [inv[n] for n in WT_NAMES]
    def wt_bits():
        d = wire_type_bits('tag_bits\(&self', r'WireType::(\w+) => (\d+)')
        if sorted(d) != sorted(WT_NAMES):
            raise Missing('WireType::tag_bits arms: %s' % d)
        return [int(d[n]) for n in WT_NAMES]
    grab('protoWireTypeBitsNew', wt_new)
    grab('protoWireTypeBits', wt_bits)
    for lean, rust in (('protoFirstFieldNumber', 'FIRST_FIELD_NUMBER'), ('protoLastFieldNumber', 'LAST_FIELD_NUMBER'),
                       ('protoFirstReservedFieldNumber', 'FIRST_RESERVED_FIELD_NUMBER'), ('protoLastReservedFieldNumber', 'LAST_RESERVED_FIELD_NUMBER')):
        grab(lean, lambda rust=rust: eval_int(const_int(pt, rust)))
        grab(lean.replace('proto', 'protoDerive'), lambda rust=rust: eval_int(const_int(pd, rust)))
    FIELD_TYPES = ['int32', 'int64', 'uint32', 'uint64', 'sint32', 'sint64', 'Bool', 'fixed32', 'fixed64', 'sfixed32', 'sfixed64',
                   'float', 'double', 'bytes', 'bytes16', 'bytes32', 'bytes64', 'string', 'message']
    def field_wire_types():
        bits = dict(zip(WT_NAMES, wt_bits()))
        out_ = []
        for t in FIELD_TYPES:
            m = re.search(r"impl(?:<[^>]*>)?\s+FieldType<'?\w*>\s+for\s+%s\b[^{]*\{\s*const WIRE_TYPE: WireType = WireType::(\w+);" % t, ft)
            if not m:
                raise Missing('WIRE_TYPE of ' + t)
            out_.append(bits[m.group(1)])
        return out_
    grab('protoFieldWireTypes', field_wire_types)
    def fixed_bytes_sizes():
        out_ = []
        for n in (16, 32, 64):
            m = re.search(r'pub struct bytes%d\(pub \[u8; (\d+)\]\);' % n, ft)
            if not m:
                raise Missing('bytes%d' % n)
            out_.append(int(m.group(1)))
        return out_
    grab('protoFixedBytesSizes', fixed_bytes_sizes)
    def message_unpack_asserts():
        m = re.search(r"impl<'a, M> Unpackable<'a> for message<M>.*?\n\}", ft, re.S)
        if not m:
            raise Missing('message<M>::unpack')
        return 1 if re.search(r'\bassert', m.group(0)) else 0
    grab('protoMessageUnpackAsserts', message_unpack_asserts)
    def named_variant_rejects_unknown():
        m = re.search(r'impl ProtoTKVisitor for UnpackMessageVisitor.*?fn named_variant_snippet.*?fn unnamed_variant_snippet', pd, re.S)
        if not m:
            raise Missing('UnpackMessageVisitor::named_variant_snippet')
        k = re.search(r'#\(#field_blocks\)\*(.*?)if let Some\(error\)', m.group(0), re.S)
        if not k:
            raise Missing('named variant field loop')
        return 1 if 'unknown_discriminant' in k.group(1) else 0
    grab('protoNamedVariantRejectsUnknown', named_variant_rejects_unknown)
    def varint_max():
        # the cap of unpack_slow and the largest unrolled size (the ten-byte limit of a varint);
        # the boundary below which `unpack` takes the slow decoder is extracted on its own
        # (varintFastMinLen) and tied by `10 <= varintFastMinLen`
        m = re.search(r'let bytes: usize = if buf\.len\(\) < (\d+) \{ buf\.len\(\) \} else \{ (\d+) \};', vi)
        sizes = [int(x) for x in re.findall(r'Self::unpack_size::<(\d+)>\(buf\)', vi)]
        if not m or not sizes or m.group(1) != m.group(2) or sizes != list(range(1, int(m.group(2)) + 1)):
            raise Missing('varint length limit')
        return int(m.group(2))
    grab('varintMaxBytes', varint_max)
    # the shape of `<v64 as Unpackable>::unpack`, `unpack_slow` and `unpack_size` (Blue.Varint)
    def unpack_body():
        m = re.search(r"impl<'a> Unpackable<'a> for v64 \{.*?\n\}\n", vi, re.S)
        if not m:
            raise Missing('Unpackable for v64')
        return m.group(0)
    def varint_fast_min_len():
        k = re.findall(r'if buf\.len\(\) < (\d+) \{\s*return Self::unpack_slow\(buf\);\s*\}', unpack_body())
        if len(k) != 1:
            raise Missing('slow-path boundary of v64::unpack')
        return int(k[0])
    grab('varintFastMinLen', varint_fast_min_len)
    def varint_slow_cap():
        m = re.findall(r'let bytes: usize = if buf\.len\(\) < (\d+) \{ buf\.len\(\) \} else \{ (\d+) \};', vi)
        if len(m) != 1:
            raise Missing('unpack_slow byte cap')
        return [int(m[0][0]), int(m[0][1])]
    grab('varintSlowCap', varint_slow_cap)
    def varint_arms():
        body = unpack_body()
        arms = re.findall(r'if buf\[(\d+)\] < (\d+) \{\s*Self::unpack_size::<(\d+)>\(buf\)\s*\}', body)
        # the chain must be exactly: boundary test, the arms, the overflow error
        chain = re.sub(r'\s+', ' ', body.split('return Self::unpack_slow(buf);', 1)[-1])
        want = ' } ' + ' else '.join('if buf[%s] < %s { Self::unpack_size::<%s>(buf) }' % a for a in arms) \
               + ' else { Err(varint_overflow(buf.len())) } } } '
        if not arms or chain != want:
            raise Missing('unrolled dispatch of v64::unpack')
        return arms
    grab('varintFastArmIndices', lambda: [int(a[0]) for a in varint_arms()])
    grab('varintFastArmThresholds', lambda: [int(a[1]) for a in varint_arms()])
    grab('varintFastArmSizes', lambda: [int(a[2]) for a in varint_arms()])
    def varint_literals():
        # the numeric literals of unpack_slow and unpack_size, in source order
        pats = [r'while idx \+ 1 < bytes && buf\[idx\] & (\d+) != 0 \{',
                r'ret \|= \(buf\[idx\] as u64 & (\d+)\) << shl;\s*idx \+= 1;\s*shl \+= (\d+);',
                r'if !buf\.is_empty\(\) && buf\[idx\] & (\d+) == 0 \{\s*ret \|= \(buf\[idx\] as u64 & (\d+)\) << shl;\s*idx \+= 1;',
                r'let mut result = \(buf\[SZ - 1\] as u64\) << \((\d+) \* \(SZ - 1\)\);\s*let mut offset = (\d+);',
                r'for b in buf\.iter\(\)\.take\(SZ - 1\) \{\s*result \+= \(\*b as u64 - (0x[0-9a-fA-F]+|\d+)\) << offset;\s*offset \+= (\d+);']
        out_ = []
        for pat in pats:
            m = re.findall(pat, vi)
            if len(m) != 1:
                raise Missing('varint decoder line: ' + pat[:40])
            g = m[0] if isinstance(m[0], tuple) else (m[0],)
            out_ += [int(x, 0) for x in g]
        if not re.search(r'let mut ret = 0u64;\s*let mut idx = 0;\s*let mut shl = 0;', vi):
            raise Missing('unpack_slow initial state')
        return out_
    grab('varintCodeLiterals', varint_literals)
    def varint_pack_literals():
        # the numeric literals of v64::pack_sz and v64::pack, in source order
        pats = [r'let mut count: usize = (\d+);\s*x >>= (\d+);\s*while x > 0 \{\s*x >>= (\d+);\s*count \+= (\d+);\s*\}\s*count',
                r'out\[0\] = \(x & (0x[0-9a-fA-F]+|\d+)\) as u8;\s*x >>= (\d+);\s*let mut idx: usize = (\d+);\s*while x > 0 \{\s*out\[idx - 1\] \|= (\d+);\s*out\[idx\] = \(x & (0x[0-9a-fA-F]+|\d+)\) as u8;\s*idx \+= (\d+);\s*x >>= (\d+);\s*\}']
        out_ = []
        for pat in pats:
            m = re.findall(pat, vi)
            if len(m) != 1:
                raise Missing('varint encoder lines: ' + pat[:40])
            out_ += [int(x, 0) for x in m[0]]
        return out_
    grab('varintPackLiterals', varint_pack_literals)
    def result_tags():
        ok = re.findall(r'Ok\(x\) => (?:\{\s*)?stack_pack\(v64::from\((\d+)\)\)', bt)
        er = re.findall(r'Err\(e\) => (?:\{\s*)?stack_pack\(v64::from\((\d+)\)\)', bt)
        arms = re.findall(r'\n            (\d+) => \{\s*let x: v64 = up\.unpack\(\)\?;', bt)
        if len(set(ok)) != 1 or len(set(er)) != 1 or arms != [ok[0], er[0]]:
            raise Missing('Result tags: %s %s %s' % (ok, er, arms))
        return [int(ok[0]), int(er[0])]
    grab('resultTags', result_tags)
    # mani
    m = read(repo, 'mani/src/lib.rs')
    def tx_separator():
        mm = re.search(r'const\s+TX_SEPARATOR\s*:\s*&str\s*=\s*"([^"\\]*)"\s*;', m)
        if not mm:
            raise Missing('TX_SEPARATOR')
        return [ord(c) for c in mm.group(1)]
    grab('maniTxSeparator', tx_separator)
    def min_line():
        mm = re.search(r'line\.len\(\)\s*>\s*(\d+)', m)
        if not mm:
            raise Missing('line.len() > N in ManifestIterator::next')
        return int(mm.group(1))
    grab('maniMinLine', min_line)
    try:
        sst_consts(repo, out, grab)
    except OSError as ex:
        notes.append('sst: not extracted (%s)' % ex)
    try:
        sbbf_consts(repo, grab)
    except OSError as ex:
        notes.append('sbbf: not extracted (%s)' % ex)
    # lsmtk trash names and the manifest info keys the verifier reads (C08)
    def c08():
        l = read(repo, 'lsmtk/src/lib.rs')
        v = read(repo, 'lsmtk/src/verifier.rs')
        t = read(repo, 'lsmtk/src/tree/mod.rs')
        mm = re.search(r'fn\s+TRASH_SST[^{]*\{\s*TRASH_ROOT\(root\)\.join\(setsum\.hexdigest\(\)\s*\+\s*"([^"]*)"\)', l)
        if not mm:
            raise Missing('TRASH_SST suffix')
        grab('lsmtkTrashSstSuffix', lambda: [ord(c) for c in mm.group(1)])
        ml = re.search(r'fn\s+TRASH_LOG[^{]*\{\s*TRASH_ROOT\(root\)\.join\(format!\("([^"{]*)\{number\}"\)\)', l)
        if not ml:
            raise Missing('TRASH_LOG prefix')
        grab('lsmtkTrashLogPrefix', lambda: [ord(c) for c in ml.group(1)])
        # the info keys: verify_one reads I, O, D and L of an edit, process_one writes O and M
        def keys():
            ks = sorted(set(re.findall(r"get_info\('(.)'\)", v)))
            if not ks:
                raise Missing("edit.get_info('?') in verifier.rs")
            return [ord(k) for k in ks]
        grab('lsmtkVerifierEditInfoKeys', keys)
        def pops():
            body = re.search(r'pub fn verify\(&mut self\)(.*?)for (?:entry|\(fragment, entry\)) in entries', v, re.S)
            if not body:
                raise Missing('LsmVerifier::verify')
            return len(re.findall(r'entries\.pop\(\)', body.group(1)))
        grab('lsmtkVerifierEntriesPopped', pops)
        # the RANGE of last_removals: how many entries `verify` has dropped from its list (pop,
        # truncate, ...) before it calls `last_removals(&entries)`: 0 = it ranges over every
        # fragment, the newest numbered one and MANIFEST included (Blue.Verifier.laterRm)
        def pops_before_last_removals():
            body = re.search(r'pub fn verify\(&mut self\)(.*?)for (?:entry|\(fragment, entry\)) in entries', v, re.S)
            if not body:
                raise Missing('LsmVerifier::verify')
            b = re.sub(r'//[^\n]*', '', body.group(1))
            call = re.search(r'\blast_removals\s*\(\s*&\s*entries\s*\)', b)
            if not call:
                raise Missing('last_removals(&entries) in LsmVerifier::verify')
            return len(re.findall(r'entries\s*\.\s*(?:pop|truncate|drain|split_off|remove|swap_remove|retain|clear)\s*\(', b[:call.start()]))
        grab('lsmtkVerifierPopsBeforeLastRemovals', pops_before_last_removals)
        # the INPUT of the orphan scan: how many entries `cleanup_orphans` drops from the list
        # `list_mani_fragments` returns (MANIFEST is its last entry) before it scans them
        def cleanup_entries_dropped():
            m = re.search(r'fn cleanup_orphans\(&mut self\)[^{]*\{(.*?)\n    \}\n', t, re.S)
            if not m:
                raise Missing('LsmTree::cleanup_orphans')
            b = re.sub(r'//[^\n]*', '', m.group(1))
            lst = re.search(r'let\s+(?:mut\s+)?(\w+)\s*=\s*verifier::list_mani_fragments\(&self\.root\)\?\s*;', b)
            if not lst:
                raise Missing('list_mani_fragments in cleanup_orphans')
            name = lst.group(1)
            loop = re.search(r'for\s+\w+\s+in\s+%s\s*(?:\.into_iter\(\)|\.iter\(\))?\s*\{' % re.escape(name), b)
            if not loop:
                raise Missing('loop over every entry of %s in cleanup_orphans' % name)
            return len(re.findall(r'\b%s\s*\.\s*(?:pop|truncate|drain|split_off|remove|swap_remove|retain|clear)\s*\(' % re.escape(name), b[:loop.start()]))
        grab('lsmtkCleanupOrphansEntriesDropped', cleanup_entries_dropped)
        # 1 = compaction_finish takes a reference to an output together with its link
        grab('lsmtkCompactionPinsOutputs', lambda: 1 if re.search(r'references\s*\.\s*inc_then\(', t) else 0)
    try:
        c08()
    except (Missing, OSError) as ex:
        notes.append('c08: not extracted (%s)' % ex)
    def cf_words():
        c = read(repo, 'scrunch/src/bit_vector/cf_rrr.rs')
        return eval_int(const_int(c, 'PARAM_WORDS_PER_BLOCK'))
    grab('scrunchCfRrrWordsPerBlock', cf_words)
    c19_consts(repo, grab)
    # log framing (C12): sst/src/log.rs, sst/src/lib.rs
    def nocomment(t):
        return re.sub(r'//[^\n]*', '', t)
    try:
        lg = nocomment(read(repo, 'sst/src/log.rs'))
        lib = nocomment(read(repo, 'sst/src/lib.rs'))
    except OSError as ex:
        lg, lib = '', ''
        notes.append('log: sources unreadable (%s)' % ex)
    logenv = {}
    def logconst(key, name, src):
        def f():
            v = eval_int(' '.join(const_int(src, name).split()), logenv)
            logenv[name] = v
            return v
        grab(key, f)
    logconst('logBlockBits', 'BLOCK_BITS', lg)
    logconst('logBlockSize', 'BLOCK_SIZE', lg)
    logconst('logHeaderMaxSize', 'HEADER_MAX_SIZE', lg)
    logconst('logMaxBatchSize', 'MAX_BATCH_SIZE', lg)
    logconst('logHeaderWhole', 'HEADER_WHOLE', lg)
    logconst('logHeaderFirst', 'HEADER_FIRST', lg)
    logconst('logHeaderSecond', 'HEADER_SECOND', lg)
    logconst('sstTableFullSize', 'TABLE_FULL_SIZE', lib)
    def batch_limit():
        # what `WriteBatch::put/del/merge` accept: `check_batch_size`
        m = re.search(r'fn\s+check_batch_size\s*\(\s*size\s*:\s*usize\s*\)[^{]*\{\s*if\s+size\s+as\s+u64\s*>\s*(\w+)', lg)
        if not m or m.group(1) not in logenv:
            raise Missing('check_batch_size limit')
        return logenv[m.group(1)]
    grab('logBatchLimit', batch_limit)
    def header_fields():
        m = re.search(r'struct\s+Header\s*\{(.*?)\n\}', lg, re.S)
        if not m:
            raise Missing('struct Header')
        fs = re.findall(r'#\[prototk\((\d+),\s*(\w+)\)\]\s*(\w+)\s*:', m.group(1))
        wire = {'uint64': 0, 'uint32': 0, 'fixed32': 5}
        if [f[2] for f in fs] != ['size', 'discriminant', 'crc32c'] or any(f[1] not in wire for f in fs):
            raise Missing('Header fields changed: %r' % (fs,))
        return fs, wire
    for idx, nm in enumerate(['Size', 'Disc', 'Crc']):
        grab('logHeader%sField' % nm, lambda idx=idx: int(header_fields()[0][idx][0]))
        grab('logHeader%sWire' % nm, lambda idx=idx: header_fields()[1][header_fields()[0][idx][1]])
    # C06: the sequence number `load` / `range_scan` take as their timestamp, and where the store
    # advances it (the model `Blue.KvsConc` reads at `visible`, set when a writer leaves the wait list)
    def kvs_read_ts():
        src = read(repo, 'lsmtk/src/kvs/mod.rs')
        found = re.findall(r'\(mem,\s*imm,\s*version,\s*state\.(\w+)\)', src)
        if len(found) != 2 or found[0] != found[1]:
            raise Missing('read timestamp of load/range_scan: %r' % (found,))
        return found[0]
    grab('kvsReadTimestamp', kvs_read_ts)
    def kvs_write_src():
        src = read(repo, 'lsmtk/src/kvs/mod.rs')
        src = re.sub(r'//[^\n]*', '', src)
        src = re.sub(r'#\[cfg\(rescrv_blue_verif\)\]\s*(?:\{.*?\}|[^;]*;)', '', src, flags=re.S)
        m = re.search(r'pub fn write\(&self, mut batch: WriteBatch\) -> Result<\(\), SError> \{(.*?)\n    \}\n', src, re.S)
        if not m:
            raise Missing('KeyValueStore::write')
        return m.group(1)
    # the exit of `write` through the wait list: wait (holding the store mutex) until head, publish the
    # writer's own number, unlink, notify the new head.  A write that failed takes the same exit in
    # its turn and publishes nothing (repaired), or returns early with `?` (as found).
    WAIT_HEAD = r'let\s+mut\s+state\s*=\s*self\.state\.lock\(\)\.unwrap\(\);\s*while\s+!wait_guard\.is_head\(\)\s*\{\s*state\s*=\s*wait_guard\.naked_wait\(state\);\s*\}\s*'
    PUBLISH = r'state\.visible_seq_no\s*=\s*seq_no;\s*'
    PUBLISH_IF_OK = r'if\s+res\.is_ok\(\)\s*\{\s*state\.visible_seq_no\s*=\s*seq_no;\s*\}\s*'
    LEAVE = r'drop\(wait_guard\);\s*self\.wait_list\.notify_head\(\);\s*'
    def kvs_visible_advance():
        src = kvs_write_src()
        if re.search(WAIT_HEAD + '(?:' + PUBLISH + '|' + PUBLISH_IF_OK + ')' + LEAVE, src):
            return 'at-wait-list-head'
        if 'visible_seq_no' in read(repo, 'lsmtk/src/kvs/mod.rs'):
            raise Missing('visible_seq_no is not advanced where a writer leaves the wait list')
        return 'absent'
    grab('kvsVisibleAdvance', kvs_visible_advance)
    def kvs_failed_write_exit():
        src = kvs_write_src()
        body = r'let\s+mut\s+log_batch\s*=\s*sst::log::WriteBatch::default\(\);\s*for\s+entry\s+in\s+batch\.entries\.iter\(\)\s*\{\s*log_batch\.insert\(KeyValueRef::from\(entry\)\)\?;\s*\}\s*self\.poison\(log\.append\(log_batch\)\)\?;\s*self\.poison\(memtable\.write\(&mut batch\)\)'
        drops = r'drop\(memtable\);\s*drop\(log\);\s*'
        # repaired: the fallible part is evaluated to `res`, every write takes the one exit in its
        # turn, only a successful one publishes, `res` is what the caller gets
        if re.search(r'let\s+res\s*=\s*\(\|\|\s*->\s*Result<\(\),\s*SError>\s*\{\s*' + body + r'\s*\}\)\(\);\s*' + drops + WAIT_HEAD + PUBLISH_IF_OK + LEAVE + r'res\s*$', src):
            return 'in-turn-no-publish'
        # as found: `?` on the fallible calls drops the wait guard wherever it stands
        if re.search(body + r'\?;\s*' + drops + WAIT_HEAD + PUBLISH + LEAVE + r'Ok\(\(\)\)\s*$', src):
            return 'early-return-drops-guard'
        raise Missing('exit of a failed write from the wait list: neither the early return nor the in-turn exit without publishing')
    grab('kvsFailedWriteExit', kvs_failed_write_exit)
    grab('sync42MaxConcurrency', lambda: eval_int(const_int(read(repo, 'sync42/src/lib.rs'), 'MAX_CONCURRENCY')))
    # lsmtk scheduling options (C20): defaults of the limits and thresholds the selector reads, NUM_LEVELS
    def lsmtk_default(field):
        m = re.search(r'impl Default for LsmtkOptions\s*\{.*?\n\}', read(repo, 'lsmtk/src/lib.rs'), re.S)
        if not m:
            raise Missing('Default for LsmtkOptions')
        f = re.search(r'\b%s\s*:\s*([^,\n]+),' % field, m.group(0))
        if not f:
            raise Missing('LsmtkOptions.' + field)
        return eval_int(f.group(1).strip())
    for key, field in [('lsmtkDefaultMaxOpenFiles', 'max_open_files'), ('lsmtkDefaultMaxCompactionBytes', 'max_compaction_bytes'),
                       ('lsmtkDefaultMaxCompactionFiles', 'max_compaction_files'),
                       ('lsmtkDefaultL0MandatoryFiles', 'l0_mandatory_compaction_threshold_files'),
                       ('lsmtkDefaultL0MandatoryBytes', 'l0_mandatory_compaction_threshold_bytes'),
                       ('lsmtkDefaultL0StallFiles', 'l0_write_stall_threshold_files'),
                       ('lsmtkDefaultL0StallBytes', 'l0_write_stall_threshold_bytes')]:
        grab(key, lambda field=field: lsmtk_default(field))
    grab('lsmtkNumLevels', lambda: eval_int(const_int(read(repo, 'lsmtk/src/tree/mod.rs'), 'NUM_LEVELS')))
    # C05, structure rather than constants: WHERE garbage collection is reached (1 = as modelled by
    # Blue.GcLastLevel.performKind; a pattern that is not found at all leaves the constant ABSENT)
    def lsmtk_tree_src():
        return re.sub(r'\s+', ' ', re.sub(r'//[^\n]*', '', read(repo, 'lsmtk/src/tree/mod.rs')))
    def top_level_is_last_level():
        # Compaction::top_level is `self.core.upper_level == NUM_LEVELS - 1`, and there is one such fn
        s = lsmtk_tree_src()
        defs = re.findall(r'\bfn top_level ?\( ?&self ?\) ?-> ?bool ?\{([^{}]*)\}', s)
        if len(defs) != 1 or len(re.findall(r'\bfn top_level\b', s)) != 1:
            raise Missing('Compaction::top_level (exactly one definition)')
        return 1 if re.fullmatch(r' ?self ?\. ?core ?\. ?upper_level ?== ?NUM_LEVELS ?- ?1 ?', defs[0]) else 0
    def gc_only_at_top_level():
        # perform_compaction: first the one-input route to apply_moving_compaction, then
        # `if compaction.top_level() { return self.perform_garbage_collection(compaction); }`, and
        # that is the only place in the crate where perform_garbage_collection is named besides its definition
        s = lsmtk_tree_src()
        if not re.search(r'\bfn perform_garbage_collection ?\(', s):
            raise Missing('Tree::perform_garbage_collection')
        m = re.search(r'\bfn perform_compaction ?\( ?&self, compaction: Compaction ?\) ?-> ?Result<\(\), SError> ?\{ ?(.*?)\bfn [a-z_]+ ?\(', s)
        if not m:
            raise Missing('Tree::perform_compaction')
        named = 0
        root = os.path.join(repo, 'lsmtk', 'src')
        for d, _, fs in os.walk(root):
            for f in fs:
                if f.endswith('.rs'):
                    t = re.sub(r'//[^\n]*', '', open(os.path.join(d, f), encoding='utf-8').read())
                    named += len(re.findall(r'\bperform_garbage_collection\b', t))
        head = (r'(?:[A-Z_]+\.click\(\); )?'
                r'if compaction\.inputs\(\)\.count\(\) == 1 \{ let input = compaction\.inputs\(\)\.next\(\)\.unwrap\(\); '
                r'return self\.apply_moving_compaction\(compaction, input\); \} '
                r'if compaction\.top_level\(\) \{ return self\.perform_garbage_collection\(compaction\); \} ')
        return 1 if named == 2 and re.match(head, m.group(1)) else 0
    grab('lsmtkTopLevelIsLastLevel', top_level_is_last_level)
    grab('lsmtkGcOnlyAtTopLevel', gc_only_at_top_level)
    # lsmtk selector (C01): the floating-point expressions of next_compaction, whitespace-normalised
    # (the model computes them in integer arithmetic from tables; an edit to an expression breaks the tie)
    def lsmtk_selector_expr(pattern, what):
        m = re.search(pattern, read(repo, 'lsmtk/src/tree/mod.rs'), re.S)
        if not m:
            raise Missing(what)
        return re.sub(r'\s+', ' ', m.group(1)).strip()
    grab('lsmtkLevelCurveExpr', lambda: lsmtk_selector_expr(r'fn level_curve\(level: usize\) -> u64 \{(.*?)\n {12}\}', 'level_curve'))
    grab('lsmtkLevelFactorExpr', lambda: lsmtk_selector_expr(r'let level_factor =\s*(.*?);', 'level_factor'))
    grab('lsmtkScaledScoreExpr', lambda: lsmtk_selector_expr(r'candidate = Some\(compaction\);\s*best_score = (\(score as f64[^;]*?);', 'scaled best_score'))
    grab('skipfreeDefaultMaxHeight', lambda: eval_int(const_int(read(repo, 'skipfree/src/lib.rs'), 'DEFAULT_MAX_HEIGHT')))
    grab('skipfreeBranching', lambda: eval_int(const_int(read(repo, 'skipfree/src/lib.rs'), 'BRANCHING')))
    c09_consts(repo, grab)
    # C04 / C13, structure rather than constants: WHERE three statements stand (1 = as modelled)
    def strip(t):
        return re.sub(r'\s+', ' ', re.sub(r'//[^\n]*', '', t))
    def recover_reads_output_per_log():
        # `recover_one` takes the input of its ingest record from the manifest itself
        # (`mani.info('O')`), once per log; `recover` does not read it before its loop
        src = re.sub(r'//[^\n]*', '', read(repo, 'lsmtk/src/kvs/mod.rs'))
        outer = re.search(r'\n    fn recover\(.*?\n    \}\n', src, re.S)
        inner = re.search(r'\n    fn recover_one\(.*?\n    \}\n', src, re.S)
        if not outer or not inner:
            raise Missing('KeyValueStore::recover / recover_one')
        if 'recover_one(' not in outer.group(0):
            raise Missing('recover does not call recover_one')
        per_log = re.search(r"mani\s*\.info\('O'\)", inner.group(0)) is not None
        hoisted = re.search(r"\.info\('O'\)", outer.group(0)) is not None
        return 1 if per_log and not hoisted else 0
    grab('lsmtkRecoverReadsOutputPerLog', recover_reads_output_per_log)
    def discard_check_unguarded():
        # verify_one compares the recorded discard with the one recomputed from the names for EVERY
        # edit after the first, before (and outside) the block that runs verify_gc
        v = strip(read(repo, 'lsmtk/src/verifier.rs'))
        if 'discard != computed_discard' not in v or 'self.verify_gc(&edit, discard)' not in v:
            raise Missing('verify_one discard check / verify_gc call')
        pat = (r'if discard != computed_discard \{ return Err\(corruption\(format!\( "manifest has bad discard[^"]*" \)\)\); \} '
               r'if discard != Setsum::default\(\) && edit\.rmed\(\)\.count\(\) > 0 \{ self\.verify_gc\(&edit, discard\)\?; \} '
               r'acc -= computed_discard;')
        return 1 if re.search(pat, v) else 0
    grab('lsmtkVerifierDiscardCheckUnguarded', discard_check_unguarded)
    def open_reads_under_lock():
        # Manifest::open: every read_mani(..) comes after the lock is held (inside `Some(_lockfile) =>`)
        src = re.sub(r'//[^\n]*', '', read(repo, 'mani/src/lib.rs'))
        body = re.search(r'\n    pub fn open<.*?\n    \}\n', src, re.S)
        if not body:
            raise Missing('Manifest::open')
        b = body.group(0)
        held = b.find('Some(_lockfile) =>')
        locks = [m.start() for m in re.finditer(r'Lockfile::(?:wait|lock)\(', b)]
        reads = [m.start() for m in re.finditer(r'read_mani\(', b)]
        if held < 0 or not locks or not reads:
            raise Missing('Manifest::open: lock acquisition / read_mani')
        return 1 if max(locks) < held and all(r > held for r in reads) else 0
    grab('maniOpenReadsUnderLock', open_reads_under_lock)
    return out, notes

def c19_consts(repo, grab):
    """scrunch: the RRR tables and block parameters, the sampling strides and branch factors, Sigma's limits (C19)"""
    def src(rel):
        return re.sub(r'//[^\n]*', '', read(repo, rel))
    def table_rows(text, name):
        m = re.search(r'const\s+%s\s*:\s*&\[&\[u64\]\]\s*=\s*&\[(.*?)\n\];' % name, text, re.S)
        if not m:
            raise Missing(name)
        rows = re.findall(r'&\[([^\]]*)\]', m.group(1))
        return [[int(x.strip().replace('_', '')) for x in r.split(',') if x.strip()] for r in rows]
    def rrr_k_flat():
        return [x for r in table_rows(src('scrunch/src/bit_vector/rrr.rs'), 'K') for x in r]
    def rrr_k_lens():
        return [len(r) for r in table_rows(src('scrunch/src/bit_vector/rrr.rs'), 'K')]
    def rrr_l():
        m = re.search(r'const\s+L\s*:\s*&\[usize\]\s*=\s*&\[([^\]]*)\];', src('scrunch/src/bit_vector/rrr.rs'))
        if not m:
            raise Missing('L')
        return [int(x.strip()) for x in m.group(1).split(',') if x.strip()]
    grab('scrunchRrrKFlat', rrr_k_flat)
    grab('scrunchRrrKRowLens', rrr_k_lens)
    grab('scrunchRrrL', rrr_l)
    grab('scrunchRrrWord', lambda: eval_int(const_int(src('scrunch/src/bit_vector/rrr.rs'), 'WORD')))
    grab('scrunchRrrSelect', lambda: eval_int(const_int(src('scrunch/src/bit_vector/rrr.rs'), 'SELECT')))
    def cf_sample():
        c = src('scrunch/src/bit_vector/cf_rrr.rs')
        w = eval_int(const_int(c, 'PARAM_WORDS_PER_BLOCK'))
        return eval_int(const_int(c, 'PARAM_SELECT_SAMPLE'), {'PARAM_WORDS_PER_BLOCK': w})
    grab('scrunchCfRrrSelectSample', cf_sample)
    def sa_sampling():
        lib = src('scrunch/src/lib.rs')
        vals = set(re.findall(r'SA::construct(?:_u32)?\(\s*(\d+)\s*,', lib))
        if len(vals) != 1:
            raise Missing('SA::construct(<sampling>, ...) call sites: %s' % sorted(vals))
        return int(vals.pop())
    grab('scrunchSaSampling', sa_sampling)
    def branch_in(rel, fn_hint):
        t = src(rel)
        vals = set(re.findall(r'from_indices\(\s*(\d+)\s*,', t))
        if len(vals) != 1:
            raise Missing('from_indices(<branch>, ...) in %s: %s' % (rel, sorted(vals)))
        return int(vals.pop())
    grab('scrunchSampledArrayBranch', lambda: branch_in('scrunch/src/sampled.rs', 'construct'))
    grab('scrunchSigmaBranch', lambda: branch_in('scrunch/src/sigma.rs', 'construct'))
    grab('scrunchBoundaryBranch', lambda: branch_in('scrunch/src/lib.rs', 'construct'))
    def sparse_trait_branch():
        t = src('scrunch/src/bit_vector/sparse.rs')
        m = re.search(r'Self::from_indices\(\s*(\d+)\s*,\s*bits\.len\(\)', t)
        if not m:
            raise Missing('sparse BitVector::construct branch')
        return int(m.group(1))
    grab('scrunchSparseConstructBranch', sparse_trait_branch)
    def sparse_branch_bounds():
        t = src('scrunch/src/bit_vector/sparse.rs')
        m = re.search(r'!\(\s*(\d+)\s*\.\.\s*(\d+)\s*\)\.contains\(&branch\)', t)
        if not m:
            raise Missing('sparse from_indices branch bounds')
        return [int(m.group(1)), int(m.group(2))]
    grab('scrunchSparseBranchBounds', sparse_branch_bounds)
    def sigma_limits():
        t = src('scrunch/src/sigma.rs')
        lim = eval_int(const_int(t, 'DENSE_COUNT_LIMIT'))
        look = eval_int(const_int(t, 'DENSE_LOOKUP_LIMIT'))
        m = re.search(r'let\s+mut\s+dense_counts\s*=\s*vec!\[0usize;\s*(\d+)\]', t)
        if not m:
            raise Missing('dense_counts initial length')
        return [lim, look, int(m.group(1))]
    grab('scrunchSigmaDenseLimits', sigma_limits)

SST_WIRE = {'uint64': 0, 'uint32': 0, 'int64': 0, 'int32': 0, 'sint64': 0, 'sint32': 0, 'Bool': 0, 'fixed64': 1, 'sfixed64': 1,
        'double': 1, 'bytes': 2, 'bytes16': 2, 'bytes32': 2, 'bytes64': 2, 'string': 2, 'message': 2, 'fixed32': 5,
        'sfixed32': 5, 'float': 5}

def sst_strip_comments(src):
    return re.sub(r'//[^\n]*', '', re.sub(r'/\*.*?\*/', '', src, flags=re.S))

def sst_message_fields(src, kind, name):
    """[(field number, wire type)] of a `#[derive(Message)]` struct or enum, in declaration order"""
    m = re.search(r'\b%s\s+%s\b[^{]*\{(.*?)\n\}' % (kind, re.escape(name)), src, re.S)
    if not m:
        raise Missing(name)
    body = sst_strip_comments(m.group(1))
    fs = re.findall(r'#\[prototk\(\s*(\d+)\s*,\s*([A-Za-z0-9_]+)', body)
    if not fs:
        raise Missing(name + ' fields')
    for _, ty in fs:
        if ty not in SST_WIRE:
            raise Missing('wire type of ' + ty)
    return [(int(n), SST_WIRE[ty]) for n, ty in fs]

def sst_consts(repo, out, grab):
    lib = read(repo, 'sst/src/lib.rs')
    blk = read(repo, 'sst/src/block.rs')
    env = {}
    def c(key, name, ty=r'[A-Za-z0-9_]+'):
        def f():
            expr = sst_strip_comments(const_int(lib, name, ty))
            expr = expr.replace('setsum::SETSUM_BYTES', str(out.get('setsumBytes', 32))).replace('\n', ' ')
            v = eval_int(' '.join(expr.split()), env)
            env[name] = v
            return v
        grab(key, f)
    c('sstMaxKeyLen', 'MAX_KEY_LEN')
    c('sstMaxValueLen', 'MAX_VALUE_LEN')
    c('sstTableFullSize', 'TABLE_FULL_SIZE')
    c('sstBlockMetadataMaxSz', 'BLOCK_METADATA_MAX_SZ')
    c('sstFinalBlockMaxSz', 'FINAL_BLOCK_MAX_SZ')
    c('sstClampMinTargetBlockSize', 'CLAMP_MIN_TARGET_BLOCK_SIZE')
    c('sstClampMaxTargetBlockSize', 'CLAMP_MAX_TARGET_BLOCK_SIZE')
    def max_key():
        m = re.search(r'const\s+MAX_KEY\s*:\s*&\[u8\]\s*=\s*&\[\s*(0x[0-9a-fA-F]+|\d+)(?:u8)?\s*;\s*(\d+)\s*\]', lib)
        if not m:
            raise Missing('MAX_KEY')
        return [int(m.group(1), 0)] * int(m.group(2))
    grab('sstMaxKey', max_key)
    def default_of(src, struct, field):
        m = re.search(r'impl Default for %s\s*\{.*?\n\}' % struct, src, re.S)
        if not m:
            raise Missing('Default for ' + struct)
        f = re.search(r'\b%s\s*:\s*([^,\n]+),' % field, m.group(0))
        if not f:
            raise Missing(struct + '.' + field)
        return eval_int(f.group(1).strip())
    grab('blockDefaultBytesRestartInterval', lambda: default_of(blk, 'BlockBuilderOptions', 'bytes_restart_interval'))
    grab('blockDefaultPairsRestartInterval', lambda: default_of(blk, 'BlockBuilderOptions', 'key_value_pairs_restart_interval'))
    grab('sstDefaultTargetBlockSize', lambda: default_of(lib, 'SstOptions', 'target_block_size'))
    grab('sstDefaultBloomFilterBits', lambda: default_of(lib, 'SstOptions', 'bloom_filter_bits'))
    def footer_tags():
        m10 = re.search(r'let\s+tag10\s*:\s*v64\s*=\s*\(\((\d+)\s*<<\s*3\)\s*\|\s*(\d+)\)', blk)
        m11 = re.search(r'let\s+tag11\s*:\s*v64\s*=\s*\(\((\d+)\s*<<\s*3\)\s*\|\s*(\d+)\)', blk)
        if not (m10 and m11):
            raise Missing('block footer tags')
        return [int(m10.group(1)), int(m10.group(2)), int(m11.group(1)), int(m11.group(2))]
    grab('blockFooterTags', footer_tags)
    for key, kind, name in [('keyValuePut', 'struct', 'KeyValuePut'), ('keyValueDel', 'struct', 'KeyValueDel'),
                            ('keyValueEntry', 'enum', 'KeyValueEntry'), ('sstEntry', 'enum', 'SstEntry'),
                            ('blockMetadata', 'struct', 'BlockMetadata'), ('finalBlock', 'struct', 'FinalBlock'),
                            ('sstMetadata', 'struct', 'SstMetadata')]:
        grab(key + 'Fields', lambda kind=kind, name=name: [n for n, _ in sst_message_fields(lib, kind, name)])
        grab(key + 'Wire', lambda kind=kind, name=name: [w for _, w in sst_message_fields(lib, kind, name)])

def sbbf_consts(repo, grab):
    """the split-block bloom filter (C10): salts, shifts and sizes of sst/src/sbbf.rs.  Every
    pattern is the statement as the model reads it; a statement that is no longer there leaves
    the constant undefined and the tie theorem (ConstsTieC10.sbbf_*) does not compile."""
    src = sst_strip_comments(read(repo, 'sst/src/sbbf.rs'))
    def num(t):
        return int(re.sub(r'(u8|u16|u32|u64|usize)$', '', t.strip().replace('_', '')), 0)
    def fn_body(header):
        m = re.search(re.escape(header) + r'.*?\n    \}\n', src, re.S)
        if not m:
            raise Missing(header)
        return m.group(0)
    def salt():
        m = re.search(r'const\s+SALT\s*:\s*\[u32;\s*(\d+)\]\s*=\s*\[([^\]]+)\]\s*;', src)
        if not m:
            raise Missing('SALT')
        vals = [num(x) for x in m.group(2).split(',') if x.strip()]
        if len(vals) != int(m.group(1)):
            raise Missing('SALT length')
        return vals
    grab('sbbfSalt', salt)
    def block_words():
        m = re.search(r'struct\s+Block\s*\{\s*block\s*:\s*\[u32;\s*(\d+)\]\s*,?\s*\}', src)
        if not m:
            raise Missing('struct Block')
        loops = re.findall(r'for\s+i\s+in\s+0\.\.(\d+)\s*\{', fn_body('fn mask(x: u32) -> Block') + fn_body('fn insert(&mut self, x: u32)')
                           + fn_body('fn check(&self, x: u32) -> bool') + fn_body('fn try_from(bytes: &[u8]) -> Result<Self, Self::Error> {\n        if bytes.len() !='))
        if len(loops) != 4:
            raise Missing('the four loops over the words of a block')
        return [int(m.group(1))] + [int(x) for x in loops]
    grab('sbbfBlockWords', block_words)
    def mask():
        b = fn_body('fn mask(x: u32) -> Block')
        m = re.search(r'let\s+mut\s+result\s*=\s*Block::default\(\);.*?let\s+y\s*:\s*u32\s*=\s*\(x\s+as\s+u64\s*\*\s*SALT\[i\]\s+as\s+u64\)\s+as\s+u32\s*;\s*'
                      r'result\.block\[i\]\s*\|=\s*(\d+)\s*<<\s*\(y\s*>>\s*(\d+)\)\s*;\s*\}\s*result\s*\}', b, re.S)
        if not m:
            raise Missing('Block::mask: y = (x as u64 * SALT[i] as u64) as u32; result.block[i] |= 1 << (y >> N)')
        return [int(m.group(1)), int(m.group(2))]
    grab('sbbfMask', mask)
    def insert_check():
        bi = fn_body('fn insert(&mut self, x: u32)')
        bc = fn_body('fn check(&self, x: u32) -> bool')
        ok_i = re.search(r'let\s+mask\s*=\s*Block::mask\(x\);\s*for\s+i\s+in\s+0\.\.\d+\s*\{\s*self\.block\[i\]\s*\|=\s*mask\.block\[i\];\s*\}', bi)
        ok_c = re.search(r'let\s+mask\s*=\s*Block::mask\(x\);\s*for\s+i\s+in\s+0\.\.\d+\s*\{\s*if\s+self\.block\[i\]\s*&\s*mask\.block\[i\]\s*!=\s*mask\.block\[i\]\s*\{\s*return\s+false;\s*\}\s*\}\s*true', bc)
        if not ok_i:
            raise Missing('Block::insert: self.block[i] |= Block::mask(x).block[i]')
        if not ok_c:
            raise Missing('Block::check: self.block[i] & mask.block[i] != mask.block[i] => false, with mask = Block::mask(x)')
        return 1
    grab('sbbfInsertOrCheckAnd', insert_check)
    def new_size():
        m = re.search(r'let\s+size\s*=\s*\(\(size\.saturating_add\((\d+)\)\s*>>\s*(\d+)\)\s*>>\s*(\d+)\)\s*\+\s*(\d+)\s*;', fn_body('pub fn new(size: u32) -> Self'))
        if not m:
            raise Missing('Filter::new: ((size.saturating_add(A) >> B) >> C) + D')
        return [int(x) for x in m.groups()]
    grab('sbbfNewSize', new_size)
    def hashing():
        m = re.search(r'let\s+block_idx\s*=\s*\(\(\(x\s*>>\s*(\d+)\)\s*\*\s*self\.blocks\.len\(\)\s+as\s+u64\)\s*>>\s*(\d+)\)\s+as\s+usize\s*;\s*'
                      r'assert!\(\s*block_idx\s*<\s*self\.blocks\.len\(\)\s*,.*?\);\s*\(block_idx,\s*x\s+as\s+u32\)', fn_body('fn do_hashing(&self, x: u64) -> (usize, u32)'), re.S)
        if not m:
            raise Missing('do_hashing: (((x >> A) * len) >> B) as usize; assert!(block_idx < len); (block_idx, x as u32)')
        return [int(m.group(1)), int(m.group(2))]
    grab('sbbfHashShifts', hashing)
    def sizes():
        """every 32 / 4 of the byte layout: Block::try_from (len != 32, idx = i * 4, idx + 4),
        Filter::try_from (is_multiple_of(32), len / 32, idx * 32, idx + 32)"""
        bt = re.search(r'impl TryFrom<&\[u8\]> for Block \{.*?\n\}\n', src, re.S)
        ft = re.search(r'impl TryFrom<&\[u8\]> for Filter \{.*?\n\}\n', src, re.S)
        if not (bt and ft):
            raise Missing('TryFrom impls')
        b = re.search(r'if\s+bytes\.len\(\)\s*!=\s*(\d+)\s*\{\s*return\s+Err\(.*?let\s+idx\s*=\s*i\s*\*\s*(\d+)\s*;\s*one\.copy_from_slice\(&bytes\[idx\.\.idx\s*\+\s*(\d+)\]\);\s*'
                      r'block\.block\[i\]\s*=\s*u32::from_le_bytes\(one\);', bt.group(0), re.S)
        f = re.search(r'if\s+bytes\.is_empty\(\)\s*\{\s*return\s+Err\(.*?if\s+!bytes\.len\(\)\.is_multiple_of\((\d+)\)\s*\{\s*return\s+Err\(.*?let\s+limit\s*=\s*bytes\.len\(\)\s*/\s*(\d+)\s*;.*?'
                      r'for\s+idx\s+in\s+0\.\.limit\s*\{\s*let\s+idx\s*=\s*idx\s*\*\s*(\d+)\s*;\s*let\s+block_bytes\s*=\s*&bytes\[idx\.\.idx\s*\+\s*(\d+)\]\s*;', ft.group(0), re.S)
        w = re.search(r'for\s+b\s+in\s+self\.block\.iter\(\)\s*\{\s*buf\.extend_from_slice\(&b\.to_le_bytes\(\)\);', src)
        if not (b and f and w):
            raise Missing('byte layout of Block / Filter try_from / append_to_bytes')
        return [int(x) for x in b.groups()] + [int(x) for x in f.groups()]
    grab('sbbfByteLayout', sizes)

C09_CODES = ['CORRUPTION_FILE_TOO_SMALL', 'CORRUPTION_FINAL_BLOCK_OFFSET_TOO_LARGE', 'UNPACK_FINAL_BLOCK',
             'CORRUPTION_BLOCK_METADATA_START_GTE_LIMIT', 'CORRUPTION_INDEX_BLOCK_RUNS_PAST_FILTER_BLOCK',
             'CORRUPTION_FILTER_BLOCK_RUNS_PAST_FINAL_BLOCK', 'SYSTEM_ERROR', 'UNPACK_TABLE_ENTRY', 'CRC32C_FAILURE',
             'CORRUPTION_TRIED_LOADING_FILTER_BLOCK_AS_PLAIN', 'CORRUPTION_TRIED_LOADING_FINAL_BLOCK_AS_PLAIN',
             'CORRUPTION_TRIED_LOADING_PLAIN_BLOCK_AS_FILTER', 'CORRUPTION_TRIED_LOADING_FINAL_BLOCK_AS_FILTER',
             'CORRUPTION_BAD_FILTER_BLOCK', 'BLOCK_TOO_SMALL', 'CORRUPTION_META_BLOCK_NULL_VALUE', 'UNPACK_BLOCK_METADATA']

def c09_consts(repo, grab):
    """damaged files (C09): the error codes the SST reader answers with, the field types of the
    messages read from hostile bytes, whether the log replay propagates reader errors (D-3), and
    the two places where the manifest reader does or does not poison itself"""
    lib = read(repo, 'sst/src/lib.rs')
    def codes():
        r = []
        for n in C09_CODES:
            m = re.search(r'pub const CODE_%s\s*:\s*&str\s*=\s*"([^"]+)"' % n, lib)
            if not m:
                raise Missing('CODE_' + n)
            r.append(m.group(1))
        return r
    grab('sstReadErrorCodes', codes)
    def types(kind, name):
        m = re.search(r'\b%s\s+%s\b[^{]*\{(.*?)\n\}' % (kind, name), lib, re.S)
        if not m:
            raise Missing(name)
        fs = re.findall(r'#\[prototk\(\s*\d+\s*,\s*([A-Za-z0-9_]+)', sst_strip_comments(m.group(1)))
        if not fs:
            raise Missing(name + ' field types')
        return fs
    grab('finalBlockTypes', lambda: types('struct', 'FinalBlock'))
    grab('blockMetadataTypes', lambda: types('struct', 'BlockMetadata'))
    grab('sstEntryTypes', lambda: types('enum', 'SstEntry'))
    def trailer():
        # `let position = file_size - 8;` and the eight-byte buffer read there
        m = re.search(r'if file_size < (\d+) \{.*?let position = file_size - (\d+);', lib, re.S)
        if not m or m.group(1) != m.group(2):
            raise Missing('trailer size')
        return int(m.group(1))
    grab('sstTrailerBytes', trailer)
    lg = read(repo, 'sst/src/log.rs')
    def unwraps():
        n = 0
        for fn in ('log_to_builder', 'log_to_setsum'):
            m = re.search(r'pub fn %s\b.*?\n\}\n' % fn, lg, re.S)
            if not m:
                raise Missing(fn)
            n += len(re.findall(r'log_iter\.next\(\)\s*\.unwrap\(\)', m.group(0)))
            if not re.search(r'log_iter\.next\(\)', m.group(0)):
                raise Missing(fn + ': no log_iter.next()')
        return n
    grab('logReplayUnwraps', unwraps)
    mani = read(repo, 'mani/src/lib.rs')
    def nonascii_poisons():
        m = re.search(r'if !line\.is_ascii\(\) \{\s*return ([^;]+);', mani)
        if not m:
            raise Missing('non-ASCII check of ManifestIterator::next')
        return 1 if 'self.poison' in m.group(1) else 0
    grab('maniNonAsciiPoisons', nonascii_poisons)
    # the four checks the detection theorems of C09 lean on, as the source states them
    def crc_fatal(fn):
        m = re.search(r'fn %s\b.*?\n    \}\n' % fn, lib, re.S)
        if not m:
            raise Missing(fn)
        k = re.search(r'if table_entry\.crc32c\(\) != block_metadata\.crc32c \{(.*?)\n        \}', m.group(0), re.S)
        if not k:
            raise Missing('checksum comparison of ' + fn)
        return 1 if re.search(r'return Err\(crc32c_failure\(', k.group(1)) else 0
    grab('sstBlockCrcMismatchIsError', lambda: crc_fatal('load_block'))
    grab('sstFilterCrcMismatchIsError', lambda: crc_fatal('load_filter_block'))
    def short_payload():
        m = re.search(r'if got as u64 != header\.size \{(.*?)\n        \}', lg, re.S)
        if not m:
            raise Missing('short read of a frame payload in next_frame')
        return 1 if 'return Err(' in m.group(1) else 0
    grab('logShortPayloadIsError', short_payload)
    def trueup_bound():
        m = re.search(r'fn true_up\(&mut self\) -> Result<\(\), SError> \{.*?if trued_up - offset > ([A-Za-z_0-9]+) \{\s*return Err', lg, re.S)
        if not m:
            raise Missing('bound of LogIterator::true_up')
        return m.group(1)
    grab('logTrueUpBound', trueup_bound)
    def trueup_checks_zero():
        m = re.search(r'fn true_up\(&mut self\) -> Result<\(\), SError> \{(.*?)\n    \}\n', lg, re.S)
        if not m:
            raise Missing('LogIterator::true_up')
        return 1 if re.search(r'if padding\.iter\(\)\.any\(\|b\| \*b != 0\) \{\s*return Err', m.group(1)) else 0
    grab('logTrueUpChecksZero', trueup_checks_zero)
    def separator_exact():
        m = re.search(r'if ([^{}]*TX_SEPARATOR[^{}]*) \{\s*return Some\(Ok\(edit\)\);', mani)
        if not m:
            raise Missing('separator test of ManifestIterator::next')
        return 1 if m.group(1).strip() == 'line == TX_SEPARATOR' else 0
    grab('maniSeparatorExact', separator_exact)

def lean_str(x):
    return '"' + x.replace('\\', '\\\\').replace('"', '\\"') + '"'

def lean_val(v):
    if isinstance(v, list):
        return '[' + ', '.join(lean_str(x) if isinstance(x, str) else str(x) for x in v) + ']'
    if isinstance(v, str):
        return lean_str(v)
    return str(v)

def lean_ty(v):
    if isinstance(v, list):
        return 'List String' if v and all(isinstance(x, str) for x in v) else 'List Nat'
    return 'String' if isinstance(v, str) else 'Nat'

def render(consts, notes):
    lines = ['/-! GENERATED by translate/extract.py from the Rust source on every run. Do not edit. -/',
             'namespace Blue.Generated', '']
    for k in sorted(consts):
        lines.append('def %s : %s := %s' % (k, lean_ty(consts[k]), lean_val(consts[k])))
    lines.append('')
    for n in notes:
        lines.append('-- NOTE ' + n)
    lines.append('end Blue.Generated')
    return '\n'.join(lines) + '\n'

def fingerprints(repo, props_path):
    fps = {}
    for l in open(props_path):
        p = json.loads(l)
        h = hashlib.sha256()
        for f in p['anchors']['files']:
            try:
                h.update(open(os.path.join(repo, f), 'rb').read())
            except OSError:
                h.update(b'<missing:' + f.encode() + b'>')
        fps[p['id']] = h.hexdigest()
    return fps

def main():
    repo = sys.argv[1] if len(sys.argv) > 1 else '/repo'
    verif = os.path.dirname(os.path.dirname(os.path.abspath(__file__)))
    consts, notes = extract(repo)
    text = render(consts, notes)
    dst = os.path.join(verif, 'lean', 'Blue', 'Generated', 'Consts.lean')
    os.makedirs(os.path.dirname(dst), exist_ok=True)
    old = open(dst).read() if os.path.exists(dst) else None
    if old != text:
        open(dst, 'w').write(text)
    fps = fingerprints(repo, os.path.join(verif, 'properties.jsonl'))
    json.dump({'consts': consts, 'notes': notes, 'fingerprints': fps}, sys.stdout, indent=1)

if __name__ == '__main__':
    main()
